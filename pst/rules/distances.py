"""Shared analysis of persim.bottleneck.bottleneck / persim.wasserstein.wasserstein on symbolic diagrams."""
from __future__ import annotations

import ast
from typing import Dict, List, Optional, Tuple

from ..core import facets, sym, symeval
from ..core.absint import Config, Interp
from ..core.loader import AnalysisError, Project
from ..core.values import Arr, Bag, Blocks, DiagMat, Sc, Seq, Val, fix, fresh, generic_elem, rows

BN = "persim.bottleneck.bottleneck"
WS = "persim.wasserstein.wasserstein"


def dgm_input(name: str) -> Arr:
    i, c = fresh(), fresh()
    return Arr([(rows(name), i), (fix(2), c)], sym.Sel(c, (sym.In(name, ((i, 0), 0)), sym.In(name, ((i, 0), 1)))))


def B(name, iv=None):
    return sym.In(name, ((iv or f"${name}", 0), 0))


def Dd(name, iv=None):
    return sym.In(name, ((iv or f"${name}", 0), 1))


class Run:
    def __init__(self, project: Project, qual: str, a="S", b="T", matching=None, kind="finite"):
        self.qual = qual
        self.a, self.b = a, b
        self.kind = kind
        ra, rb = ("rows", a), ("rows", b)
        flags = dict(sub_nonempty=True)  # diagrams are non-empty after any row filtering
        nonempty = {ra, rb}
        finite = {a, b}
        if kind == "dropped":  # some rows with infinite death exist in both diagrams and are filtered out
            finite = set()
            flags = dict(strict_sub=True, sub_nonempty=True)
        elif kind == "allinf1":  # the first diagram holds only points with infinite death: nothing is left of it
            finite = {b}
            flags = dict(all_dropped={ra}, sub_nonempty=True)
        elif kind == "allinf2":
            finite = {a}
            flags = dict(all_dropped={rb}, sub_nonempty=True)
        elif kind == "empty1":
            nonempty = {rb}
            flags = dict(empty={ra}, sub_nonempty=True)
        elif kind == "empty2":
            nonempty = {ra}
            flags = dict(empty={rb}, sub_nonempty=True)
        self.interp = Interp(project, Config(nonempty=nonempty, finite_inputs=finite, flags=flags))
        self.project = project
        fi = project.function(qual)
        params = fi.params
        if len(params) < 2:
            raise AnalysisError(f"{qual}: expected two diagram parameters")
        args = {params[0]: dgm_input(a), params[1]: dgm_input(b)}
        if len(params) > 2:
            if matching is None:
                args[params[2]] = Sc(sym.FALSE)
            elif matching == "sym":
                args[params[2]] = Sc(sym.Sym("matching_flag"))
            else:
                args[params[2]] = Sc(sym.Bool(matching))
        self.fi = fi
        self.params = params
        self.result = self.interp.run(qual, args)
        self.log = self.interp.log
        self.top_returns = [ev for ev in self.log if ev["kind"] == "return" and ev["fi"] is fi]

    # the square cost matrix: the Blocks value that reaches the solver / the threshold test
    def cost_matrix(self) -> Blocks:
        bl = list(self.interp.blocks.values())
        if not bl:
            raise AnalysisError(f"{self.qual}: no matrix assembled by slice stores was found (role: augmented cost "
                                f"matrix)")
        # the one with the most stores
        bl.sort(key=lambda b: -len(b.stores))
        return bl[0]

    def events(self, kind):
        return [ev for ev in self.log if ev["kind"] == kind]

    def distance_values(self) -> List[Tuple[list, sym.Expr]]:
        out = []
        for ev in self.top_returns:
            v = ev["value"]
            if isinstance(v, Seq) and v.items:
                v = v.items[0]
            if isinstance(v, Sc):
                out.append((ev, v.e))
            else:
                out.append((ev, None))
        return out


def colsort_decides(run: "Run") -> list:
    """the column-wise sorts of a diagram (np.sort(<2-d>, axis=0)) whose result reaches what is returned: a returned value, or
    the condition under which some value is returned.  A column-wise sort made for something else (a bounding box in a log
    line) decides nothing and is not listed."""
    evs = list(run.events("sort-columns"))
    if not evs:
        return []

    def tainted(e):
        return e is not None and any(x[0] == "opq" and x[1] == "colsorted" for x in sym.walk(e))
    for ev, e in run.distance_values():
        if tainted(e) or any(tainted(c) for c in ev.get("path", ())):
            return evs
        r = ev.get("reach")
        if tainted(r.e if isinstance(r, Sc) else r if isinstance(r, tuple) else None):
            return evs
    return []


def unmodelled_in(e: sym.Expr) -> List[str]:
    return sorted({x[1] for x in sym.walk(e) if x[0] == "opq" and x[1].startswith("unmodelled")})


def leftover_placeholders(e: sym.Expr) -> bool:
    """a loop-carried placeholder that survived into a final value: the loop summary could not eliminate it, so the value is
    not what the code computes (rules that do not use placeholders on purpose must not compare such a value)"""
    return any(x[0] == "opq" and x[1] == "carry" for x in sym.walk(e))


def block_roles(run: Run, D: Blocks):
    """classify the stores of the cost matrix: cross block, diagonal block of the first / second diagram"""
    roles = {}
    for s in D.stores:
        v = s["val"]
        if isinstance(v, DiagMat):
            ins = sym.inputs_of(v.on)
            if ins == {run.a}:
                roles.setdefault("diagA", []).append(s)
            elif ins == {run.b}:
                roles.setdefault("diagB", []).append(s)
            else:
                roles.setdefault("other", []).append(s)
        elif (isinstance(v, Arr) and v.ndim == 2 and v.elem == sym.ZERO) or (isinstance(v, Sc) and v.e == sym.ZERO):
            roles.setdefault("zero", []).append(s)  # an explicit diagonal-to-diagonal block (np.block / D[M:, N:] = 0)
        elif isinstance(v, Arr) and v.ndim == 2:
            roles.setdefault("cross", []).append(s)
        else:
            roles.setdefault("other", []).append(s)
    return roles


def nf_check(rep, rule, fi, node, what: str, actual: sym.Expr, specs: List[sym.Expr], positive_syms=(), seed=0,
             refute_text: str = "") -> bool:
    """Compare a derived normal form with the accepted specification forms."""
    um = unmodelled_in(actual)
    if um:
        rep.unmodelled(rule, fi, node, f"{what}: value not fully modelled ({', '.join(um)})")
        return False
    a = symeval.canon_rows(actual)
    witness = None
    for sp in specs:
        s = symeval.canon_rows(sp)
        if sym.equal(a, s, 1e-9):
            rep.discharged(rule, fi, node, f"{what} = {sym.show(s)}", derived=sym.show(a))
            return True
        ok, w = symeval.equivalent(a, s, seed=seed, positive_syms=positive_syms)
        if ok is True:
            rep.discharged(rule, fi, node, f"{what} ≡ {sym.show(s)} (identity-tested at 24 random points)",
                           derived=sym.show(a))
            return True
        if ok is None:
            rep.unmodelled(rule, fi, node, f"{what}: cannot evaluate derived form ({w})")
            return False
        witness = w
    rep.refuted(rule, fi, node,
                f"{what} is {sym.show(a)}, not {' / '.join(sym.show(symeval.canon_rows(s)) for s in specs)}"
                + (f" — {refute_text}" if refute_text else "") + f"; witness {witness}",
                failing_input=str(witness))
    return False


def check_tiling(rep, rule, run: Run, D: Blocks, fi):
    """slice stores tile the (M+N)^2 matrix: cross [0:M,0:N], diagA [0:M,N:N+M], diagB [M:M+N,0:N]; RHS shapes
    equal slice extents for all sizes"""
    M, N = sym.Size(("rows", run.a)), sym.Size(("rows", run.b))
    if run.kind == "dropped":
        return
    roles0 = block_roles(run, D)
    if len(roles0.get("cross", [])) == 1 and isinstance(roles0["cross"][0]["val"], Arr):
        # M, N are the numbers of rows of the two diagrams as they enter the matrix (after any row filtering)
        cv = roles0["cross"][0]["val"]
        M, N = cv.axes[0][0].size, cv.axes[1][0].size
    total = sym.add(M, N)
    ok = True
    if unmodelled_in(D.shape[0]) or unmodelled_in(D.shape[1]) or unmodelled_in(total):
        # the sizes were not followed (an object the evaluator could not build): no verdict on a value it did not derive
        rep.unmodelled(rule, fi, D.stores[0]["node"] if D.stores else fi.node,
                       f"the shape of the augmented matrix was not followed exactly ({(unmodelled_in(D.shape[0]) + unmodelled_in(total))[0]})")
        ok = False
    elif not (sym.equal(D.shape[0], total) and sym.equal(D.shape[1], total)):
        rep.refuted(rule, fi, D.stores[0]["node"] if D.stores else fi.node,
                    f"augmented matrix has shape ({sym.show(D.shape[0])}, {sym.show(D.shape[1])}), not (M+N, M+N)",
                    construct=f"shape of cost matrix in {fi.qualname}")
        ok = False
    else:
        rep.discharged(rule, fi, fi.node, "augmented matrix is (M+N)×(M+N)", derived=sym.show(D.shape[0]))
    if getattr(D, "opaque_stores", None):
        rep.unmodelled(rule, fi, D.opaque_stores[0], "a store into the cost matrix is not modelled: its contents are "
                                                     "not known from here on")
        return
    if D.base != sym.ZERO:
        if roles0.get("zero"):
            rep.discharged(rule, fi, roles0["zero"][0]["node"],
                           f"the matrix is pre-filled with {sym.show(D.base)[:40]} and the diagonal-to-diagonal corner is "
                           f"written explicitly (position checked below)")
        elif unmodelled_in(D.base) or leftover_placeholders(D.base) or run.interp.unmodelled or run.interp.lossy:
            # a value the run could not determine (a loop-carried placeholder, an unmodelled store): nothing to compare
            rep.unmodelled(rule, fi, fi.node, f"the remainder of the cost matrix could not be determined ({sym.show(D.base)[:60]})")
        else:
            rep.refuted(rule, fi, fi.node, f"untouched remainder (diagonal–diagonal block) is {sym.show(D.base)}, not 0",
                        construct=f"base of cost matrix in {fi.qualname}")
    for s in D.stores:
        ext = (sym.sub(s["r1"], s["r0"]), sym.sub(s["c1"], s["c0"]))
        vs = s["vshape"]
        if isinstance(s["val"], Sc):
            rep.discharged(rule, fi, s["node"], "a scalar is broadcast over the slice")
            continue
        if vs is None or len(vs) != 2:
            rep.unmodelled(rule, fi, s["node"], "shape of the stored block is unknown")
            continue
        if sym.equal(ext[0], vs[0]) and sym.equal(ext[1], vs[1]):
            rep.discharged(rule, fi, s["node"], f"block shape ({sym.show(vs[0])}, {sym.show(vs[1])}) equals slice extent "
                                                f"for every M, N")
        else:
            rep.refuted(rule, fi, s["node"],
                        f"slice extent ({sym.show(ext[0])}, {sym.show(ext[1])}) differs from the stored block's shape "
                        f"({sym.show(vs[0])}, {sym.show(vs[1])}) whenever M ≠ N: the assignment raises or misplaces "
                        f"the block")
            ok = False
    roles = block_roles(run, D)
    want = {"cross": (sym.ZERO, M, sym.ZERO, N), "diagA": (sym.ZERO, M, N, total), "diagB": (M, total, sym.ZERO, N)}
    for role, (r0, r1, c0, c1) in want.items():
        ss = roles.get(role, [])
        if len(ss) != 1:
            if ok:
                rep.unmodelled(rule, fi, fi.node, f"expected exactly one {role} block store, found {len(ss)}")
            continue
        s = ss[0]
        pos_ok = all(sym.equal(x, y) for x, y in zip((s["r0"], s["r1"], s["c0"], s["c1"]), (r0, r1, c0, c1)))
        if pos_ok:
            rep.discharged(rule, fi, s["node"], f"{role} block occupies rows [{sym.show(r0)},{sym.show(r1)}) × cols "
                                                f"[{sym.show(c0)},{sym.show(c1)})")
        elif ok:
            rep.refuted(rule, fi, s["node"],
                        f"{role} block is stored at rows [{sym.show(s['r0'])},{sym.show(s['r1'])}) × cols "
                        f"[{sym.show(s['c0'])},{sym.show(s['c1'])}) instead of rows [{sym.show(r0)},{sym.show(r1)}) × "
                        f"cols [{sym.show(c0)},{sym.show(c1)})")
    for s in roles.get("zero", []):
        pos_ok = all(sym.equal(x, y) for x, y in zip((s["r0"], s["r1"], s["c0"], s["c1"]), (M, total, N, total)))
        if pos_ok:
            rep.discharged(rule, fi, s["node"], "explicit zero block occupies the diagonal-to-diagonal corner "
                                                "rows [M, M+N) × cols [N, M+N)")
        elif ok:
            rep.refuted(rule, fi, s["node"],
                        f"a zero block is stored at rows [{sym.show(s['r0'])},{sym.show(s['r1'])}) × cols "
                        f"[{sym.show(s['c0'])},{sym.show(s['c1'])}) instead of the diagonal-to-diagonal corner rows "
                        f"[{sym.show(M)},{sym.show(total)}) × cols [{sym.show(N)},{sym.show(total)})")
    if roles.get("other"):
        for s in roles["other"]:
            rep.unmodelled(rule, fi, s["node"], "a block stored into the cost matrix has no recognised role")


def check_filter(rep, rule, project, qual):
    """every diagram that reaches the cost matrix went through the finite-death row filter, with a warning"""
    run = Run(project, qual, kind="dropped")
    fi = run.fi
    D = run.cost_matrix()
    # anything computed per row BEFORE the finite-death filter and used with the rows that survive it is misaligned
    for ev in run.interp.log:
        if ev["kind"] == "shape-error" and "sub" in str(ev.get("message")):
            rep.refuted(rule, fi, ev["node"],
                        f"when some rows are dropped by the finite-death filter: {ev['message']} — a per-point quantity "
                        f"computed before the filter is paired with the rows that survive it (numpy silently truncates or "
                        f"cycles), so points get other points' values",
                        construct=f"{qual}: per-point values computed before the row filter")
    spaces = {}
    for s in D.stores:
        v = s["val"]
        exprs = [v.on] if isinstance(v, DiagMat) else [v.elem] if isinstance(v, Arr) else []
        for e in exprs:
            for x in sym.walk(e):
                if x[0] == "in":
                    spaces.setdefault(x[1], set())
    # row spaces: every mask applied to a diagram's rows before they enter the matrix
    sizes = {t[1] for e in D.shape for t in sym.walk(e) if t[0] == "size"}
    for name in (run.a, run.b):
        chains = []
        for k in sizes:
            masks = []
            kk = k
            while isinstance(kk, tuple) and kk and kk[0] == "sub":
                masks.append(kk[2])
                kk = kk[1]
            if kk == ("rows", name):
                chains.append(masks)
        if not chains:
            rep.unmodelled(rule, fi, fi.node, f"rows of `{name}` not found in the matrix shape")
            continue
        masks = chains[0]
        finite_ok = False
        for cond in masks:
            kind = classify_row_mask(cond, name)
            if kind == "finite-death":
                finite_ok = True
                rep.discharged(rule, fi, fi.node, f"rows of `{name}` pass the mask {sym.show(cond)} on the death column")
            elif kind == "off-diagonal":
                rep.discharged(rule, fi, fi.node, f"rows of `{name}` also pass {sym.show(cond)}: only points lying exactly on the "
                                                  f"diagonal are discarded (cost 0, no influence on the value)")
            elif kind == "finite-birth":
                rep.refuted(rule, fi, fi.node, f"the row filter of `{name}` tests the birth column ({sym.show(cond)}); rows "
                                               f"with infinite death are kept",
                            construct=f"{qual}: filter of {name}: {sym.show(cond)}")
            elif kind == "scale-dependent":
                rep.refuted(rule, fi, fi.node,
                            f"points of `{name}` are discarded by {sym.show(cond)[:160]}, a test that mixes coordinates with an "
                            f"absolute constant: points of small but positive persistence stop influencing the distance at "
                            f"small numeric scales", construct=f"{qual}: extra row filter on {name}")
            else:
                rep.unmodelled(rule, fi, fi.node, f"unrecognised row filter for `{name}`: {sym.show(cond)[:160]}")
        if not finite_ok and not any(classify_row_mask(c, name) in ("finite-birth",) for c in masks):
            rep.refuted(rule, fi, fi.node,
                        f"diagram `{name}` reaches the cost matrix without the finite-death row filter: points with "
                        f"infinite death influence the distance",
                        construct=f"{qual}: unfiltered diagram {name}")
    warns = run.events("warn")
    if len(warns) >= 2:
        rep.discharged(rule.replace("FILTER", "WARN"), fi, warns[0]["node"],
                       f"{len(warns)} warnings are issued on the paths where rows were dropped")
    else:
        rep.refuted(rule.replace("FILTER", "WARN"), fi, fi.node,
                    f"rows with non-finite death are dropped with {len(warns)} warning(s) instead of one per diagram",
                    construct=f"{qual}: warnings on dropped rows")
    return run


def classify_row_mask(cond, name):
    ins = [x for x in sym.walk(cond) if x[0] == "in"]
    cols = {x[2][1] for x in ins}
    # isfinite(death) / death != inf
    if cond[0] == "fn" and cond[1] == "isfinite" and cols == {1}:
        return "finite-death"
    if cond[0] == "cmp" and cond[1] == "!=" and cond[3] == sym.INF and cols == {1}:
        return "finite-death"
    if cond[0] == "not" and cond[1][0] == "fn" and cond[1][1] == "isinf" and cols == {1}:
        return "finite-death"
    if (cond[0] == "fn" and cond[1] == "isfinite" and cols == {0}) or (cond[0] == "cmp" and cond[3] == sym.INF and cols == {0}):
        return "finite-birth"
    # death > birth / death != birth: exactly the diagonal points are dropped
    if cond[0] == "cmp" and cond[1] in (">", "!=", "<") and cols == {0, 1}:
        d = sym.sub(cond[2], cond[3])
        terms, c = sym.lin_parts(d)
        if c == 0 and len(terms) == 2 and all(t[0] == "in" for t in terms) and abs(sum(terms.values())) < 1e-12:
            coef_death = [k for t, k in terms.items() if t[2][1] == 1][0]
            if cond[1] == "!=" or (cond[1] == ">" and coef_death > 0) or (cond[1] == "<" and coef_death < 0):
                return "off-diagonal"
    d = facets.degree(cond, facets.DegDecl())
    if facets.is_top(d) and not d.reason.startswith("unmodelled"):
        return "scale-dependent"
    return None


def _row_iv(cond):
    for x in sym.walk(cond):
        if x[0] == "in" and isinstance(x[2][0], tuple):
            return x[2][0][0]
    return "$"


def first_top_culprit(run: Run, facet, decl):
    """first logged value (assignment / comparison) whose facet is Top: the construct to blame"""
    for ev in run.log:
        vals = []
        if ev["kind"] == "assign":
            vals = [ev["value"]]
        elif ev["kind"] == "compare":
            vals = [ev["result"]]
        elif ev["kind"] in ("store", "fill_diagonal"):
            vals = [ev["value"]]
        for v in vals:
            try:
                e = generic_elem(v)
            except Exception:
                continue
            for alt in _sel_alts(e):
                r = facet(alt, decl)
                if facets.is_top(r):
                    return ev, r
    return None, None


def _sel_alts(e):
    """columns of a multi-column array are separate quantities: look at each alternative of a top-level Sel"""
    if e[0] == "sel":
        out = []
        for a in e[2]:
            out.extend(_sel_alts(a))
        return out
    return [e]


# ----------------------------------------------------------------------------- the thresholded bipartite graph
def check_graph(rep, rule, run: "Run", D: Blocks):
    """The graph handed to the matching library is, for the probed threshold d, exactly {(row r, column c) : D[r, c] <= d}
    over all (M+N)² cells, rows keyed by the row position and columns labelled by the column position.
    Every store into the graph dictionary is read as (key position, set of columns as a membership predicate); the relation
    they define is compared with the thresholded matrix cell by cell on small sizes, with the threshold ranging over the
    matrix's own entries (so that `<=` versus `<` shows) and values between them."""
    import random
    from ..core.values import DictV, PSet, StrV
    fi = run.fi
    hk = [ev for ev in run.events("hopcroftkarp")]
    if not hk:
        rep.unmodelled(rule, fi, fi.node, "no graph is handed to the matching library")
        return "unmodelled"
    stores = {}
    for ev in run.events("store"):
        if isinstance(ev["base"], DictV) and ev["idx"] and ev["idx"][0][0] == "str":
            stores[id(ev["node"])] = ev
    stores = list(stores.values())
    if not stores:
        rep.unmodelled(rule, fi, hk[0]["node"], "the rows of the graph are not stored under string keys")
        return "unmodelled"
    recs = []
    for ev in stores:
        key = ev["idx"][0]
        arg = key[2] if len(key) > 2 else None
        v = ev["value"]
        if arg is None:
            rep.unmodelled(rule, fi, ev["node"], "the key a row of the graph is stored under is not the text of one number")
            return "unmodelled"
        if not isinstance(v, PSet):
            rep.unmodelled(rule, fi, ev["node"], f"the columns of a row are not modelled as a set of positions ({type(v).__name__})")
            return "unmodelled"
        if ev.get("comp_ivar"):
            loops = [(ev["comp_ivar"], ev["comp_space"])]
        else:
            loops = [(lp["ivar"], lp["space"]) for lp in ev["loops"] if lp["loop_kind"] == "for" and lp["ivar"] is not None
                     and lp["fi"] is ev["fi"]]
            loops = [l for l in loops if l[0] in sym.free_ivars(arg) or l[0] in sym.free_ivars(v.pred)]
        recs.append(dict(ev=ev, key=arg, pred=v.pred, loops=loops))
    # the probed threshold: the one operand of the comparisons that is neither data of a cell nor a position
    def thresholds(pred, loop_ivs):
        out = set()
        for x in sym.walk(pred):
            if x[0] != "cmp":
                continue
            for side in (x[2], x[3]):
                if side[0] in ("num", "size", "iv"):
                    continue
                fv = sym.free_ivars(side)
                if PSet.VAR in fv or fv & loop_ivs:
                    continue
                if all(y[0] in ("size", "num", "lin", "mul", "iv") for y in sym.walk(side)):
                    continue
                out.add(side)
        return out
    ths = set()
    for rc in recs:
        ths |= thresholds(rc["pred"], {iv for iv, _ in rc["loops"]})
    def canon(e):
        out = e
        for k, iv in enumerate(sorted(sym.free_ivars(e))):
            out = sym.subst_ivar(out, iv, (f"$t{k}#", 0))
        # order of appearance would be better than name order; the copies here differ only in the names
        names = []
        for x in sym.walk(out):
            if x[0] == "in":
                for i_ in x[2]:
                    if isinstance(i_, tuple) and i_[0] not in names:
                        names.append(i_[0])
            elif x[0] == "iv" and x[1] not in names:
                names.append(x[1])
        for k, nm in enumerate(names):
            out = sym.subst_ivar(out, nm, (f"$u{k}", 0))
        return out
    groups = {}
    for t_ in ths:
        groups.setdefault(canon(t_), []).append(t_)
    if len(groups) != 1:
        rep.unmodelled(rule, fi, stores[0]["node"], f"expected one probed threshold in the edge tests, found {len(groups)}")
        return "unmodelled"
    thr = sym.Sym("$thr")
    for rc in recs:
        rc["pred"] = sym.subst(rc["pred"], {t_: thr for t_ in ths})
        um = unmodelled_in(rc["pred"]) or unmodelled_in(rc["key"])
        if um:
            rep.unmodelled(rule, fi, rc["ev"]["node"], f"edge test not fully modelled ({um[0]})")
            return "unmodelled"
    rng = random.Random(23)
    n_cells = 0
    for (m, n) in ((1, 1), (1, 2), (2, 1), (2, 2), (2, 3), (3, 2), (3, 3)):
        for trial in range(3):
            pt = symeval.Point(rng, nrows=3, sizes={("rows", run.a): m, ("rows", run.b): n})
            pt.eval_ranges = True
            pt.blocks = {D.uid: D}
            try:
                cells = {(r, c): symeval.eval_block_entry(D, r, c, pt) for r in range(m + n) for c in range(m + n)}
            except symeval.NotEvaluable as ex:
                rep.unmodelled(rule, fi, fi.node, f"cannot evaluate the cost matrix ({ex})")
                return "unmodelled"
            finite = sorted({v for v in cells.values() if v == v and abs(v) != float("inf")})
            probes = list(finite) + [finite[0] - 1.0] + [(a + b) / 2 for a, b in zip(finite, finite[1:])][:3]
            for tv in probes:
                pt.syms["$thr"] = tv
                got = set()
                for rc in recs:
                    spaces = []
                    for iv, sp in rc["loops"]:
                        try:
                            spaces.append((iv, symeval.space_rows(sp.key, pt)))
                        except symeval.NotEvaluable as ex:
                            rep.unmodelled(rule, fi, rc["ev"]["node"], f"cannot evaluate a loop range ({ex})")
                            return "unmodelled"
                    import itertools as _it
                    for combo in _it.product(*[rows_ for _, rows_ in spaces]) if spaces else [()]:
                        for (iv, _), k in zip(spaces, combo):
                            pt.ivs[iv] = k
                        try:
                            r = int(round(symeval.ev(rc["key"], pt)))
                            for c in range(-1, m + n + 1):
                                pt.ivs[PSet.VAR] = c
                                if symeval.ev(rc["pred"], pt):
                                    got.add((r, c))
                        except symeval.NotEvaluable as ex:
                            rep.unmodelled(rule, fi, rc["ev"]["node"], f"cannot evaluate an edge test ({ex})")
                            return "unmodelled"
                want = {(r, c) for (r, c), v in cells.items() if v <= tv}
                n_cells += len(cells)
                if got != want:
                    extra, missing = sorted(got - want), sorted(want - got)
                    what = (f"edge (row {extra[0][0]}, column {extra[0][1]}) is in the graph although "
                            f"{'there is no such cell' if extra[0] not in cells else 'D = ' + format(cells[extra[0]], '.4g') + ' > d'}"
                            if extra else
                            f"edge (row {missing[0][0]}, column {missing[0][1]}) is missing although D = "
                            f"{cells[missing[0]]:.4g} <= d")
                    rep.refuted(rule, fi, recs[0]["ev"]["node"],
                                f"with {m} and {n} points and d = {tv:.4g}: {what} — the graph searched for a perfect matching is "
                                f"not the cost matrix thresholded at d",
                                construct=f"{run.qual}: threshold graph", failing_input=f"sizes ({m}, {n}), d={tv:.4g}")
                    return "refuted"
    rep.discharged(rule, fi, recs[0]["ev"]["node"],
                   f"the graph handed to the matching library is {{(r, c): D[r, c] <= d}} cell by cell (rows keyed by position, "
                   f"columns labelled by position): {n_cells} cells compared on sizes up to 3+3 with d at, between and below the "
                   f"matrix's entries")
    return "ok"


# ----------------------------------------------------------------------------- the candidate thresholds
def check_candidates(rep, rule, run: "Run", D: Blocks):
    """Every finite entry of the cost matrix is among the candidate thresholds the search probes (the optimum is one of them).
    The value handed to np.unique / sort is read as a collection of parts (whole matrix, blocks, positional regions, literal
    lists); on small sizes the set of values they hold is compared with the set of finite cells of the matrix."""
    import random
    from ..core.values import Concat, DiagMat as _DM
    fi = run.fi

    def touches(v, depth=0):
        if depth > 4 or v is None:
            return False
        if isinstance(v, Blocks):
            return v.uid == D.uid
        if isinstance(v, Bag):
            if v.src == D.uid:
                return True
            return any(touches(p, depth + 1) for p in (v.parts or []))
        if isinstance(v, Arr):
            return v.uid == D.uid or any(x[0] == "at" and x[1] == D.uid for x in sym.walk(v.elem)) \
                or any(isinstance(s["val"], Arr) and s["val"].uid == v.uid and v.uid is not None for s in D.stores)
        if isinstance(v, _DM):
            return any(s["val"] is v or getattr(s["val"], "uid", None) == v.uid for s in D.stores)
        if isinstance(v, (Seq, Concat)):
            return any(touches(p, depth + 1) for p in (v.items if isinstance(v, Seq) else v.parts))
        return False
    cands = [ev for ev in run.log if ev["kind"] in ("unique", "sort") and touches(ev.get("arg"))]
    if not cands:
        rep.unmodelled(rule, fi, fi.node, "the candidate thresholds are not obtained by np.unique / sort of something built from "
                                          "the cost matrix")
        return "unmodelled"
    ev = cands[0]
    src = ev["arg"]

    def parts_of(v, out):
        if isinstance(v, Bag) and v.parts:
            for p in v.parts:
                parts_of(p, out)
        elif isinstance(v, Concat):
            for p in v.parts:
                parts_of(p, out)
        else:
            out.append(v)
        return out
    parts = parts_of(src, [])
    rng = random.Random(31)
    n_cells = 0
    for (m, n) in ((1, 1), (1, 2), (2, 1), (1, 3), (3, 1), (2, 3), (3, 2)):
        pt = symeval.Point(rng, nrows=3, sizes={("rows", run.a): m, ("rows", run.b): n})
        pt.eval_ranges = True
        pt.blocks = {D.uid: D}
        try:
            cells = {(r, c): symeval.eval_block_entry(D, r, c, pt) for r in range(m + n) for c in range(m + n)}
            have = set()
            for p in parts:
                if isinstance(p, Blocks) and p.uid == D.uid:
                    have |= set(cells.values())
                elif isinstance(p, Bag) and p.src == D.uid and not p.parts:
                    have |= set(cells.values())
                elif isinstance(p, _DM):
                    nn = int(round(symeval.ev(p.n, pt)))
                    for k in range(nn):
                        pt.ivs[p.iv] = k
                        have.add(symeval.ev(p.on, pt))
                    if nn > 1:
                        have.add(symeval.ev(p.off, pt))
                elif isinstance(p, Arr):
                    import itertools as _it
                    spaces = [(iv, symeval.space_rows(sp.key, pt) if sp.concrete is None else list(range(sp.concrete)))
                              for sp, iv in p.axes]
                    for combo in _it.product(*[r_ for _, r_ in spaces]):
                        for (iv, _), k in zip(spaces, combo):
                            pt.ivs[iv] = k
                        have.add(symeval.ev(p.elem, pt))
                elif isinstance(p, Seq) and all(isinstance(x, Sc) and x.e is not None for x in p.items):
                    for x in p.items:
                        have.add(symeval.ev(x.e, pt))
                elif isinstance(p, Sc) and p.e is not None:
                    have.add(symeval.ev(p.e, pt))
                else:
                    rep.unmodelled(rule, fi, ev["node"], f"a part of the candidate thresholds is not modelled ({type(p).__name__})")
                    return "unmodelled"
        except symeval.NotEvaluable as ex:
            rep.unmodelled(rule, fi, ev["node"], f"cannot evaluate the candidate thresholds ({ex})")
            return "unmodelled"
        n_cells += len(cells)
        for (r, c), v in sorted(cells.items()):
            if v != v or abs(v) == float("inf"):
                continue
            if not any(abs(v - h) <= 1e-12 * (1 + abs(v)) for h in have if h == h and abs(h) != float("inf")):
                rep.refuted(rule, fi, ev["node"],
                            f"with {m} and {n} points the cost D[{r}, {c}] = {v:.4g} is not among the candidate thresholds: when it "
                            f"is the optimal bottleneck cost the search cannot return it",
                            construct=f"{run.qual}: candidate thresholds", failing_input=f"sizes ({m}, {n}), cell ({r}, {c})")
                return "refuted"
    rep.discharged(rule, fi, ev["node"], f"every finite entry of the cost matrix is among the candidate thresholds "
                                         f"({n_cells} cells on sizes up to 3+2)")
    return "ok"
