"""C06 — returned matchings certify the reported distance (bottleneck, wasserstein).

Decided: MT-NONINT (the `matching` flag cannot influence the returned distance), MT-COST (a row's third entry is
the distance's own matrix read at the raw indices), MT-MINUS1 (first column -> -1 iff raw row index >= M, second
column -> -1 iff raw column index >= N, with M/N the filtered sizes of the first/second diagram), MT-DROP (exactly
the diagonal-diagonal rows are dropped), MT-PROV (column 0 derives from the row index, column 1 from the column
index), MT-COVER (all M+N rows of the matrix are listed from the accepted matching / all solver pairs).
Declined: that max / sum of the third column equals the distance (needs solver optimality); which optimal
matching is returned.
"""
from __future__ import annotations

import ast

from ..core import sym, symeval
from ..core.loader import AnalysisError, Project
from ..core.values import Arr, Bag, Blocks, Sc, Seq
from .distances import BN, WS, Run, unmodelled_in

NEG1 = sym.Num(-1)


def _equiv_under(cond, a, b, seed=0):
    """a == b wherever cond holds (identity testing of derived index expressions over small ranges)"""
    x = sym.ITE(cond, a, sym.Num(-7))
    y = sym.ITE(cond, b, sym.Num(-7))
    return symeval.equivalent(x, y, trials=200, seed=seed, nrows=3)


def check_nonint(rep, run: Run):
    fi = run.fi
    dvs = run.distance_values()
    if len(dvs) < 2:
        rep.unmodelled("MT-NONINT", fi, fi.node, f"expected a return with and one without the matching, found {len(dvs)}")
        return
    base = dvs[0][1]
    for ev, e in dvs:
        if e is None:
            rep.unmodelled("MT-NONINT", fi, ev["node"], "distance component is not a scalar expression")
            return
        if any(x[0] == "sym" and x[1] == "matching_flag" for x in sym.walk(e)):
            rep.refuted("MT-NONINT", fi, ev["node"], "the returned distance depends on the value of the `matching` flag")
            return
    same = all(e == base for _, e in dvs)
    if same:
        rep.discharged("MT-NONINT", fi, dvs[0][0]["node"],
                       "the distance component of every return is the same expression, free of the flag: requesting "
                       "the matching cannot change the distance", derived=sym.show(base)[:200])
        return
    ev = dvs[-1][0]
    other = [e for _, e in dvs if e != base][0]
    solver_out = lambda x: any(y[0] == "opq" and y[1] in ("hk_partner", "lsa_rows", "lsa_cols", "hk_len") for y in sym.walk(x))
    if solver_out(base) != solver_out(other) or unmodelled_in(other) or unmodelled_in(base):
        rep.unmodelled("MT-NONINT", fi, ev["node"],
                       "the distance returned with the matching is derived differently (through the solver's output) from the "
                       "one returned without; whether the two agree depends on solver optimality, which is not decided here")
        return
    # both are sums of entries of the cost matrix: they must read the same cells (an identity test on random values cannot see
    # a re-mapped index — the entries are opaque there)
    def cells(e):
        out = []
        for x in sym.walk(e):
            if x[0] == "at" and len(x[3]) == 2:
                idx = x[3]
                ivs = sorted({v for t_ in idx if isinstance(t_, sym.Expr) for v in sym.free_ivars(t_)})
                ren = tuple(idx)
                for k_, v in enumerate(ivs):
                    ren = tuple(sym.subst_ivar(t_, v, (f"$c{k_}", 0)) if isinstance(t_, sym.Expr) else t_ for t_ in ren)
                out.append((x[1], ren))
        return out
    ca, cb = cells(base), cells(other)
    if ca and cb and {u for u, _ in ca} == {u for u, _ in cb} and len(ca) == len(cb) == 1 and ca[0][1] != cb[0][1]:
        remapped = lambda c_: any(y[0] == "ite" for t_ in c_[1] if isinstance(t_, sym.Expr) for y in sym.walk(t_))
        odd = ca[0] if remapped(ca[0]) and not remapped(cb[0]) else cb[0]
        rep.refuted("MT-NONINT", fi, ev["node"],
                    f"with matching=True the distance sums the cost matrix at [{sym.show(odd[1][0])[:70]}, {sym.show(odd[1][1])[:70]}] "
                    f"instead of the solver's own (row, column) pairs: indices re-mapped to -1 read the last row / column, so the "
                    f"value differs from the one returned without the matching",
                    construct=f"{run.qual}: distance returned with the matching")
        return
    ok, w = symeval.equivalent(base, other, trials=40)
    if ok is True:
        rep.discharged("MT-NONINT", fi, ev["node"], "the two returned distances are the same function (identity-tested)")
    elif ok is False:
        rep.refuted("MT-NONINT", fi, ev["node"],
                    "the distance returned with matching=True differs from the one returned without: "
                    f"{sym.show(base)[:100]} vs {sym.show(other)[:100]}; witness {str(w)[:200]}")
    else:
        rep.unmodelled("MT-NONINT", fi, ev["node"], f"cannot compare the two returned distances ({w})")


def _matching_value(run: Run):
    for ev in run.top_returns:
        v = ev["value"]
        if isinstance(v, Seq) and len(v.items) >= 2:
            return ev, v.items[1]
    return None, None


def check_rows(rep, run: Run, D: Blocks, row_entries, cond, raw_r, raw_c, node, what, drop=True, sizes=None):
    """row_entries: (col0, col1, col2) expressions; cond: condition under which the row is listed; drop=False when the
    rows are one part of a table whose listing condition is checked for the whole table"""
    fi = run.fi
    M, N = sizes if sizes is not None else (sym.Size(("rows", run.a)), sym.Size(("rows", run.b)))
    c0, c1, c2 = row_entries
    for e in (c0, c1, c2, cond):
        if unmodelled_in(e):
            rep.unmodelled("MT-COST", fi, node, f"{what}: row not fully modelled ({unmodelled_in(e)})")
            return
    # MT-COST: the third entry is D at the raw indices
    if c2[0] == "at" and c2[1] == D.uid and len(c2[3]) == 2 and c2[2] == D.elem_choice():
        r, c = c2[3]
        if r == raw_r and c == raw_c:
            rep.discharged("MT-COST", fi, node, f"{what}: third entry is the distance's own matrix read at the raw "
                                                f"(row, column) of the pair", derived=sym.show(c2)[:160])
        else:
            rep.refuted("MT-COST", fi, node,
                        f"{what}: the cost is read at [{sym.show(r)[:80]}, {sym.show(c)[:80]}] instead of the raw matched "
                        f"indices [{sym.show(raw_r)[:60]}, {sym.show(raw_c)[:60]}] (re-indexed -1 silently reads the last "
                        f"row/column)")
    else:
        rep.refuted("MT-COST", fi, node, f"{what}: third entry {sym.show(c2)[:160]} is not an entry of the matrix that "
                                         f"decided the distance")
    # MT-DROP: listed iff not diagonal-diagonal
    spec_cond = sym.Not(sym.And(sym.Cmp(">=", raw_r, M), sym.Cmp(">=", raw_c, N)))
    if not drop:
        spec_cond = sym.And(spec_cond, cond)
        ok, w = "skip", None
    else:
        ok, w = symeval.equivalent(cond, spec_cond, trials=200, nrows=3)
    if ok == "skip":
        pass
    elif ok is True:
        rep.discharged("MT-DROP", fi, node, f"{what}: a row is listed iff it is not a diagonal–diagonal pair",
                       derived=sym.show(cond)[:160])
    elif ok is False:
        rep.refuted("MT-DROP", fi, node, f"{what}: rows are kept/dropped under {sym.show(cond)[:160]} instead of "
                                         f"'not (row ≥ M and col ≥ N)'; witness {w}")
    else:
        rep.unmodelled("MT-DROP", fi, node, f"cannot evaluate the listing condition ({w})")
    # MT-MINUS1 / MT-PROV
    for k, (got, raw, size, nm) in enumerate(((c0, raw_r, M, "first"), (c1, raw_c, N, "second"))):
        spec = sym.ITE(sym.Cmp(">=", raw, size), NEG1, raw)
        ok, w = _equiv_under(spec_cond, got, spec, seed=k)
        if ok is True:
            rep.discharged("MT-MINUS1", fi, node,
                           f"{what}: {nm} column is the raw {'row' if k == 0 else 'column'} index, or -1 iff it is ≥ the "
                           f"filtered size of the {nm} diagram", derived=sym.show(got)[:160])
        elif ok is False:
            other = sym.ITE(sym.Cmp(">=", raw, N if k == 0 else M), NEG1, raw)
            ok2, _ = _equiv_under(spec_cond, got, other, seed=k)
            why = "it is compared with the size of the other diagram" if ok2 else "wrong threshold or source index"
            rep.refuted("MT-MINUS1", fi, node, f"{what}: {nm} column is {sym.show(got)[:140]} — {why}; witness {w}")
        else:
            rep.unmodelled("MT-MINUS1", fi, node, f"cannot evaluate column {k} ({w})")


def check_bottleneck(rep, project):
    run = Run(project, BN, matching="sym")
    fi = run.fi
    rep.analysed(fi)
    D = run.cost_matrix()
    check_nonint(rep, run)
    # the pairs listed are a matching of *this* graph: row i's partner is a column c with D[i, c] <= distance only if the
    # graph given to the matching library is the thresholded matrix itself (not its transpose, not a relabelling)
    from .distances import check_graph
    check_graph(rep, "MT-GRAPH", run, D)
    appends = [ev for ev in run.events("method-call") if ev["target"] == "append"
               and isinstance(ev["pos"][0], Seq) and len(ev["pos"][0].items) == 3]
    if not appends:
        _bottleneck_table(rep, run, D)
        return
    ev = appends[-1]
    sites = {}
    for a_ in appends:
        sites[id(a_["node"])] = a_          # the last evaluation of every append site
    if len(sites) > 1:
        _bottleneck_sites(rep, run, D, sorted(sites.values(), key=lambda a_: a_["node"].lineno))
        return
    items = ev["pos"][0].items
    if not all(isinstance(x, Sc) for x in items):
        rep.unmodelled("MT-COST", fi, ev["node"], "matching row entries are not scalars")
        return
    # raw indices: the loop position and the partner looked up in the accepted matching
    loops = [l for l in run.events("loop") if l["fi"] is ev["fi"] and l["loop_kind"] == "for" and l["ivar"]
             and l["node"].lineno <= ev["node"].lineno <= l["node"].end_lineno]
    if not loops:
        rep.unmodelled("MT-COVER", fi, ev["node"], "row-listing loop not found")
        return
    lp = loops[-1]
    raw_r = sym.IV(lp["ivar"])
    M, N = sym.Size(("rows", run.a)), sym.Size(("rows", run.b))
    if sym.equal(lp["space"].size, sym.add(M, N)):
        rep.discharged("MT-COVER", fi, lp["node"], "the listing loop visits every one of the M+N rows of the matrix")
    elif unmodelled_in(lp["space"].size):
        rep.unmodelled("MT-COVER", fi, lp["node"], "the number of rows the listing loop visits was not followed exactly")
    else:
        rep.refuted("MT-COVER", fi, lp["node"], f"the listing loop visits {sym.show(lp['space'].size)} rows instead of "
                                                f"M+N: some points never appear in the matching")
    partners = [x for x in sym.walk(items[2].e) if x[0] == "opq" and x[1] == "hk_partner"]
    c2 = items[2].e
    raw_c = c2[3][1] if (c2[0] == "at" and len(c2[3]) == 2) else None
    if raw_c is None or not any(x[0] == "opq" and x[1] == "hk_partner" for x in sym.walk(raw_c)):
        # the cost is not read at the partner's raw column
        raw_c = None
        for a in run.events("assign"):
            if isinstance(a["value"], Sc) and any(
                    x[0] == "opq" and x[1] == "hk_partner" for x in sym.walk(a["value"].e)) and a["value"].e[0] in ("opq", "choice"):
                raw_c = a["value"].e
                break
        if raw_c is None:
            rep.unmodelled("MT-COST", fi, ev["node"], "partner lookup in the accepted matching not found")
            return
    if not _partner_key_ok(rep, fi, ev["node"], raw_c, raw_r):
        return
    check_rows(rep, run, D, (items[0].e, items[1].e, items[2].e), ev["reach"], raw_r, raw_c, ev["node"],
               "bottleneck matching row")


def _bottleneck_sites(rep, run: Run, D: Blocks, sites):
    """the rows are appended at several places of the listing loop (one per case: both points real, first on the diagonal,
    second on the diagonal): every site is one part of the table — its entries are checked under its own path condition, and
    the path conditions together must list every pair that is not diagonal–diagonal exactly once"""
    fi = run.fi
    M, N = sym.Size(("rows", run.a)), sym.Size(("rows", run.b))
    raw_r = raw_c = None
    conds = []
    lp0 = None
    for k, ev in enumerate(sites):
        items = ev["pos"][0].items
        if not all(isinstance(x, Sc) for x in items):
            rep.unmodelled("MT-COST", fi, ev["node"], "matching row entries are not scalars")
            return
        loops = [l for l in run.events("loop") if l["fi"] is ev["fi"] and l["loop_kind"] == "for" and l["ivar"]
                 and l["node"].lineno <= ev["node"].lineno <= l["node"].end_lineno]
        if not loops:
            rep.unmodelled("MT-COVER", fi, ev["node"], "row-listing loop not found")
            return
        lp = loops[-1]
        if lp0 is None:
            lp0 = lp
        elif lp["node"] is not lp0["node"]:
            rep.unmodelled("MT-COVER", fi, ev["node"], "rows are appended in different loops")
            return
        rr = sym.IV(lp["ivar"])
        partners = {x for it in items for x in sym.walk(it.e) if x[0] == "opq" and x[1] == "hk_partner"} \
            | {x for x in sym.walk(ev["reach"]) if x[0] == "opq" and x[1] == "hk_partner"}
        if len(partners) != 1:
            rep.unmodelled("MT-COST", fi, ev["node"], f"expected one partner lookup in the accepted matching per row, found "
                                                      f"{len(partners)}")
            return
        rc = next(iter(partners))
        if raw_c is not None and (rc != raw_c or rr != raw_r):
            rep.unmodelled("MT-PROV", fi, ev["node"], "the append sites look partners up in different ways")
            return
        raw_r, raw_c = rr, rc
        if k == 0:
            if sym.equal(lp["space"].size, sym.add(M, N)):
                rep.discharged("MT-COVER", fi, lp["node"], "the listing loop visits every one of the M+N rows of the matrix")
            elif unmodelled_in(lp["space"].size):
                rep.unmodelled("MT-COVER", fi, lp["node"], "the number of rows the listing loop visits was not followed exactly")
            else:
                rep.refuted("MT-COVER", fi, lp["node"], f"the listing loop visits {sym.show(lp['space'].size)} rows instead of "
                                                        f"M+N: some points never appear in the matching")
            if not _partner_key_ok(rep, fi, ev["node"], raw_c, raw_r):
                return
        conds.append(ev["reach"])
        check_rows(rep, run, D, (items[0].e, items[1].e, items[2].e), ev["reach"], raw_r, raw_c, ev["node"],
                   f"bottleneck matching row (append site {k + 1} of {len(sites)})", drop=False)
    _parts_union(rep, fi, sites[0]["node"], conds, raw_r, raw_c, M, N)


def _partner_key_ok(rep, fi, node, raw_c, raw_r):
    """MT-PROV: the partner of row i is looked up in the accepted matching under the key of row i itself"""
    keys = {x[2][-1] for x in sym.walk(raw_c) if x[0] == "opq" and x[1] == "hk_partner" and x[2]}
    if len(keys) != 1:
        rep.unmodelled("MT-PROV", fi, node, f"expected one partner lookup per row, found {len(keys)}")
        return False
    key = next(iter(keys))
    if key[0] == "opq" and key[1] == "unknown-key":
        rep.unmodelled("MT-PROV", fi, node, "the key used to look up the partner in the accepted matching is not modelled")
        return False
    if key == raw_r:
        rep.discharged("MT-PROV", fi, node, "the partner is looked up in the accepted matching under the row's own position")
        return True
    ok, w = symeval.equivalent(key, raw_r, trials=60, nrows=3)
    if ok is False:
        rep.refuted("MT-PROV", fi, node, f"the partner of row {sym.show(raw_r)[:40]} is looked up under key "
                                         f"{sym.show(key)[:80]}: the row is paired with another row's partner")
        return False
    if ok is True:
        rep.discharged("MT-PROV", fi, node, "the partner is looked up under the row's own position (identity-tested)")
        return True
    rep.unmodelled("MT-PROV", fi, node, f"cannot compare the lookup key with the row position ({w})")
    return False


def _row_domain(key, riv):
    """the rows of a table axis as a condition on the position in the un-masked, un-sliced row space: masks that
    selected rows and slice bounds, with the position named `riv` throughout"""
    cond = sym.TRUE
    pos = sym.IV(riv)
    while isinstance(key, tuple) and key and key[0] in ("sub", "slice"):
        if key[0] == "sub":
            cond = sym.And(cond, _rename_iv(key[2], riv))
        else:
            cond = sym.And(cond, sym.Cmp(">=", pos, key[2]), sym.Cmp("<", pos, key[3]))
        key = key[1]
    return cond, key


def _array_rows(mv):
    """an (n,3) matching table held as one array: its three column expressions (per row position), the listing
    condition and the un-masked row space"""
    (rsp, riv), (csp, civ) = mv.axes
    cols = [sym.subst_ivar(mv.elem, civ, k) for k in range(3)]
    cond, parent = _row_domain(rsp.key, riv)
    return riv, cols, cond, parent


TABLE_SEMANTIC = []


def _table_semantic(rep, run: Run, D: Blocks, parts, node):
    """MT-TABLE: a matching table of any construction is evaluated — the derived expressions of its parts, not the code — for
    small diagrams, random coordinates and every perfect matching π the library may have accepted (row r ↔ column π(r); the
    lookup by str(r) gives π(r), the lookup by a column c gives str(π⁻¹(c))).  The rows obtained must be exactly
    {(r or −1, π(r) or −1, D[r, π(r)]) : not (r ≥ M and π(r) ≥ N)}, each once.  Returns ok / refuted / unmodelled."""
    import itertools
    import random
    fi = run.fi
    rng = random.Random(61)
    n_tables = 0
    for (m, n) in ((1, 1), (1, 2), (2, 1), (2, 2), (1, 3), (3, 1), (2, 3), (3, 2)):
        perms = list(itertools.permutations(range(m + n)))
        if len(perms) > 24:
            perms = rng.sample(perms, 24)
        pt = symeval.Point(rng, nrows=3, sizes={("rows", run.a): m, ("rows", run.b): n})
        pt.eval_ranges = True
        pt.blocks = {D.uid: D}
        try:
            cells = {(r, c): symeval.eval_block_entry(D, r, c, pt) for r in range(m + n) for c in range(m + n)}
        except symeval.NotEvaluable as ex:
            rep.unmodelled("MT-TABLE", fi, node, f"cannot evaluate the cost matrix ({ex})")
            return "unmodelled"
        for pi in perms:
            inv = {c: r for r, c in enumerate(pi)}

            def fwd(p_, e_, pi=pi):
                k = int(round(symeval.ev(e_[2][-1], p_)))
                if not 0 <= k < len(pi):
                    raise symeval.NotEvaluable("matching looked up outside the rows of the matrix")
                return float(pi[k])

            def rev(p_, e_, inv=inv):
                k = int(round(symeval.ev(e_[2][-1], p_)))
                if k not in inv:
                    raise symeval.NotEvaluable("matching looked up outside the columns of the matrix")
                return float(inv[k])
            pt.opq_fn = {"hk_partner": fwd, "hk_owner": rev}
            pt.opq = {}
            got = []
            try:
                for part in parts:
                    (rsp, riv), (csp, civ) = part.axes
                    for k in symeval.space_rows(rsp.key, pt):
                        pt.ivs[riv] = k
                        row = []
                        for c_ in range(3):
                            pt.ivs[civ] = c_
                            row.append(symeval.ev(part.elem, pt))
                        got.append((int(round(row[0])), int(round(row[1])), row[2]))
            except symeval.NotEvaluable as ex:
                rep.unmodelled("MT-TABLE", fi, node, f"cannot evaluate the table ({ex})")
                return "unmodelled"
            want = [(r if r < m else -1, c if c < n else -1, cells[(r, c)]) for r, c in enumerate(pi) if not (r >= m and c >= n)]
            key_ = lambda t: (t[0], t[1], round(t[2], 9) if t[2] == t[2] and abs(t[2]) != float("inf") else str(t[2]))
            if sorted(map(key_, got)) != sorted(map(key_, want)):
                missing = sorted(set(map(key_, want)) - set(map(key_, got)))
                extra = sorted(set(map(key_, got)) - set(map(key_, want)))
                what = (f"the row {missing[0]} is missing" if missing else
                        f"the row {extra[0]} is listed although the matching has no such pair" if extra else
                        "a pair is listed more than once")
                rep.refuted("MT-TABLE", fi, node,
                            f"with {m} and {n} points and the accepted matching row→column {list(pi)}: {what} "
                            f"(table {sorted(map(key_, got))[:6]}, expected {sorted(map(key_, want))[:6]})"[:600],
                            construct=f"{fi.qualname}: matching table")
                return "refuted"
            n_tables += 1
    rep.discharged("MT-TABLE", fi, node, f"the table's derived expressions evaluated for {n_tables} (sizes × coordinates × accepted "
                                         f"perfect matchings): every point of either diagram appears in exactly one row, −1 marks the "
                                         f"diagonal, the cost is the matrix entry of the pair, diagonal–diagonal pairs are left out")
    return "ok"


def _bottleneck_table(rep, run: Run, D: Blocks):
    """the matching rows are built as a whole table (arange / where / column_stack / mask / vstack of parts) rather than
    appended one by one: the same per-row obligations are read off the element expression of every part, and the
    listing condition is the union of the parts' row domains"""
    from ..core.values import VStack
    fi = run.fi
    rev, mv = _matching_value(run)
    node = rev["node"] if rev else fi.node
    parts = list(mv.ordered) if isinstance(mv, VStack) else [mv]
    if not parts or not all(isinstance(p, Arr) and p.ndim == 2 and p.axes[1][0].concrete == 3 for p in parts):
        rep.unmodelled("MT-COST", fi, node, "no 3-entry row is appended to a matching list and the returned matching "
                                            f"is not an (n,3) table: {mv!r}"[:220])
        return
    M, N = sym.Size(("rows", run.a)), sym.Size(("rows", run.b))
    pos = "_row"
    conds = []
    raw_r = sym.IV(pos)
    raw_c = None
    # a table whose parts are not 'all M+N rows, each with its partner looked up by str(row)' is decided by evaluating it
    positional = True
    for part in parts:
        riv, cols, cond, parent = _array_rows(part)
        if not (isinstance(parent, tuple) and parent and parent[0] == "range" and sym.equal(parent[1], sym.add(M, N))):
            positional = False
        if len({x for c in cols + [cond] for x in sym.walk(c) if x[0] == "opq" and x[1] in ("hk_partner", "hk_owner")}) != 1 \
                or any(x[0] == "opq" and x[1] == "hk_owner" for c in cols + [cond] for x in sym.walk(c)):
            positional = False
    if not positional:
        st = _table_semantic(rep, run, D, parts, node)
        if st == "ok":
            for r_ in ("MT-COST", "MT-MINUS1", "MT-MINUS1", "MT-DROP", "MT-COVER", "MT-PROV"):
                rep.discharged(r_, fi, node, "decided for the whole table by MT-TABLE (evaluation of the derived table under every "
                                             "accepted matching)", nontrivial=False)
            TABLE_SEMANTIC.append(node)
        return
    for k, part in enumerate(parts):
        riv, cols, cond, parent = _array_rows(part)
        cols = [sym.subst_ivar(c, riv, (pos, 0)) for c in cols]
        cond = sym.subst_ivar(cond, riv, (pos, 0))
        if not (isinstance(parent, tuple) and parent and parent[0] == "range"):
            rep.unmodelled("MT-COVER", fi, node, f"the table's rows range over {parent}, not over positions of the matrix"[:200])
            return
        if not sym.equal(parent[1], sym.add(M, N)):
            rep.refuted("MT-COVER", fi, node, f"the table ranges over {sym.show(parent[1])[:80]} rows instead of M+N: "
                                              f"some points never appear in the matching")
            return
        partners = {x for c in cols + [cond] for x in sym.walk(c) if x[0] == "opq" and x[1] == "hk_partner"}
        if len(partners) != 1:
            rep.unmodelled("MT-COST", fi, node, f"expected one partner lookup in the accepted matching per row, found "
                                                f"{len(partners)}")
            return
        rc = next(iter(partners))
        if raw_c is not None and rc != raw_c:
            rep.unmodelled("MT-PROV", fi, node, "the parts of the table look partners up in different ways")
            return
        raw_c = rc
        if k == 0 and not _partner_key_ok(rep, fi, node, raw_c, raw_r):
            return
        conds.append(cond)
        check_rows(rep, run, D, cols, cond, raw_r, raw_c, node,
                   "bottleneck matching table row" + (f" (part {k + 1} of {len(parts)})" if len(parts) > 1 else ""),
                   drop=len(parts) == 1)
    rep.discharged("MT-COVER", fi, node, "the table is drawn from all M+N rows of the matrix (before rows are selected)")
    if len(parts) > 1:
        _parts_union(rep, fi, node, conds, raw_r, raw_c, M, N)


def _parts_union(rep, fi, node, conds, raw_r, raw_c, M, N):
    """the parts of a table (or the append sites of a listing loop) together list every row that is not a diagonal–diagonal
    pair, each once"""
    parts = conds
    if len(parts) > 1:
        spec_cond = sym.Not(sym.And(sym.Cmp(">=", raw_r, M), sym.Cmp(">=", raw_c, N)))
        dom = sym.And(sym.Cmp(">=", raw_r, sym.ZERO), sym.Cmp("<", raw_r, sym.add(M, N)))  # positions of the matrix
        union = sym.And(dom, sym.Or(*conds))
        spec_cond = sym.And(dom, spec_cond)
        ok, w = symeval.equivalent(union, spec_cond, trials=300, nrows=3)
        if ok is True:
            twice = None
            for a in range(len(conds)):
                for b in range(a + 1, len(conds)):
                    ok2, w2 = symeval.equivalent(sym.And(dom, conds[a], conds[b]), sym.FALSE, trials=300, nrows=3)
                    if ok2 is False:
                        twice = (a, b, w2)
                    elif ok2 is None:
                        rep.unmodelled("MT-DROP", fi, node, f"cannot evaluate the overlap of parts {a + 1} and {b + 1} ({w2})")
                        return
            if twice:
                rep.refuted("MT-DROP", fi, node, f"parts {twice[0] + 1} and {twice[1] + 1} of the table both list the same "
                                                 f"row of the matrix; witness {twice[2]}")
            else:
                rep.discharged("MT-DROP", fi, node, "the parts of the table together list every row that is not a "
                                                    "diagonal–diagonal pair, each once", derived=sym.show(union)[:200])
        elif ok is False:
            rep.refuted("MT-DROP", fi, node, f"the parts of the table together list the rows with {sym.show(union)[:200]} "
                                             f"instead of 'not (row ≥ M and col ≥ N)': a point is missing from the matching "
                                             f"or a diagonal–diagonal pair is listed; witness {w}")
        else:
            rep.unmodelled("MT-DROP", fi, node, f"cannot evaluate the listing condition ({w})")



def check_wasserstein(rep, project):
    _check_wasserstein(rep, project, "finite")
    # the same obligations where the diagrams the matrix is built from are not the diagrams handed in: points with infinite
    # death were dropped / an empty diagram was replaced by the diagonal point.  The -1 marks and the rows left out must then
    # follow the sizes of the FILTERED diagrams (the extents of the cross block), not the sizes that came in.
    from ..core.report import Report
    for kind in ("dropped", "empty1", "empty2"):
        pre = Report("C06-" + kind)
        try:
            _check_wasserstein(pre, project, kind)
        except (AnalysisError, KeyError, IndexError, TypeError, AttributeError):
            continue
        for r in pre.refutations:
            if r["rule"] in ("MT-MINUS1", "MT-DROP", "MT-COST"):
                rep.refuted(r["rule"], project.function(WS), project.function(WS).node, f"[{_KIND_TEXT[kind]}] " + r["reason"],
                            construct=r["construct"] + f" [{kind}]")
        if not pre.refutations and not pre.errors:
            rep.discharged("MT-MINUS1", pre_fi(project), None, f"[{_KIND_TEXT[kind]}] the matching table is indexed by the sizes of the "
                                                                f"filtered diagrams", nontrivial=False)


_KIND_TEXT = {"dropped": "points with infinite death present in both diagrams", "empty1": "first diagram empty",
              "empty2": "second diagram empty"}


def pre_fi(project):
    return project.function(WS)


def _check_wasserstein(rep, project, kind):
    run = Run(project, WS, matching="sym", kind=kind)
    fi = run.fi
    rep.analysed(fi)
    D = run.cost_matrix()
    if kind == "finite":
        check_nonint(rep, run)
    sizes = None
    if kind != "finite":
        from .distances import block_roles
        cross = block_roles(run, D).get("cross") or []
        if len(cross) != 1:
            raise AnalysisError("cross block not found")
        sizes = (sym.sub(cross[0]["r1"], cross[0]["r0"]), sym.sub(cross[0]["c1"], cross[0]["c0"]))
    rev, mv = _matching_value(run)
    if not isinstance(mv, Arr) or mv.ndim != 2 or mv.axes[1][0].concrete != 3:
        rep.unmodelled("MT-COST", fi, rev["node"] if rev else fi.node, f"returned matching is not an (n,3) array: {mv!r}"[:200])
        return
    riv, cols, cond, parent = _array_rows(mv)
    lsa = run.events("linear_sum_assignment")
    if len(lsa) != 1:
        rep.unmodelled("MT-COVER", fi, fi.node, "solver call not found")
        return
    uid = lsa[0]["uid"]
    dep = None
    for x in sym.walk(cols[2]):
        if x[0] == "opq" and x[1] == "lsa_rows" and x[3] == uid:
            dep = x[2][0]
    if dep is None:
        for x in sym.walk(mv.elem):
            if x[0] == "opq" and x[1] in ("lsa_rows", "lsa_cols") and x[3] == uid:
                dep = x[2][0]
    if dep is None:
        if run.interp.clean_before(rev):
            rep.refuted("MT-PROV", fi, rev["node"], "the returned matching does not derive from the solver's index arrays")
        else:
            rep.unmodelled("MT-PROV", fi, rev["node"], "how the returned matching derives from the solver's index arrays was not "
                                                       "followed (a step of the run was not modelled)")
        return
    raw_r = sym.Opq("lsa_rows", (dep, sym.IV(riv)), uid)
    raw_c = sym.Opq("lsa_cols", (dep, sym.IV(riv)), uid)
    total = sym.add(sym.Size(("rows", run.a)), sym.Size(("rows", run.b))) if sizes is None else sym.add(sizes[0], sizes[1])
    psize = sym.Size(parent) if not (isinstance(parent, tuple) and parent and parent[0] == "range") else parent[1]
    if isinstance(parent, tuple) and parent and parent[0] == "range" and sym.equal(parent[1], total):
        rep.discharged("MT-COVER", fi, rev["node"], "rows range over all M+N pairs returned by the solver")
    else:
        rep.refuted("MT-COVER", fi, rev["node"], f"rows range over {parent} instead of the solver's M+N pairs")
    check_rows(rep, run, D, cols, cond, raw_r, raw_c, rev["node"], "Wasserstein matching row", sizes=sizes)


# ---------------------------------------------------------------------------------------------------------------------------
# MT-ACCEPT: the matching that is reported was found at the distance that is reported (pairing of two updates)
def _guards(w, stmt):
    """the chain of (test, arm) of the `if`s of the loop `w` that enclose `stmt`, and the statement list that holds it"""
    def rec(body, chain):
        for st in body:
            if st is stmt:
                return chain, body
            if isinstance(st, ast.If):
                for arm, b in (("then", st.body), ("else", st.orelse)):
                    r = rec(b, chain + ((ast.dump(st.test), arm),))
                    if r is not None:
                        return r
            elif isinstance(st, (ast.For, ast.While, ast.With, ast.Try)):
                for b in [getattr(st, f, []) for f in ("body", "orelse", "finalbody")]:
                    r = rec(b, chain + (("<" + type(st).__name__ + ">", ""),))
                    if r is not None:
                        return r
        return None
    return rec(w.body, ())


def _pick_kind(e, holder):
    """how an expression takes one recorded matching out of the container `holder`: 'last' | 'first' | None"""
    txt = ast.unparse(e).replace(" ", "")
    h = holder
    last = (f"{h}[-1]", f"next(reversed({h}.values()))", f"next(reversed({h}.values()),", f"next(reversed({h}))",
            f"next(reversed({h}),", f"list({h}.values())[-1]", f"{h}.popitem()[1]", f"{h}.pop()", f"{h}[max({h})]",
            f"[*{h}.values()][-1]", f"{h}[len({h})-1]", f"tuple({h}.values())[-1]")
    first = (f"{h}[0]", f"next(iter({h}.values()))", f"next(iter({h}.values()),", f"next(iter({h}))", f"next(iter({h}),",
             f"list({h}.values())[0]", f"{h}.pop(0)", f"{h}.popleft()", f"[*{h}.values()][0]", f"tuple({h}.values())[0]")
    for pat in last:
        if txt == pat or (pat.endswith(",") and txt.startswith(pat)):
            return "last"
    for pat in first:
        if txt == pat or (pat.endswith(",") and txt.startswith(pat)):
            return "first"
    return None


def check_labels(rep, project):
    """MT-LABELS — the rows of the thresholded matrix are handed to the matching library under TEXT labels ("0", "1", …, "10");
    whatever reads the matching back must go through the numbers.  A plain `sorted(...)` / `.sort()` of those labels orders
    them as text ("10" < "2"), so a list built from it no longer lines up with `range(n)` once there are more than ten rows.
    Reported when such a sort (no `key=`) reaches the matching that is returned."""
    from .common import fn_view
    fi = project.function(BN)
    f = fn_view(project, fi)
    # names that hold text labels: dictionary keys written as "{}".format(i) / str(i) / f"{i}", names filtered by isinstance(v, str)
    def is_label_expr(e):
        return (isinstance(e, ast.Call) and isinstance(e.func, ast.Attribute) and e.func.attr == "format" and isinstance(e.func.value, ast.Constant)
                and isinstance(e.func.value.value, str)) or (isinstance(e, ast.Call) and isinstance(e.func, ast.Name) and e.func.id == "str") \
            or isinstance(e, ast.JoinedStr)
    labelled = {t.value.id for n in ast.walk(f) if isinstance(n, ast.Assign) for t in n.targets
                if isinstance(t, ast.Subscript) and isinstance(t.value, ast.Name) and is_label_expr(t.slice)}
    labelled |= {n.target.id for n in ast.walk(f) if isinstance(n, ast.DictComp) and False}
    for n in ast.walk(f):
        if isinstance(n, ast.Assign) and isinstance(n.value, ast.DictComp) and is_label_expr(n.value.key):
            labelled |= {t.id for t in n.targets if isinstance(t, ast.Name)}
    if not labelled:
        return
    relevant = {x.id for r_ in ast.walk(f) if isinstance(r_, ast.Return) and r_.value is not None
                for x in ast.walk(r_.value) if isinstance(x, ast.Name)}
    grew = True
    while grew:
        grew = False
        for st_ in ast.walk(f):
            if isinstance(st_, ast.Assign):
                tg = {x.id for t_ in st_.targets for x in ast.walk(t_) if isinstance(x, ast.Name)}
                if tg & relevant:
                    new_ = {x.id for x in ast.walk(st_.value) if isinstance(x, ast.Name)}
                    if not new_ <= relevant:
                        relevant |= new_
                        grew = True
    n_sorts = 0
    for n in ast.walk(f):
        if not isinstance(n, ast.Assign) or len(n.targets) != 1 or not isinstance(n.targets[0], ast.Name):
            continue
        c = n.value
        if not (isinstance(c, ast.Call) and isinstance(c.func, ast.Name) and c.func.id == "sorted" and c.args):
            continue
        src = c.args[0]
        over = {x.id for x in ast.walk(src) if isinstance(x, ast.Name)}
        textual = bool(over & labelled) and not any(isinstance(x, ast.Call) and isinstance(x.func, ast.Name) and x.func.id == "int"
                                                    for x in ast.walk(src))
        if not textual:
            continue
        n_sorts += 1
        has_key = any(k.arg == "key" for k in c.keywords)
        nm_ = n.targets[0].id
        # rows read back from the labels themselves (`int(v)` for the same v) stay paired with their columns in any order
        consistent = False
        for x in ast.walk(f):
            gens = x.generators if isinstance(x, (ast.ListComp, ast.GeneratorExp, ast.SetComp, ast.DictComp)) else (
                [x] if isinstance(x, ast.For) else [])
            for g in gens:
                it_ = g.iter
                if isinstance(it_, ast.Name) and it_.id == nm_ and isinstance(g.target, ast.Name):
                    scope = x if not isinstance(x, ast.For) else ast.Module(body=x.body, type_ignores=[])
                    if any(isinstance(y, ast.Call) and isinstance(y.func, ast.Name) and y.func.id == "int" and y.args
                           and isinstance(y.args[0], ast.Name) and y.args[0].id == g.target.id for y in ast.walk(scope)):
                        consistent = True
        if has_key:
            rep.discharged("MT-LABELS", fi, n, "the text labels of the rows are sorted with a key", nontrivial=False)
        elif consistent:
            rep.discharged("MT-LABELS", fi, n, "the rows are read back from the sorted labels themselves (int(label)): the order of "
                                               "the labels does not matter", nontrivial=False)
        elif n.targets[0].id in relevant:
            rep.refuted("MT-LABELS", fi, n,
                        f"`{ast.unparse(n)[:80]}` orders the text labels of the rows as text (\"10\" < \"2\") and the matching that is "
                        f"returned is read off in that order: from eleven rows on, the columns are paired with the wrong rows and the "
                        f"costs listed are not those of the matching found",
                        construct=f"{BN}: lexicographic order of the row labels")
        else:
            rep.discharged("MT-LABELS", fi, n, "a sort of the row labels that does not reach the returned matching", nontrivial=False)
    if not n_sorts:
        rep.discharged("MT-LABELS", fi, fi.node, "the text labels of the rows are never sorted as text", nontrivial=False)


def check_accept(rep, project):
    from .c01 import _while_of
    from .common import fn_view
    fi = project.function(BN)
    view = fn_view(project, fi)
    w = _while_of(fi, view)
    # the name of the reported distance: the first component of what the function returns
    dist = set()
    for n in ast.walk(view):
        if isinstance(n, ast.Return) and n.value is not None:
            v = n.value.elts[0] if isinstance(n.value, ast.Tuple) and n.value.elts else n.value
            if isinstance(v, ast.Name):
                dist.add(v.id)
    if len(dist) != 1:
        rep.unmodelled("MT-ACCEPT", fi, w, "the returned distance is not one local name")
        return
    dist = next(iter(dist))
    # names that hold the result of the matching library for the current probe
    res = set()
    inside = {id(x) for x in ast.walk(w)}
    outside = {x.id for x in ast.walk(view) if isinstance(x, ast.Name) and id(x) not in inside}   # names the loop shares
    def _matching_helper(c) -> bool:
        """a call of a helper of the package that hands back the library's matching for one probe, or None when it is not
        perfect: every `return` gives None or a name bound to `....maximum_matching()`"""
        if not isinstance(c, ast.Call):
            return False
        g = project.functions.get(project.resolve(fi.module, c.func, ()) or "")
        if g is None or not isinstance(g.node, (ast.FunctionDef, ast.AsyncFunctionDef)):
            return False
        mm = {t.id for a in ast.walk(g.node) if isinstance(a, ast.Assign) and any(
            isinstance(x, ast.Call) and isinstance(x.func, ast.Attribute) and x.func.attr == "maximum_matching" for x in ast.walk(a.value))
            for t in a.targets if isinstance(t, ast.Name)}
        rets = [r for r in ast.walk(g.node) if isinstance(r, ast.Return)]
        vals = [r.value for r in rets]
        return bool(mm) and any(isinstance(v, ast.Name) and v.id in mm for v in vals) and all(
            v is None or (isinstance(v, ast.Constant) and v.value is None) or (isinstance(v, ast.Name) and v.id in mm) for v in vals)
    for st in w.body:
        for n in ast.walk(st):
            if isinstance(n, ast.Assign) and len(n.targets) == 1 and isinstance(n.targets[0], ast.Name):
                if any(isinstance(c, ast.Call) and isinstance(c.func, ast.Attribute) and c.func.attr == "maximum_matching"
                       for c in ast.walk(n.value)) or _matching_helper(n.value) or (
                        isinstance(n.value, (ast.Name, ast.IfExp)) and any(isinstance(x, ast.Name) and x.id in res for x in (
                            [n.value] if isinstance(n.value, ast.Name) else [n.value.body, n.value.orelse]))
                        and n.targets[0].id not in outside):
                    res.add(n.targets[0].id)
    if not res:
        rep.unmodelled("MT-ACCEPT", fi, w, "no name in the search loop holds the matching found for the current probe")
        return
    updates = [n for n in ast.walk(w) if isinstance(n, ast.Assign) and any(isinstance(t, ast.Name) and t.id == dist for t in n.targets)]
    if not updates:
        rep.unmodelled("MT-ACCEPT", fi, w, f"`{dist}` is not updated inside the search loop")
        return
    # records of the probe's matching: holder = res / holder[k] = res / holder.append(res)
    records = []
    for n in ast.walk(w):
        if isinstance(n, ast.Assign) and isinstance(n.value, ast.Name) and n.value.id in res and len(n.targets) == 1:
            t = n.targets[0]
            if isinstance(t, ast.Name) and t.id not in res:
                records.append((n, t.id, "name"))
            elif isinstance(t, ast.Subscript) and isinstance(t.value, ast.Name):
                records.append((n, t.value.id, "const-key" if isinstance(t.slice, ast.Constant) else "keyed"))
        elif isinstance(n, ast.Expr) and isinstance(n.value, ast.Call) and isinstance(n.value.func, ast.Attribute) \
                and n.value.func.attr in ("append", "appendleft", "insert") and isinstance(n.value.func.value, ast.Name) \
                and n.value.args and isinstance(n.value.args[-1], ast.Name) and n.value.args[-1].id in res:
            records.append((n, n.value.func.value.id, n.value.func.attr))
    if not records:
        rep.unmodelled("MT-ACCEPT", fi, w, "how the search loop keeps the matching of a feasible probe was not recognised")
        return
    holders = {h for _, h, _ in records}
    if len(holders) != 1:
        rep.unmodelled("MT-ACCEPT", fi, w, f"the probe's matching is kept in several places ({sorted(holders)})")
        return
    holder = next(iter(holders))
    kinds = {k for _, _, k in records}
    ok = True
    G = {id(n): _guards(w, n) for n in updates + [r[0] for r in records]}

    def together(x, y):
        return G[id(x)][1] is G[id(y)][1] or G[id(x)][0] == G[id(y)][0]

    for r in records:
        if any(together(r[0], u) for u in updates):
            continue
        ok = False
        gr = G[id(r[0])][0]
        tighter = [u for u in updates if len(G[id(u)][0]) > len(gr) and G[id(u)][0][:len(gr)] == gr]
        if tighter and kinds <= {"name", "const-key"}:
            rep.refuted("MT-ACCEPT", fi, r[0], f"`{holder}` takes the matching of every probe that reaches this statement, "
                                               f"`{dist}` only the value of the probes that pass the further test at line "
                                               f"{tighter[0].lineno}: after a probe that fails that test the reported matching is "
                                               f"not the one found at the reported distance")
        else:
            rep.unmodelled("MT-ACCEPT", fi, r[0], f"`{holder}` is updated where `{dist}` is not")
        break
    if ok:
        for u in updates:
            if not any(together(r[0], u) for r in records):
                ok = False
                rep.unmodelled("MT-ACCEPT", fi, u, f"`{dist}` is updated where `{holder}` is not")
                break
    if not ok:
        return
    others = [n for n in ast.walk(w) if isinstance(n, (ast.Assign, ast.AugAssign, ast.Delete)) and n not in [r[0] for r in records]
              and any(isinstance(x, ast.Name) and x.id == holder and isinstance(x.ctx, (ast.Store, ast.Del))
                      for t in (n.targets if isinstance(n, (ast.Assign, ast.Delete)) else [n.target]) for x in ast.walk(t))]
    if others:
        rep.unmodelled("MT-ACCEPT", fi, others[0], f"`{holder}` is also written elsewhere in the search loop")
        return
    if kinds <= {"name", "const-key"}:
        rep.discharged("MT-ACCEPT", fi, records[0][0], f"`{holder}` and `{dist}` are replaced together, under the same test: the "
                                                       f"matching kept is the one found at the distance kept")
        return
    # a growing container: which entry is read after the loop
    leaves = any(isinstance(x, (ast.Break, ast.Return)) for r in records for x in _guards(w, r[0])[1])
    picks = []
    after = False
    for n in ast.walk(view):
        if n is w:
            after = True
    for n in ast.walk(view):
        if isinstance(n, (ast.Subscript, ast.Call)) and getattr(n, "lineno", 0) > w.end_lineno:
            k = _pick_kind(n, holder)
            if k:
                picks.append((n, k))
    if not picks:
        rep.unmodelled("MT-ACCEPT", fi, w, f"which of the matchings kept in `{holder}` is reported was not recognised")
        return
    front = "appendleft" in kinds or "insert" in kinds
    if front and kinds - {"appendleft", "insert"}:
        rep.unmodelled("MT-ACCEPT", fi, w, f"`{holder}` grows at both ends")
        return
    if "insert" in kinds and not all(isinstance(r[0].value.args[0], ast.Constant) and r[0].value.args[0].value == 0
                                     for r in records if r[2] == "insert"):
        rep.unmodelled("MT-ACCEPT", fi, w, f"`{holder}` grows in the middle")
        return
    for n, k in picks:
        newest = (k == "first") if front else (k == "last")
        if newest:
            rep.discharged("MT-ACCEPT", fi, n, f"the matching reported is the one `{holder}` received last, together with the last "
                                               f"update of `{dist}`")
        elif leaves:
            rep.unmodelled("MT-ACCEPT", fi, n, f"the oldest entry of `{holder}` is reported and the loop may stop after the first one")
        else:
            rep.refuted("MT-ACCEPT", fi, n, f"`{dist}` keeps the value of the last feasible probe but the matching reported is the "
                                            f"one `{holder}` received first: with two feasible probes the matching belongs to a "
                                            f"larger distance than the one reported")


def _rename_iv(c, riv):
    """the mask was built on the row axis of the array at masking time: rename that position variable only"""
    out = c
    for x in sym.walk(c):
        if x[0] == "opq" and x[1] in ("lsa_rows", "lsa_cols", "hk_partner"):
            for d in x[2]:
                if isinstance(d, sym.Expr) and d[0] == "iv" and d[1] != riv:
                    out = sym.subst_ivar(out, d[1], (riv, 0))
    return out


def run(project: Project, rep, tier: str):
    rep.explain(
        "C06 (clauses decided, not 'max/sum of the row costs equals the distance', which needs solver optimality): both "
        "functions are evaluated symbolically with the `matching` flag left symbolic, so both return paths are derived in "
        "one run. MT-NONINT: the distance component of every return is the same expression and is free of the flag. "
        "MT-COST: the third entry of a row is an entry of the very matrix that decided the distance, read at the raw "
        "indices (loop position / partner in the accepted matching / solver index arrays), not at re-indexed -1 values. "
        "MT-MINUS1 / MT-DROP: the derived index expressions are compared with the specification (-1 iff raw row ≥ M, "
        "raw column ≥ N; a row is listed iff not both) by identity testing of the derived expressions over small index "
        "ranges. MT-COVER: every row of the matrix / every solver pair is listed.")
    rep.assume("the accepted Hopcroft-Karp matching maps str(row) to a column index; linear_sum_assignment returns index "
               "arrays of equal length; exact arithmetic")
    check_bottleneck(rep, project)
    check_accept(rep, project)
    check_labels(rep, project)
    check_wasserstein(rep, project)
    for r, n in (("MT-NONINT", 2), ("MT-COST", 2), ("MT-MINUS1", 4), ("MT-DROP", 2), ("MT-COVER", 2), ("MT-PROV", 1), ("MT-GRAPH", 1), ("MT-ACCEPT", 1)):
        rep.floor(r, n)
    for t in ("hopcroftkarp.HopcroftKarp.maximum_matching", "scipy.optimize.linear_sum_assignment", "numpy.zeros",
              "numpy.array"):
        rep.trust(t)
