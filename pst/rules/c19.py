"""C19 — public API is pure, repeatable, representation-independent.

Decided (clauses): PU-ARGS (no public entry point writes through an argument, inter-procedurally),
PU-CAPT (no method mutates in place an object reachable from self — constructors capture their
arguments by reference), PU-STATE (no store to module/class state, no mutation of module-level
objects or mutable defaults), PU-RNG / PU-PLT (who-may-call for generators and pyplot global state),
PU-DTYPE (stores into caller-typed copies are integer-closed).
Declined: bit-identical repeatability of floating results.
"""
from __future__ import annotations

import ast
import os

from ..core.loader import AnalysisError, Project
from ..core.own import Event, Origin
from .common import own_analysis, public_entry_points, local_names, stmts_in_order

RNG_PREFIXES = ("numpy.random.", "random.", "os.urandom", "secrets.", "time.time", "time.perf_counter",
                "time.monotonic", "uuid.", "numpy.random")
RNG_LEGACY_GLOBAL = {"numpy.random.permutation", "numpy.random.choice", "numpy.random.rand", "numpy.random.randn",
                     "numpy.random.randint", "numpy.random.random", "numpy.random.shuffle", "numpy.random.uniform",
                     "numpy.random.normal", "numpy.random.random_sample", "numpy.random.sample"}
RNG_ALLOWED_FUNCS = {"persim.gromov_hausdorff.find_ub_of_min_distortion", "persim.gromov_hausdorff.construct_mapping"}
PLT_ALLOWED_MODULES = {"persim.visuals", "persim.landscapes.visuals"}


def _used_as_array(project, funcq, name) -> bool:
    fi = project.functions.get(funcq)
    if fi is None:
        return True
    for n in ast.walk(fi.node):
        if isinstance(n, ast.Subscript) and isinstance(n.value, ast.Name) and n.value.id == name:
            return True
        if isinstance(n, ast.Attribute) and isinstance(n.value, ast.Name) and n.value.id == name \
                and n.attr in ("shape", "size", "dtype", "T", "ndim", "astype", "dot", "flatten"):
            return True
    return False


def _used_as_scalar(project, funcq, name) -> bool:
    """the name is the operand of a comparison that is itself an `if` / `while` test (arrays cannot be truth-tested)"""
    fi = project.functions.get(funcq)
    if fi is None:
        return False
    for n in ast.walk(fi.node):
        if isinstance(n, (ast.If, ast.While)):
            t = n.test
            while isinstance(t, ast.UnaryOp) and isinstance(t.op, ast.Not):
                t = t.operand
            if isinstance(t, ast.Compare) and any(isinstance(x, ast.Name) and x.id == name for x in [t.left] + t.comparators):
                return True
    return False


def _chain_text(ev: Event) -> str:
    return " -> ".join(ev.chain) if ev.chain else ""


def check_pu_args(project: Project, oa, rep, entry_points, rule="PU-ARGS"):
    n_flag = 0
    for fi in entry_points:
        s = oa.summary(fi.qualname)
        rep.analysed(fi)
        params = fi.params
        self_name = params[0] if (fi.cls is not None and fi.kind in ("method", "property", "setter") and params) else None
        bad = {}
        for ev in s.events:
            if ev.kind != "write" or not ev.origin.is_arg:
                continue
            p = ev.origin.param
            if p == self_name:
                continue
            if ev.needs_nd and isinstance(getattr(ev.node, "target", None), ast.Name):
                # `name op= value` on a value of unknown kind (a parameter, or an element obtained by iterating one):
                # in place only if it is an array; for a scalar the statement merely rebinds the local name. Arrays are
                # recognised by how the name is used (subscripted, .shape, ...); a name that is truth-tested through a
                # bare comparison (`while n > 0`) is a scalar
                owner = ev.func
                tname = ev.node.target.id
                if not _used_as_array(project, owner, tname) or _used_as_scalar(project, owner, tname):
                    continue
            bad.setdefault(p, []).append(ev)
        for p in params:
            if p == self_name:
                continue
            if p in bad:
                for ev in bad[p]:
                    owner = project.functions.get(ev.func)
                    via = _chain_text(ev)
                    rep.refuted(rule, owner or fi, ev.node,
                                f"public entry point {fi.qualname} modifies what its caller passed as `{p}` "
                                f"({ev.how} on {ev.origin})" + (f" via {via}" if via else ""),
                                construct=f"{fi.qualname}({p}): {ast.unparse(ev.node)}")
                    n_flag += 1
            else:
                has_effects = any(isinstance(n, (ast.Subscript, ast.AugAssign, ast.Call)) for n in ast.walk(fi.node))
                rep.discharged(rule, fi, fi.node,
                               f"no write event reaches an object rooted at parameter `{p}` on any path "
                               f"(inter-procedural, {len(s.repo_calls)} repo call sites followed)",
                               nontrivial=has_effects)
    return n_flag


def _own_state(project, oa, fi, origin):
    """why the object at `self.<attr>` can only be one the instance made itself: every store to that attribute, in every
    method of the class hierarchy, puts a freshly built object there (and nothing outside the class stores to it)"""
    if len(origin.path) != 1 or not origin.path[0].startswith("."):
        return None
    attr = origin.path[0][1:]
    ci = fi.cls
    family = {ci.qualname}
    for c in project.classes.values():
        names = {k.qualname for k in c.mro(project)}
        if ci.qualname in names or (names & {k.qualname for k in ci.mro(project)} - {"builtins.object"}):
            family.add(c.qualname)
    stores = 0
    for q, g in project.functions.items():
        s = oa.summary(q) if g.parent is None else None
        if s is None:
            continue
        inside = g.cls is not None and g.cls.qualname in family
        if inside and g.params and g.kind != "staticmethod":
            av = s.captures.get((Origin("arg:" + g.params[0]), attr))
            if av is not None:
                stores += 1
                seen_ = set()

                def fresh_(a):
                    if a is None:
                        return True
                    if id(a) in seen_:
                        return True
                    seen_.add(id(a))
                    return all(o.root.startswith("obj:") for o in a.is_) and fresh_(a.elem) and all(fresh_(x) for x in a.items)
                if not fresh_(av):
                    return None
        if not inside:
            for ev in s.events:
                if ev.kind == "attrstore" and ev.attr == attr and ev.func == q:
                    return None   # somebody else puts objects into an attribute of that name
    if not stores:
        return None
    return f"every one of the {stores} stores to `.{attr}` in the class puts a freshly built object there — the instance's own state"


def check_pu_capt(project: Project, oa, rep, rule="PU-CAPT"):
    n_flag = 0
    n = 0
    for q, fi in sorted(project.functions.items()):
        if fi.cls is None or fi.parent is not None:
            continue
        s = oa.summary(q)
        params = fi.params
        if not params or fi.kind == "staticmethod":
            continue
        self_name = params[0]
        evs = [ev for ev in s.events if ev.kind == "write" and ev.origin.is_arg and ev.origin.param == self_name
               and ev.origin.path]
        cls_name = fi.qualname.rsplit(".", 2)[-2]
        if evs and cls_name.startswith("_"):
            # a private helper class lives inside one public call: what its attributes may alias is followed from the
            # construction site by the inter-procedural analysis, and a write that reaches caller data is reported at the
            # public entry point (PU-ARGS)
            n += 1
            rep.discharged(rule, fi, fi.node, f"private helper class {cls_name}: in-place updates of its own attributes are "
                                              "followed from the construction site (PU-ARGS decides whether caller data is "
                                              "reached)", nontrivial=True)
        elif evs:
            for ev in evs:
                owner = project.functions.get(ev.func)
                own_why = _own_state(project, oa, fi, ev.origin)
                if own_why:
                    # the object written is one the instance built for itself (a counter, a running extent, a scratch
                    # list): no caller data is reached.  Whether such state may influence a result is decided by the
                    # transformer rules (TF-HIST / TF-RO) and ST-CACHE, not here.
                    n += 1
                    rep.discharged(rule, owner or fi, ev.node, f"in-place update of {ev.origin}: {own_why}", nontrivial=True)
                    continue
                rep.refuted(rule, owner or fi, ev.node,
                            f"{fi.qualname} mutates in place an object reachable from self ({ev.origin}); "
                            f"constructors keep references to the caller's arrays/lists, so this alters caller data "
                            f"or shared operands",
                            construct=f"{fi.qualname}: {ast.unparse(ev.node)}")
                n_flag += 1
        else:
            n += 1
            rep.discharged(rule, fi, fi.node, "no in-place write on any object reachable from self",
                           nontrivial=bool(s.events or s.repo_calls))
    return n_flag


_MEMO: dict = {}


def _memo_verdict(project: Project, rep, dotted: str):
    """classify the module-level name once per run; report under PU-CACHE; None when it is not a memo pattern"""
    key = (id(project), id(rep), dotted)
    if key in _MEMO:
        return _MEMO[key]
    modname, _, gname = dotted.rpartition(".")
    from . import memo_rule
    try:
        r = memo_rule.classify(project, modname, gname)
    except Exception as ex:   # a shape of cache this reader does not know: not a memo as far as it can tell
        r = None
    if r is None:
        _MEMO[key] = None
        return None
    if r["verdict"] == "ok":
        rep.discharged("PU-CACHE", r["fi"], r["node"], r["why"])
    elif r["verdict"] == "refuted":
        rep.refuted("PU-CACHE", r["fi"], r["node"], r["why"] + " — results depend on the calls made before",
                    construct=f"{r['fi'].qualname}: cache {gname}")
    else:
        rep.unmodelled("PU-CACHE", r["fi"], r["node"], f"module-level cache `{gname}`: {r['why']}")
    _MEMO[key] = r["verdict"]
    return r["verdict"]


def check_pu_state(project: Project, oa, rep, rule="PU-STATE"):
    n_flag = 0
    mutable_objects = set()
    for q, fi in sorted(project.functions.items()):
        if fi.parent is not None or not isinstance(fi.node, (ast.FunctionDef, ast.AsyncFunctionDef)):
            continue
        s = oa.summary(q)
        # enumerate mutable defaults
        a = fi.node.args
        ps = a.posonlyargs + a.args
        ds = [None] * (len(ps) - len(a.defaults)) + list(a.defaults)
        for p_, d in list(zip(ps, ds)) + list(zip(a.kwonlyargs, a.kw_defaults)):
            if d is not None and isinstance(d, (ast.List, ast.Dict, ast.Set, ast.Call, ast.Name)):
                from ..core.own import FunctionAnalysis
                if FunctionAnalysis(oa, fi)._mutable_literal(d):
                    mutable_objects.add(f"default {q}({p_.arg}={ast.unparse(d)})")
        for ev in s.events:
            if ev.func != q:
                continue  # reported where the construct is
            root = getattr(ev.origin, "root", str(ev.origin))
            if ev.kind in ("globalstore", "write") and str(root).startswith("global:"):
                # a cache that is rebuilt whenever it does not fit the arguments is decided by what it is keyed on (PU-CACHE)
                verdict = _memo_verdict(project, rep, str(root)[len("global:"):].split(".<")[0])
                if verdict is not None:
                    n_flag += verdict == "refuted"
                    continue
            if ev.kind == "globalstore":
                rep.refuted(rule, fi, ev.node, f"{ev.how}: hidden state shared between calls ({ev.origin})")
                n_flag += 1
            elif ev.kind == "write" and (ev.origin.root.startswith("global:") or ev.origin.root.startswith("default:")):
                rep.refuted(rule, fi, ev.node,
                            f"in-place mutation of a module-level object or mutable default ({ev.origin}, {ev.how}): "
                            f"state leaks into later calls")
                n_flag += 1
    for m in project.modules.values():
        for name, val in m.globals.items():
            if isinstance(val, (ast.List, ast.Dict, ast.Set)) and name != "__all__":
                mutable_objects.add(f"global {m.name}.{name}")
            elif isinstance(val, ast.Call):
                t = project.resolve(m, val.func)
                if t and t.startswith("numpy."):
                    mutable_objects.add(f"global {m.name}.{name}")
    for mo in sorted(mutable_objects):
        rep.discharged(rule, mo.split(" ")[1].split("(")[0], None,
                       f"{mo}: never the target of a write event in any function", nontrivial=True)
    return n_flag, mutable_objects


REPORT_CALLS = ("debug", "info", "warning", "error", "log", "print", "warn", "verboseprint", "exception", "critical")


def _callee_of(project, fi, call):
    """the repository function a call reaches (a plain name, a module attribute or a method of `self`), or None"""
    fn = call.func
    if isinstance(fn, ast.Attribute) and isinstance(fn.value, ast.Name) and fn.value.id in ("self", "cls") and fi.cls is not None:
        c = project.classes.get(fi.cls) if isinstance(fi.cls, str) else fi.cls
        m = c.lookup(fn.attr, project) if c is not None else None
        return (m, 1) if m is not None else (None, 0)
    tgt = project.resolve(fi.module, fn)
    if tgt is not None:
        g = project.functions.get(project.canonical(tgt))
        if g is not None:
            return g, (1 if g.kind == "method" else 0)
    return None, 0


def _clock_only_reported(fi, call, project=None, depth=0, starts=None) -> bool:
    """every value derived from this clock reading (through plain assignments, arithmetic, a conditional expression and
    parameters of repository helpers) ends in the arguments of a logging / print / warnings call — or is never used"""
    f = fi.node
    parents = {}
    for n in ast.walk(f):
        for c in ast.iter_child_nodes(n):
            parents[id(c)] = n

    def in_report(n):
        p = parents.get(id(n))
        while p is not None and not isinstance(p, ast.stmt):
            if isinstance(p, ast.Call):
                fn = p.func
                nm = fn.attr if isinstance(fn, ast.Attribute) else getattr(fn, "id", "")
                if nm in REPORT_CALLS:
                    return True
            p = parents.get(id(p))
        return False
    tainted, todo = set(), list(starts) if starts is not None else [call]
    seen = set()
    while todo:
        n = todo.pop()
        if id(n) in seen:
            continue
        seen.add(id(n))
        if in_report(n):
            continue
        p = parents.get(id(n))
        handed = False
        while p is not None and isinstance(p, (ast.BinOp, ast.UnaryOp, ast.Call, ast.IfExp, ast.keyword, ast.Starred, ast.Tuple)) \
                and not isinstance(p, ast.stmt):
            if isinstance(p, ast.IfExp) and n is p.test:
                return False   # decides which value is taken
            if isinstance(p, ast.Call):
                fn = p.func
                nm = fn.attr if isinstance(fn, ast.Attribute) else getattr(fn, "id", "")
                if nm in REPORT_CALLS:
                    break
                if nm not in ("round", "float", "int", "max", "min", "abs", "format"):
                    # a repository helper: follow the parameter the value is bound to
                    g, skip = _callee_of(project, fi, p) if project is not None and depth < 3 else (None, 0)
                    if g is None or any(isinstance(a, ast.Starred) for a in p.args) or any(k.arg is None for k in p.keywords):
                        return False   # handed to something else
                    top = n
                    pname = None
                    params = g.params
                    for k_, a in enumerate(p.args):
                        if a is top and k_ + skip < len(params):
                            pname = params[k_ + skip]
                    for kw_ in p.keywords:
                        if kw_ is top or kw_.value is top:
                            pname = kw_.arg if kw_.arg in params else None
                    if pname is None:
                        return False
                    uses = [x for x in ast.walk(g.node) if isinstance(x, ast.Name) and x.id == pname and isinstance(x.ctx, ast.Load)]
                    if not _clock_only_reported(g, None, project, depth + 1, starts=uses):
                        return False
                    handed = True
                    break
            n, p = p, parents.get(id(p))
        if handed:
            # the helper's own result must not come back either: the call has to stand alone as a statement
            q_ = parents.get(id(p))
            if isinstance(q_, ast.Expr):
                continue
            return False
        if isinstance(p, ast.Call):
            continue   # ended in a report call
        if isinstance(p, ast.Assign) and len(p.targets) == 1 and isinstance(p.targets[0], ast.Name):
            nm = p.targets[0].id
            if nm not in tainted:
                tainted.add(nm)
                todo += [x for x in ast.walk(f) if isinstance(x, ast.Name) and x.id == nm and isinstance(x.ctx, ast.Load)]
            continue
        if isinstance(p, ast.Expr):
            continue
        if isinstance(p, (ast.JoinedStr, ast.FormattedValue)) and in_report(p):
            continue
        return False
    return True


def check_pu_rng(project: Project, oa, rep, allowed=RNG_ALLOWED_FUNCS, rule="PU-RNG"):
    n_flag = 0
    sites = 0
    for q, fi in sorted(project.functions.items()):
        if fi.parent is not None:
            continue
        s = oa.summary(q)
        for tgt, node in s.ext_calls:
            if not any(tgt.startswith(pref) for pref in RNG_PREFIXES):
                continue
            owner = project.enclosing_function(fi.module, node)
            if owner is None or owner.qualname.split(".<locals>")[0] != q:
                continue
            if tgt.startswith("time.") and _clock_only_reported(fi, node, project):
                # a clock read whose value only ever reaches a log / print / warning call: timing diagnostics, no result
                # depends on it
                rep.discharged(rule, fi, node, f"{tgt}: the reading is only reported (logging), it reaches no result", nontrivial=False)
                continue
            sites += 1
            if q not in allowed:
                rep.refuted(rule, fi, node, f"{tgt} called outside the one randomised routine (permitted: "
                                            f"{sorted(allowed)}): results stop being repeatable")
                n_flag += 1
            elif tgt not in RNG_LEGACY_GLOBAL:
                rep.refuted(rule, fi, node, f"{tgt} does not draw from NumPy's legacy global generator, so "
                                            f"np.random.seed no longer reproduces the upper bound")
                n_flag += 1
            else:
                rep.discharged(rule, fi, node, f"{tgt} is a legacy global-generator function inside a permitted "
                                               f"routine (reproducible under np.random.seed)")
    return n_flag, sites


def check_pu_plt(project: Project, oa, rep, allowed_modules=PLT_ALLOWED_MODULES, rule="PU-PLT"):
    n_flag = 0
    sites = 0
    for q, fi in sorted(project.functions.items()):
        if fi.parent is not None:
            continue
        s = oa.summary(q)
        for tgt, node in s.ext_calls:
            if not tgt.startswith("matplotlib.pyplot."):
                continue
            owner = project.enclosing_function(fi.module, node)
            if owner is None or owner.qualname.split(".<locals>")[0] != q:
                continue
            sites += 1
            ok = fi.module.name in allowed_modules or fi.name.startswith("plot") or fi.name == "show"
            if not ok:
                rep.refuted(rule, fi, node, f"{tgt} (pyplot global state) called from a non-plotting function")
                n_flag += 1
    if sites:
        rep.discharged(rule, "package", None, f"{sites} pyplot call sites, all inside plotting modules/methods")
    return n_flag, sites


# ---------------------------------------------------------------------------- PU-DTYPE

COPY_CALLS = {"numpy.copy", "numpy.array", "copy.deepcopy", "copy.copy"}


def _dtype_class(project, fi, expr, caller_typed, locals_) -> str:
    """caller | int | float | other"""
    if isinstance(expr, ast.Constant):
        if isinstance(expr.value, bool) or isinstance(expr.value, int):
            return "int"
        if isinstance(expr.value, float):
            return "float"
        return "other"
    if isinstance(expr, ast.Name):
        return "caller" if expr.id in caller_typed else "other"
    if isinstance(expr, ast.Subscript):
        return _dtype_class(project, fi, expr.value, caller_typed, locals_)
    if isinstance(expr, ast.UnaryOp) and isinstance(expr.op, (ast.USub, ast.UAdd)):
        return _dtype_class(project, fi, expr.operand, caller_typed, locals_)
    if isinstance(expr, ast.BinOp):
        l = _dtype_class(project, fi, expr.left, caller_typed, locals_)
        r = _dtype_class(project, fi, expr.right, caller_typed, locals_)
        if isinstance(expr.op, (ast.Div, ast.Pow)) and "caller" in (l, r):
            return "float"
        if isinstance(expr.op, (ast.Add, ast.Sub, ast.Mult, ast.FloorDiv, ast.Mod)):
            if "float" in (l, r):
                return "float" if ("caller" in (l, r) or l == r == "float") else "other"
            if "other" in (l, r):
                return "other"
            return "caller" if "caller" in (l, r) else "int"
        return "other"
    if isinstance(expr, ast.Call):
        t = project.resolve(fi.module, expr.func, locals_)
        if t in ("numpy.abs", "builtins.abs", "numpy.subtract", "numpy.add", "numpy.multiply", "numpy.negative") \
                and expr.args:
            cs = [_dtype_class(project, fi, a, caller_typed, locals_) for a in expr.args]
            if "float" in cs:
                return "float"
            return "caller" if "caller" in cs else "other"
        if t in ("numpy.sqrt", "numpy.divide", "numpy.true_divide", "numpy.log", "numpy.exp", "numpy.mean") \
                and expr.args:
            cs = [_dtype_class(project, fi, a, caller_typed, locals_) for a in expr.args]
            return "float" if "caller" in cs else "other"
        return "other"
    return "other"


def check_pu_dtype(project: Project, rep, rule="PU-DTYPE"):
    n_flag = 0
    sites = 0
    for q, fi in sorted(project.functions.items()):
        if not isinstance(fi.node, (ast.FunctionDef, ast.AsyncFunctionDef)) or fi.parent is not None:
            continue
        locals_ = local_names(fi.node)
        params = set(fi.params)
        caller_typed = set()
        loop_elems = {}  # loop var -> iter name
        for st in stmts_in_order(fi.node):
            if isinstance(st, ast.For) and isinstance(st.target, ast.Name) and isinstance(st.iter, ast.Name):
                loop_elems[st.target.id] = st.iter.id
            if isinstance(st, ast.Assign) and len(st.targets) == 1 and isinstance(st.targets[0], ast.Name) \
                    and isinstance(st.value, ast.Call):
                t = project.resolve(fi.module, st.value.func, locals_)
                src = None
                if t in COPY_CALLS and st.value.args and not any(k.arg == "dtype" for k in st.value.keywords):
                    src = st.value.args[0]
                elif isinstance(st.value.func, ast.Attribute) and st.value.func.attr == "copy" and not st.value.args:
                    src = st.value.func.value
                if src is not None and isinstance(src, ast.Name) and (
                        src.id in params or loop_elems.get(src.id) in params or src.id in caller_typed):
                    caller_typed.add(st.targets[0].id)
                elif st.targets[0].id in caller_typed:
                    caller_typed.discard(st.targets[0].id)
            stores = []
            if isinstance(st, ast.Assign):
                for t_ in st.targets:
                    if isinstance(t_, ast.Subscript) and isinstance(t_.value, ast.Name) and t_.value.id in caller_typed:
                        stores.append((t_, st.value))
            elif isinstance(st, ast.AugAssign) and isinstance(st.target, ast.Subscript) \
                    and isinstance(st.target.value, ast.Name) and st.target.value.id in caller_typed:
                v = st.value
                if isinstance(st.op, ast.Div):
                    stores.append((st.target, ast.BinOp(st.target, ast.Div(), v)))
                else:
                    stores.append((st.target, v))
            for tgt, val in stores:
                sites += 1
                c = _dtype_class(project, fi, val, caller_typed, locals_)
                if c == "float":
                    rep.refuted(rule, fi, st,
                                "a float-valued result is stored into a copy that keeps the caller's dtype: for an "
                                "integer diagram the store truncates, so integer and float inputs of equal value "
                                "give different results")
                    n_flag += 1
                else:
                    rep.discharged(rule, fi, st, f"store into caller-typed copy `{tgt.value.id}` is integer-closed "
                                                 f"(value class: {c})")
    # the flow-insensitive variant: arrays created with *_like / views / np.array(...) of caller data (rules/dtype_rule.py)
    from . import dtype_rule
    seen_nodes = set()
    n_fn = 0
    for q, fi in sorted(project.functions.items()):
        if not isinstance(fi.node, (ast.FunctionDef, ast.AsyncFunctionDef)):
            continue
        n_fn += 1
        for h in dtype_rule.analyse(project, fi):
            if id(h["node"]) in seen_nodes:
                continue
            seen_nodes.add(id(h["node"]))
            rep.refuted(rule, fi, h["node"],
                        h["why"] + ": for integer input (a diagram written with ints) numpy truncates what is stored, so the "
                                   "result depends on whether the same numbers are given as int or float",
                        construct=f"{fi.qualname}: {ast.unparse(h['node'])[:100]}")
            n_flag += 1
    rep.discharged(rule, None, None, f"{n_fn} functions inspected: no floating-point store into an array whose dtype is "
                                     f"inherited from the caller's data (*_like, views, np.array without dtype)")
    return n_flag, sites


def check_pu_intarith(project: Project, rep, rule="PU-INTARITH"):
    """arithmetic between quantities that still have the dtype of the caller's arrays (rules/intarith_rule.py)"""
    from . import intarith_rule
    n_fn, n_arr = intarith_rule.run_on(project, rep, rule)
    return len([x for x in rep.refutations if x["rule"] == rule]), n_fn


def _mutable_global(project: Project, dotted: str) -> bool:
    """the module-level name is bound (once) to a mutable container: a dict / list / set display or constructor, np.array(...)"""
    modname, _, gname = dotted.rpartition(".")
    m = project.modules.get(modname)
    e = m.globals.get(gname) if m is not None else None
    if e is None:
        return False
    if isinstance(e, (ast.Dict, ast.List, ast.Set, ast.DictComp, ast.ListComp, ast.SetComp)):
        return True
    if isinstance(e, ast.Call):
        t = project.resolve(m, e.func, ())
        return t in ("builtins.dict", "builtins.list", "builtins.set", "collections.OrderedDict", "collections.defaultdict",
                     "numpy.array", "numpy.zeros", "numpy.ones", "numpy.empty", "numpy.full", "builtins.bytearray")
    return False


def _mutable_display(project, m, e) -> bool:
    if isinstance(e, (ast.Dict, ast.List, ast.Set, ast.DictComp, ast.ListComp, ast.SetComp)):
        return True
    if isinstance(e, ast.Call):
        t = project.resolve(m, e.func, ())
        return t in ("builtins.dict", "builtins.list", "builtins.set", "collections.OrderedDict", "collections.defaultdict",
                     "numpy.array", "numpy.zeros", "numpy.ones", "numpy.empty", "numpy.full", "builtins.bytearray")
    return False


def _mutable_entry(project: Project, dotted: str, fi, attr: str):
    """`self.<attr>` of `fi` may hold an ENTRY of the module-level table `dotted` (a dict display with constant keys).  Returns the
    key when the entry that is taken is known (a constant key on the way from the table to the attribute) and is itself a
    mutable container; None when the entry is immutable or which entry it is cannot be told"""
    modname, _, gname = dotted.rpartition(".")
    m = project.modules.get(modname)
    e = m.globals.get(gname) if m is not None else None
    if not isinstance(e, ast.Dict) or not all(isinstance(k, ast.Constant) for k in e.keys):
        return None
    table = {k.value: v for k, v in zip(e.keys, e.values)}
    # constants on the way: the right-hand side of the attribute store, and of the local names it mentions
    rhs = [x.value for x in ast.walk(fi.node) if isinstance(x, ast.Assign) and any(
        isinstance(t, ast.Attribute) and t.attr == attr for t in x.targets)]
    names = {n.id for r in rhs for n in ast.walk(r) if isinstance(n, ast.Name)}
    rhs += [x.value for x in ast.walk(fi.node) if isinstance(x, ast.Assign) and any(
        isinstance(t, ast.Name) and t.id in names for t in x.targets)]
    keys = {c.value for r in rhs for c in ast.walk(r) if isinstance(c, ast.Constant) and isinstance(c.value, str) and c.value in table}
    if len(keys) != 1:
        return None
    k = next(iter(keys))
    return k if _mutable_display(project, m, table[k]) else None


def _flag_call_info(project, ev):
    """(owner FunctionInfo, function node, the .setflags call, its `write` value node or None)"""
    owner = project.functions.get(ev.func)
    call = ev.node if isinstance(ev.node, ast.Call) else None
    if owner is None or call is None:
        return owner, None, call, None
    w = None
    for kw in call.keywords:
        if kw.arg == "write":
            w = kw.value
    if w is None and call.args:
        w = call.args[0]
    return owner, owner.node, call, w


def _mentions_flags(project, mod, e, depth=0) -> bool:
    """the expression reads array flags — `.flags`, `.writeable`, or through a helper of the package that does"""
    for x in ast.walk(e):
        if isinstance(x, ast.Attribute) and x.attr in ("flags", "writeable"):
            return True
        if isinstance(x, ast.Constant) and x.value in ("WRITEABLE", "W"):
            return True
        if isinstance(x, ast.Call) and isinstance(x.func, (ast.Name, ast.Attribute)) and depth < 2:
            tgt = project.resolve(mod, x.func, ())
            h = project.functions.get(project.canonical(tgt)) if tgt else None
            if h is not None and _mentions_flags(project, h.module, h.node, depth + 1):
                return True
    return False


def _faithful_restore(project, owner, fnode, call, w) -> bool:
    """a `setflags(write=...)` that puts back what was there: the value is not a constant, or the arrays it runs over were
    selected by a test on their flags, or it sits under such a test"""
    if w is not None and not isinstance(w, ast.Constant):
        return True
    recv = call.func.value if isinstance(call.func, ast.Attribute) else None
    parents = {id(c): p_ for p_ in ast.walk(fnode) for c in ast.iter_child_nodes(p_)}
    # under an `if` that looks at flags / a saved flag
    x = call
    while id(x) in parents:
        x = parents[id(x)]
        if isinstance(x, ast.If) and _mentions_flags(project, owner.module, x.test):
            return True
        if isinstance(x, (ast.For, ast.comprehension)) and isinstance(recv, ast.Name):
            tgt_names = {t.id for t in ast.walk(x.target) if isinstance(t, ast.Name)}
            if recv.id in tgt_names:
                it = x.iter
                while isinstance(it, ast.Call) and isinstance(it.func, ast.Name) and it.func.id in ("sorted", "reversed", "list", "tuple") \
                        and it.args:
                    it = it.args[0]      # the same arrays in another order
                if isinstance(it, ast.Name):
                    # a list filled one by one: every `held.append(a)` sits under a test on a's flags
                    apps = [c for c in ast.walk(fnode) if isinstance(c, ast.Call) and isinstance(c.func, ast.Attribute)
                            and c.func.attr in ("append", "add") and isinstance(c.func.value, ast.Name) and c.func.value.id == it.id]
                    if apps:
                        def _guarded(c):
                            y = c
                            while id(y) in parents:
                                y = parents[id(y)]
                                if isinstance(y, ast.If) and _mentions_flags(project, owner.module, y.test):
                                    return True
                            return False
                        if all(_guarded(c) for c in apps):
                            return True
                srcs = [it]
                if isinstance(it, ast.Name):
                    srcs = [a_.value for a_ in ast.walk(fnode) if isinstance(a_, ast.Assign)
                            and any(isinstance(t, ast.Name) and t.id == it.id for t in a_.targets)]
                for src in srcs:
                    for c in ast.walk(src):
                        if isinstance(c, ast.comprehension) and any(_mentions_flags(project, owner.module, f_) for f_ in c.ifs):
                            return True
    return False


def check_pu_flags(project: Project, oa, rep, entry_points, rule="PU-FLAGS", include_self=False):
    """PU-FLAGS: the writeable flag of an array the caller handed in (or of an operand's data) may be cleared while the
    function works, but must come back as it was on every exit: a `finally` holds the restoring `setflags`, and that restore is
    faithful (the saved value, or only the arrays that were writeable) — an unconditional `write=True` un-protects an array the
    caller had made read-only.  Marking the object's OWN arrays read-only for good is not covered here (no caller data)."""
    n = 0
    seen = set()
    for fi in entry_points:
        s = oa.summary(fi.qualname)
        params = fi.params
        self_name = params[0] if (fi.cls is not None and fi.kind in ("method", "property", "setter") and params) else None
        for ev in s.events:
            if ev.kind != "flagset" or not ev.origin.is_arg:
                continue
            owner, fnode, call, w = _flag_call_info(project, ev)
            if owner is None or call is None or (owner.qualname, id(call)) in seen:
                continue
            seen.add((owner.qualname, id(call)))
            n += 1
            own_data = ev.origin.param == self_name and not include_self
            const = w.value if isinstance(w, ast.Constant) else None
            in_finally = any(isinstance(t, ast.Try) and any(call in ast.walk(f_) for f_ in t.finalbody) for t in ast.walk(fnode))
            if const is False or (w is None):
                # cleared: for caller data a restoring call must sit in a finally of the same function
                if own_data:
                    rep.discharged(rule, owner, call, f"`{ast.unparse(call)[:50]}` protects the object's own array", nontrivial=False)
                    continue
                restores = [c for t in ast.walk(fnode) if isinstance(t, ast.Try) for f_ in t.finalbody for c in ast.walk(f_)
                            if isinstance(c, ast.Call) and isinstance(c.func, ast.Attribute) and c.func.attr == "setflags"]
                if restores:
                    rep.discharged(rule, owner, call, f"`{ast.unparse(call)[:50]}` on the caller's array is undone in a finally")
                else:
                    rep.refuted(rule, owner, call,
                                f"{fi.qualname}: `{ast.unparse(call)[:60]}` clears the writeable flag of an array the caller handed in "
                                f"(`{ev.origin}`) and no `finally` puts it back: the caller's array stays read-only",
                                construct=f"{owner.qualname}: {ast.unparse(call)[:60]} without restore")
            else:
                if _faithful_restore(project, owner, fnode, call, w):
                    rep.discharged(rule, owner, call, f"`{ast.unparse(call)[:50]}` puts back the flag that was there"
                                                      f"{' (in a finally)' if in_finally else ''}")
                else:
                    rep.refuted(rule, owner, call,
                                f"{fi.qualname}: `{ast.unparse(call)[:60]}` makes `{ev.origin}` writeable whatever it was before: an "
                                f"array the caller had protected (read-only) comes back writeable — or, if it is a view of a "
                                f"read-only array, the call raises — although the operation only reads it",
                                construct=f"{owner.qualname}: unconditional {ast.unparse(call)[:60]}")
    return n


def check_pu_lazy(project: Project, rep):
    """PU-LAZY: a public method of a landscape class reads what compute_landscape stores lazily only behind the computation —
    otherwise the first call answers from the place-holder and the same call after any other computing call answers from the
    data (rule text: lazy_rule)"""
    from . import lazy_rule
    ops = ("__add__", "__sub__", "__neg__", "__mul__", "__rmul__", "__truediv__")
    n = 0
    for cq in (lazy_rule.EXACT, lazy_rule.APPROX):
        n += lazy_rule.check_class(project, rep, cq, "PU-LAZY", others_for=ops,
                                   why=": the same call gives a different result once another call has computed the landscape")
    n += lazy_rule.check_functions(project, rep, "PU-LAZY",
                                   why=": the same call gives a different result once another call has computed the landscape")
    return n


def check_pu_share(project: Project, oa, rep, eps, rule="PU-SHARE"):
    """no public function hands out a reference to a module-level mutable object — as an attribute of the object it builds
    (`self.params = _DEFAULT_PARAMS`) or as its return value: whoever edits what they were given (an imager's parameter
    dictionary is documented as adjustable) edits the module's one object, and with it every other holder and every later
    default"""
    n_flag = n = 0
    for fi in eps:
        s = oa.summary(fi.qualname)
        if fi.cls is not None and fi.params:
            me = fi.params[0]
            for (o, attr), av in sorted(s.captures.items(), key=lambda kv: kv[0][1]):
                if not (o.is_arg and o.param == me and not o.path):
                    continue
                for g in sorted(av.is_, key=str):
                    if g.root.startswith("global:") and not g.path and _mutable_global(project, g.root[7:]):
                        node = next((x for x in ast.walk(fi.node) if isinstance(x, ast.Assign) and any(
                            isinstance(t, ast.Attribute) and t.attr == attr for t in x.targets)), fi.node)
                        rep.refuted(rule, fi, node,
                                    f"{fi.qualname} stores the module-level object `{g.root[7:]}` itself in `{me}.{attr}`: every object "
                                    f"built this way shares that one mutable container, so an in-place edit through one of them changes "
                                    f"the others and the default of every later construction",
                                    construct=f"{fi.qualname}: {me}.{attr} aliases {g.root[7:]}")
                        n_flag += 1
                    elif g.root.startswith("global:") and g.path == ("*",):
                        key = _mutable_entry(project, g.root[7:], fi, attr)
                        if key is not None:
                            node = next((x for x in ast.walk(fi.node) if isinstance(x, ast.Assign) and any(
                                isinstance(t, ast.Attribute) and t.attr == attr for t in x.targets)), fi.node)
                            rep.refuted(rule, fi, node,
                                        f"{fi.qualname} stores the entry `{key}` of the module-level table `{g.root[7:]}` itself in "
                                        f"`{me}.{attr}` (a mutable container, not a copy): every object built this way shares it, so an "
                                        f"in-place edit through one of them changes the others and the default of every later construction",
                                        construct=f"{fi.qualname}: {me}.{attr} aliases {g.root[7:]}[{key!r}]")
                            n_flag += 1
        if s.ret is not None and fi.cls is None:
            for g in sorted(s.ret.is_, key=str):
                if g.root.startswith("global:") and not g.path and _mutable_global(project, g.root[7:]):
                    rep.refuted(rule, fi, fi.node, f"{fi.qualname} returns the module-level object `{g.root[7:]}` itself: the caller "
                                                   f"can edit the package's own state through it",
                                construct=f"{fi.qualname}: returns {g.root[7:]}")
                    n_flag += 1
        n += 1
    if not n_flag:
        rep.discharged(rule, None, None, f"{n} public entry points: none stores or returns a module-level mutable object as it is")
    return n_flag, n


def _positive_examples(rep):
    """Zero-expected rules must flag their tiny positive example on every run."""
    from ..core.report import Report
    from ..core.own import OwnAnalysis
    here = os.path.join(os.path.dirname(os.path.dirname(os.path.abspath(__file__))), "selftest", "positive")
    pp = Project(here, pkg="pospkg")
    oa = OwnAnalysis(pp)
    oa.all_summaries()
    scratch = Report("C19-positive")
    eps = public_entry_points(pp)
    got = {
        "PU-ARGS": check_pu_args(pp, oa, scratch, eps),
        "PU-CAPT": check_pu_capt(pp, oa, scratch),
        "PU-STATE": check_pu_state(pp, oa, scratch)[0],
        "PU-RNG": check_pu_rng(pp, oa, scratch, allowed=set())[0],
        "PU-PLT": check_pu_plt(pp, oa, scratch, allowed_modules=set())[0],
        "PU-DTYPE": check_pu_dtype(pp, scratch)[0],
        "PU-INTARITH": check_pu_intarith(pp, scratch)[0],
        "PU-SHARE": check_pu_share(pp, oa, scratch, eps)[0],
    }
    from . import lazy_rule as _lz
    _lz.positive_examples()
    from . import memo_rule as _mrp
    if {r_["cls"].name for r_ in _mrp.broadcasting_equalities(pp)} != {"_LooseEq"}:
        raise AnalysisError("positive example: the broadcasting-equality pattern did not flag exactly _LooseEq.__eq__")
    sh_w = {r_["fi"].name for r_ in _mrp.shallow_copy_writes(pp)}
    if sh_w != {"marked_cols"}:
        raise AnalysisError(f"positive example: the shallow-copy pattern flagged {sorted(sh_w)}, expected ['marked_cols']")
    cps = {r_["fi"].name for r_ in _mrp.stale_cached_properties(pp)}
    if cps != {"grid_after_fit"}:
        raise AnalysisError(f"positive example: the cached_property pattern flagged {sorted(cps)}, expected ['grid_after_fit']")
    byp = {r_["fi"].name for r_ in _mrp.setter_bypasses(pp)}
    if byp != {"scaled_bypassing"}:
        raise AnalysisError(f"positive example: the setter-bypass pattern flagged {sorted(byp)}, expected ['scaled_bypassing']")
    sh = [x for x in scratch.refutations if x["rule"] == "PU-SHARE"]
    if not any("SharesDefaults" in x["function"] for x in sh):
        raise AnalysisError("positive example: PU-SHARE did not flag SharesDefaults.__init__")
    if not any("SharesTableEntry" in x["function"] for x in sh):
        raise AnalysisError("positive example: PU-SHARE did not flag SharesTableEntry.__init__ (an entry of a module-level table)")
    if any("CopiesTableEntry" in x["function"] for x in sh) or any("size" in x["construct"] for x in sh):
        raise AnalysisError("positive example: PU-SHARE flagged the clean twin CopiesTableEntry / an immutable entry")
    if any("CopiesDefaults" in x["function"] for x in sh):
        raise AnalysisError("positive example: PU-SHARE flagged the clean twin CopiesDefaults")
    want = {"PU-ARGS": 5, "PU-CAPT": 2, "PU-STATE": 5, "PU-RNG": 1, "PU-PLT": 1, "PU-DTYPE": 2, "PU-INTARITH": 5, "PU-SHARE": 1}
    ia = [x for x in scratch.refutations if x["rule"] == "PU-INTARITH"]
    for must in ("cross_difference", "squared_norms", "midpoints", "_pairwise"):
        if not any(must in x["function"] for x in ia):
            raise AnalysisError(f"positive example: PU-INTARITH did not flag {must}")
    for never in ("converted_first", "own_difference", "scalar_settings"):
        if any(never in x["function"] for x in ia):
            raise AnalysisError(f"positive example: PU-INTARITH flagged the clean twin {never}")
    for r, n in want.items():
        if got[r] < n:
            raise AnalysisError(f"positive example: rule {r} flagged {got[r]} constructs, expected >= {n} "
                                f"(the rule is not working)")
    caches = [x for x in scratch.refutations if x["rule"] == "PU-CACHE"]
    if not any("_WS_TOTAL" in x["construct"] for x in caches):
        raise AnalysisError("positive example: the cache keyed by too little (_WS_TOTAL) was not flagged by PU-CACHE")
    if not any("_BY_ID_SELF" in x["construct"] for x in caches):
        raise AnalysisError("positive example: the identity-keyed cache that validates against the array itself (_BY_ID_SELF) was not flagged")
    if any("_BY_ID_COPY" in x["construct"] for x in scratch.refutations):
        raise AnalysisError("positive example: the identity-keyed cache built on a private copy (_BY_ID_COPY) was flagged")
    if any("_WS_SPLIT" in x["construct"] for x in scratch.refutations):
        raise AnalysisError("positive example: the completely keyed cache (_WS_SPLIT) was flagged")
    from . import memo_rule as _mr
    cm = {r_["table"] + "@" + r_["fi"].qualname: r_["verdict"] for r_ in _mr.class_level_memos(pp)}
    if not any(k.endswith("_PowerTable.power") and v == "refuted" for k, v in cm.items()):
        raise AnalysisError("positive example: the class-level memo keyed without the instance's exponent (_PowerTable) was not flagged")
    if any(k.endswith("_SquareTable.square") and v == "refuted" for k, v in cm.items()):
        raise AnalysisError("positive example: the completely keyed class-level memo (_SquareTable) was flagged")
    got["PU-CACHE"] = len(caches)
    # and the clean twin must stay silent
    clean = [x for x in scratch.refutations if "fresh_copy_is_fine" in x["function"] or "fresh_copy_is_fine" in x["construct"]]
    if clean:
        raise AnalysisError(f"positive example: clean twin fresh_copy_is_fine was flagged: {clean}")
    rep.extra["positive_examples"] = got


def run(project: Project, rep, tier: str):
    rep.explain(
        "C19 (clauses decided, not the behaviour as a whole): inter-procedural ownership/effect analysis (origins: "
        "FRESH / ARG(p)+access path / module global / mutable default; copy-makers, view-makers, shallow containers, "
        "mutators and in-place operators tabled) over every function of persim. PU-ARGS: no public entry point has a "
        "write event on an object rooted at one of its parameters. PU-CAPT: no method mutates in place an object "
        "reachable from self. PU-STATE: no store to module/class state and no mutation of module-level objects or "
        "mutable defaults. PU-RNG/PU-PLT: who-may-call for random generators (only the mGH upper-bound heuristic, "
        "legacy global generator so np.random.seed reproduces it) and pyplot state. PU-DTYPE: stores into copies that "
        "keep the caller's dtype are closed over the integers. PU-INTARITH: no difference of two caller arrays, product, power or sum "
        "is formed while both operands still have the caller's (possibly unsigned or narrow) integer dtype — a must analysis "
        "over reaching definitions. Declined: bit-identical floating results.")
    rep.assume("external callables (numpy/scipy/sklearn/matplotlib/stdlib) behave as tabled in pst/core/own.py "
               "(copy vs view vs mutating); user-supplied weight/kernel callables are pure by documented contract")
    oa = own_analysis(project)
    eps = public_entry_points(project)
    rep.floor("PU-ARGS", 100)
    if len(eps) < 70:
        raise AnalysisError(f"only {len(eps)} public entry points found; hand-confirmed floor is 70")
    check_pu_args(project, oa, rep, eps)
    check_pu_capt(project, oa, rep)
    _, mobjs = check_pu_state(project, oa, rep)
    if len(mobjs) < 8:
        raise AnalysisError(f"only {len(mobjs)} mutable default/global objects enumerated; floor is 8")
    # class-level memo tables (one dictionary shared by every instance): keyed by everything the stored value depends on
    from . import memo_rule as _mr
    for r_ in _mr.class_level_memos(project):
        if r_["verdict"] == "refuted":
            rep.refuted("PU-CACHE", r_["fi"], r_["node"], r_["why"] + " — results depend on the calls made before",
                        construct=f"{r_['fi'].qualname}: class-level cache {r_['table']}")
        else:
            rep.discharged("PU-CACHE", r_["fi"], r_["node"], r_["why"])
    for r_ in _mr.setter_bypasses(project):
        rep.refuted("PU-CACHE", r_["fi"], r_["node"], r_["why"] + " — the result depends on what was asked of the source object before",
                    construct=f"{r_['fi'].qualname}: setter of {r_['prop']} bypassed")
    for r_ in _mr.broadcasting_equalities(project):
        rep.refuted("PU-EQ", r_["fi"], r_["node"], r_["why"], construct=f"{r_['fi'].qualname}: array_equiv in __eq__")
    for r_ in _mr.shallow_copy_writes(project):
        rep.refuted("PU-ALIAS", r_["fi"], r_["node"], r_["why"] + " — a method that promises a modified copy changes the object it was called on",
                    construct=f"{r_['fi'].qualname}: in-place write into shared {r_['attr']}")
    for r_ in _mr.stale_cached_properties(project):
        rep.refuted("PU-CACHE", r_["fi"], r_["node"], r_["why"] + " — the result depends on the calls made before",
                    construct=f"{r_['fi'].qualname}: cached_property over {r_['attr']}")
    _, rng_sites = check_pu_rng(project, oa, rep)
    rep.floor("PU-RNG", 1)
    check_pu_share(project, oa, rep, eps)
    check_pu_lazy(project, rep)
    rep.floor("PU-LAZY", 20)
    check_pu_flags(project, oa, rep, eps)
    check_pu_plt(project, oa, rep)
    _, dsites = check_pu_dtype(project, rep)
    rep.floor("PU-DTYPE", 3)
    _, ia_fns = check_pu_intarith(project, rep)
    rep.floor("PU-INTARITH", 8)
    rep.extra["functions_with_caller_typed_arrays"] = ia_fns
    # PU-NONE: a value taken from a call that returns nothing on some path (the first call on a lazily computed object fails,
    # a repeated one succeeds: the result depends on the object's history)
    from . import retval_rule
    fns = [fi_ for q_, fi_ in sorted(project.functions.items()) if isinstance(fi_.node, (ast.FunctionDef, ast.AsyncFunctionDef))]
    hits = retval_rule.analyse(project, fns)
    for h in hits:
        rep.refuted("PU-NONE", h["fi"], h["node"], h["why"] + "; the call fails there and succeeds when repeated after the object "
                    "has been computed", construct=f"{h['fi'].qualname}: {ast.unparse(h['node'])[:60]}")
    mixed = sum(1 for fi_ in fns if retval_rule.mixed_returns(project, fi_))
    if not hits:
        rep.discharged("PU-NONE", None, None, f"{len(fns)} functions: {mixed} return a value on some paths only; none of their call "
                                              f"sites uses the value", nontrivial=False)
    rep.extra["functions_with_a_valueless_exit"] = mixed
    if oa.unresolved_calls:
        for t, f, ln in oa.unresolved_calls:
            rep.unmodelled("PU-ARGS", f, None, f"call to {t} (line {ln}) does not resolve into the repo or a tabled "
                                              f"external package")
    for t in sorted({t for s in oa.summaries.values() for t, _ in s.ext_calls if not t.startswith("<")}):
        rep.trust(t)
    rep.call_sites = sum(len(s.ext_calls) + len(s.repo_calls) for s in oa.summaries.values())
    rep.extra["entry_points"] = [fi.qualname for fi in eps]
    rep.extra["mutable_shared_objects"] = sorted(mobjs)
    # representation notes (listed, not refuted)
    _positive_examples(rep)
