"""PU-INTARITH — arithmetic carried out in the dtype of the caller's arrays.

The property (C19) lets the same diagram arrive as nested lists, as an integer array or as a floating-point array.  An
integer array can be narrow or unsigned (uint8 birth/death levels of a grey-scale image, int16 sample indices).  Arithmetic
between two quantities that STILL HAVE that dtype is done in it:

    S[:, None] - T[None, :]     two different caller arrays: for unsigned integers the difference wraps around
    delta * delta,  (p - q) ** 2    products / powers: overflow in a narrow integer type
    b + d                       sums of two caller values: uint8 100 + 200 is 44

whereas the same numbers as floats (or as a list, which becomes int64) give the mathematical value.  The usual cure is a
conversion where the data enters (`np.array(dgm, dtype=float)`), after which nothing is caller-typed any more.

The rule is a MUST analysis, so that it reports only what is certain:

  array parameter   a parameter of a function the package exports (`__all__` / re-exported by the package), without a
                    constant default, that the function treats as an array: indexed with a tuple or a slice, `.shape` /
                    `.size` read, or handed to np.array / np.asarray / np.copy / ... ; or a parameter of a helper ALL of whose
                    call sites in the package pass definite caller arrays in that position
  definite(e)       an array parameter | a dtype-keeping copy / view / selection of a definite expression without dtype=
                    | a local ALL of whose definitions are definite (a definition in terms of the name itself is skipped)
                    | +, -, * of a definite operand and a definite-or-integer-literal operand | unary minus

A name that is anywhere re-bound to something else (an explicit float conversion, a float expression) is not definite —
the uses before the re-binding are then not judged (a miss, never an alarm).
"""
from __future__ import annotations

import ast
from typing import Dict, List, Optional, Set

from ..core.loader import FunctionInfo, Project
from .common import local_names
from .dtype_rule import KEEP_DTYPE_FUNCS, KEEP_DTYPE_METHODS, _call_sites, _has_dtype

KEEP_FUNCS = KEEP_DTYPE_FUNCS | {"numpy.abs", "numpy.absolute", "numpy.negative", "numpy.maximum", "numpy.minimum",
                                 "numpy.subtract", "numpy.add", "numpy.multiply", "numpy.square", "numpy.asarray_chkfinite",
                                 "numpy.expand_dims", "numpy.take", "numpy.compress", "numpy.delete", "numpy.roll", "numpy.tile",
                                 "numpy.repeat", "numpy.stack", "numpy.column_stack", "numpy.row_stack"}
ARRAY_MAKERS = {"numpy.array", "numpy.asarray", "numpy.asanyarray", "numpy.copy", "numpy.atleast_2d", "numpy.atleast_1d",
                "numpy.asarray_chkfinite", "numpy.ascontiguousarray"}


def exported(project: Project, fi: FunctionInfo) -> bool:
    """listed in its module's __all__, or a public method of a class that is"""
    if not isinstance(fi.node, (ast.FunctionDef, ast.AsyncFunctionDef)) or fi.parent is not None:
        return False
    alln = fi.module.all_names or []
    if fi.cls is None:
        return fi.name in alln
    return fi.cls.name in alln and (not fi.name.startswith("_") or (fi.name.startswith("__") and fi.name.endswith("__")))


_DOC_ARRAY = ("ndarray", "np.array", "numpy.array", "array", "(-,2)", "(n,2)", "(m,2)")


def _documented_array(fi: FunctionInfo, name: str) -> bool:
    """the numpydoc entry of the parameter (in the function's docstring, or the class's for a constructor) calls it an array /
    a list of arrays: `dgms : list of (-,2) numpy.ndarrays`"""
    docs = [ast.get_docstring(fi.node) or ""]
    if fi.cls is not None and fi.name == "__init__":
        docs.append(ast.get_docstring(fi.cls.node) or "")
    for doc in docs:
        for ln in doc.splitlines():
            t = ln.strip()
            if t.startswith(name) and t[len(name):].lstrip().startswith(":"):
                typ = t[len(name):].lstrip()[1:].lower()
                if any(k in typ for k in _DOC_ARRAY):
                    return True
    return False


def _array_used(f, name: str, res, project=None, depth=0) -> bool:
    """the parameter — or a dtype-keeping copy / view of it under another local name — is used the way a numeric array is:
    indexed with a tuple or a slice, `.shape` / `.size` / `.ndim` / `.T` read, or handed to a helper of the package that uses it
    so.  Being passed to np.array(...) alone says nothing (a list of objects is passed to it as well)."""
    alias = {name}
    grew = True
    while grew:
        grew = False
        for n in ast.walk(f):
            if isinstance(n, ast.Assign) and len(n.targets) == 1 and isinstance(n.targets[0], ast.Name) and n.targets[0].id not in alias:
                v = n.value
                src = None
                if isinstance(v, ast.Name):
                    src = v
                elif isinstance(v, ast.Call) and res(v.func) in (ARRAY_MAKERS | KEEP_FUNCS) and v.args:
                    src = v.args[0]   # (with or without dtype=: this is about being an array, not about its dtype)
                elif isinstance(v, ast.Subscript):
                    src = v.value
                if isinstance(src, ast.Name) and src.id in alias:
                    alias.add(n.targets[0].id)
                    grew = True
    for n in ast.walk(f):
        if project is not None and depth < 2 and isinstance(n, ast.Call) and not any(isinstance(x, ast.Starred) for x in n.args):
            # handed to a helper of the package that treats it as an array
            g = project.functions.get(res(n.func) or "")
            if g is not None and isinstance(g.node, (ast.FunctionDef, ast.AsyncFunctionDef)) and g.cls is None:
                pn = [x.arg for x in g.node.args.posonlyargs + g.node.args.args]
                glocs = local_names(g.node)
                gres = lambda fn, g=g, glocs=glocs: project.resolve(g.module, fn, glocs)
                for nme, e in list(zip(pn, n.args)) + [(k.arg, k.value) for k in n.keywords if k.arg]:
                    while isinstance(e, ast.Call) and res(e.func) in ARRAY_MAKERS and e.args:
                        e = e.args[0]
                    if isinstance(e, ast.Name) and e.id in alias and _array_used(g.node, nme, gres, project, depth + 1):
                        return True
        if isinstance(n, ast.Subscript) and isinstance(n.value, ast.Name) and n.value.id in alias \
                and (isinstance(n.slice, ast.Slice) or (isinstance(n.slice, ast.Tuple) and len(n.slice.elts) >= 2)):
            return True
        if isinstance(n, ast.Attribute) and isinstance(n.value, ast.Name) and n.value.id in alias and n.attr in ("shape", "size", "ndim", "T"):
            return True
    return False


class _Fn:
    """flow-sensitive: a name at a use is judged through the definitions that reach that use"""

    def __init__(self, project: Project, fi: FunctionInfo, array_params: Set[str]):
        from ..core.cfg import CFG
        self.p, self.fi, self.f = project, fi, fi.node
        self.locs = local_names(self.f)
        self.array_params = set(array_params)
        self.cfg = CFG(self.f)
        self.rd = self.cfg.reaching_definitions()
        self._memo: Dict[tuple, bool] = {}
        self._rmemo: Dict[tuple, Set[str]] = {}
        self._nodes: Dict[int, Optional[int]] = {}
        # statements nested in inner functions / lambdas are not part of this flow graph
        self.inner = set()
        for n in ast.walk(self.f):
            if n is not self.f and isinstance(n, (ast.FunctionDef, ast.AsyncFunctionDef, ast.Lambda, ast.ClassDef)):
                for y in ast.walk(n):
                    if y is not n:
                        self.inner.add(id(y))

    def res(self, fn):
        return self.p.resolve(self.fi.module, fn, self.locs)

    def node_id(self, e) -> Optional[int]:
        if id(e) not in self._nodes:
            n = self.cfg.node_of(e)
            self._nodes[id(e)] = n.id if n is not None else None
        return self._nodes[id(e)]

    @staticmethod
    def intlit(e) -> bool:
        if isinstance(e, ast.UnaryOp) and isinstance(e.op, (ast.USub, ast.UAdd)):
            e = e.operand
        return isinstance(e, ast.Constant) and isinstance(e.value, int) and not isinstance(e.value, bool)

    def literal_ints(self, e) -> bool:
        if isinstance(e, ast.Call) and self.res(e.func) in ("numpy.array", "numpy.asarray") and e.args and not _has_dtype(e):
            e = e.args[0]
        else:
            return False
        if isinstance(e, ast.Name) and e.id not in self.locs and e.id in self.fi.module.globals:
            e = self.fi.module.globals[e.id]   # a module-level table of integer literals (`_DIAGONAL_POINT = ((0, 0),)`)
        return isinstance(e, (ast.List, ast.Tuple)) and bool(e.elts) and all(
            self.intlit(x) or (isinstance(x, (ast.List, ast.Tuple)) and x.elts and all(self.intlit(y) for y in x.elts)) for x in e.elts)

    def _value_of(self, nme: str, d: int):
        """the expression whose value the definition at node `d` gives to `nme` (None: nothing that can be followed)"""
        nd = self.cfg.nodes[d]
        a = nd.ast
        el = lambda e: ast.Subscript(e, ast.Constant(0), ast.Load())
        if nd.kind == "for":
            if isinstance(a.target, ast.Name):
                return el(a.iter)
            if isinstance(a.target, (ast.Tuple, ast.List)) and any(isinstance(t, ast.Name) and t.id == nme for t in a.target.elts):
                return el(el(a.iter))
            return None
        if isinstance(a, ast.Assign):
            for t in a.targets:
                if isinstance(t, ast.Name) and t.id == nme:
                    return a.value
                if isinstance(t, (ast.Tuple, ast.List)):
                    flat = list(t.elts)
                    if any(isinstance(x, ast.Name) and x.id == nme for x in flat):
                        pos_ = [k for k, x in enumerate(flat) if isinstance(x, ast.Name) and x.id == nme][0]
                        if isinstance(a.value, (ast.Tuple, ast.List)) and len(a.value.elts) == len(flat) \
                                and not any(isinstance(x, ast.Starred) for x in flat + list(a.value.elts)):
                            return a.value.elts[pos_]
                        # position k of what is unpacked (a row of an array; the k-th value a helper hands back)
                        return ast.Subscript(a.value, ast.Constant(pos_), ast.Load())
            return None
        if isinstance(a, ast.AnnAssign) and isinstance(a.target, ast.Name) and a.target.id == nme:
            return a.value
        if isinstance(a, ast.AugAssign) and isinstance(a.target, ast.Name) and a.target.id == nme:
            return ast.BinOp(ast.Name(nme, ast.Load()), a.op, a.value)
        for sub in ast.walk(a) if a is not None else []:
            if isinstance(sub, ast.NamedExpr) and isinstance(sub.target, ast.Name) and sub.target.id == nme:
                return sub.value
        return None

    def name_definite(self, nme: str, at: int) -> bool:
        ds = self.rd.get(at, {}).get(nme)
        if not ds:
            return False
        flags = []
        for d in sorted(ds):
            key = (nme, d)
            if key not in self._memo:
                if d == self.cfg.entry.id:
                    self._memo[key] = nme in self.array_params
                else:
                    self._memo[key] = True   # a loop-carried definition (`S = S[keep]`) is as definite as what enters the loop
                    v = self._value_of(nme, d)
                    if v is None:
                        self._memo[key] = False
                    elif self.literal_ints(v):
                        self._memo[key] = None   # a placeholder written with integer literals: no conversion, another path
                    else:
                        self._memo[key] = self.definite(v, d)
            flags.append(self._memo[key])
        real = [x for x in flags if x is not None]
        return bool(real) and all(real)

    def definite(self, e, at: Optional[int] = None, depth=0) -> bool:
        if e is None or depth > 10:
            return False
        if at is None:
            at = self.node_id(e)
            if at is None:
                return False
        if isinstance(e, ast.Name):
            if e.id in getattr(self, "_comp_vars", ()):
                return True
            return self.name_definite(e.id, at)
        if isinstance(e, (ast.ListComp, ast.GeneratorExp)) and len(e.generators) == 1 and isinstance(e.generators[0].target, ast.Name):
            # [list(bar) for bar in A]: the rows / elements of a definite array, re-packed without conversion
            g = e.generators[0]
            if not self.definite(g.iter, at, depth + 1):
                return False
            saved = getattr(self, "_comp_vars", frozenset())
            self._comp_vars = saved | {g.target.id}
            try:
                return self.definite(e.elt, at, depth + 1)
            finally:
                self._comp_vars = saved
        if isinstance(e, (ast.List, ast.Tuple)) and e.elts:
            return all(self.definite(x, at, depth + 1) for x in e.elts)
        if isinstance(e, ast.Subscript) and isinstance(e.value, ast.Call) and isinstance(e.slice, ast.Constant) \
                and isinstance(e.slice.value, int) and self.p.functions.get(self.res(e.value.func) or "") is not None:
            return self._helper_returns_definite(e.value, e.slice.value, at, depth)
        if isinstance(e, ast.Subscript):
            return self.definite(e.value, at, depth + 1)
        if isinstance(e, ast.Attribute) and e.attr == "T":
            return self.definite(e.value, at, depth + 1)
        if isinstance(e, ast.Attribute) and isinstance(e.value, ast.Name) and e.value.id == "self" and self.fi.cls is not None \
                and "self" not in self.rd.get(at, {}).get("self", {"x"}) and e.attr not in ("shape", "size", "ndim", "dtype"):
            # an attribute of the object: caller-typed when EVERY store to it in the class hierarchy puts a definite value there
            # (and the method has not written into it here before this use — a store `self.x = float array` re-types it)
            return _attr_definite(self.p, self.fi.cls, e.attr) and not self._attr_stored_in(e.attr)
        if isinstance(e, ast.UnaryOp) and isinstance(e.op, (ast.USub, ast.UAdd)):
            return self.definite(e.operand, at, depth + 1)
        if isinstance(e, ast.BinOp) and isinstance(e.op, (ast.Add, ast.Sub, ast.Mult)):
            l, r = self.definite(e.left, at, depth + 1), self.definite(e.right, at, depth + 1)
            return (l and (r or self.intlit(e.right))) or (r and self.intlit(e.left))
        if isinstance(e, ast.IfExp):
            return self.definite(e.body, at, depth + 1) and self.definite(e.orelse, at, depth + 1)
        if isinstance(e, ast.Call):
            t = self.res(e.func)
            if t in KEEP_FUNCS and e.args and not _has_dtype(e):
                if t in ("numpy.maximum", "numpy.minimum", "numpy.subtract", "numpy.add", "numpy.multiply") and len(e.args) >= 2:
                    return all(self.definite(a, at, depth + 1) or self.intlit(a) for a in e.args[:2]) \
                        and any(self.definite(a, at, depth + 1) for a in e.args[:2])
                first = e.args[0]
                if isinstance(first, (ast.Tuple, ast.List)):
                    return bool(first.elts) and all(self.definite(x, at, depth + 1) for x in first.elts)
                return self.definite(first, at, depth + 1)
            if t in ("builtins.list", "builtins.sorted", "builtins.tuple", "builtins.reversed") and e.args:
                return self.definite(e.args[0], at, depth + 1)
            if t is not None and t in self.p.functions:
                return self._helper_returns_definite(e, None, at, depth)
            if isinstance(e.func, ast.Attribute) and t is None:
                if e.func.attr in KEEP_DTYPE_METHODS | {"pop", "take", "compress"} and not _has_dtype(e):
                    return self.definite(e.func.value, at, depth + 1)
        return False

    def _helper_returns_definite(self, call: ast.Call, k, at, depth) -> bool:
        """a helper of the package hands back (as its value, or as position k of the tuple it returns) an array that still has
        the dtype of an argument — and that argument is definite here.  Decided on the helper with exactly the parameters that
        receive definite arguments taken as array parameters; every `return` must agree."""
        if depth > 6:
            return False
        g = self.p.functions.get(self.res(call.func) or "")
        if g is None or not isinstance(g.node, (ast.FunctionDef, ast.AsyncFunctionDef)) or g.cls is not None:
            return False
        if any(isinstance(x, ast.Starred) for x in call.args) or any(kw.arg is None for kw in call.keywords):
            return False
        if any(isinstance(y, (ast.Yield, ast.YieldFrom)) for y in ast.walk(g.node)):
            return False
        pn = [x.arg for x in g.node.args.posonlyargs + g.node.args.args]
        given = {nme for nme, e_ in list(zip(pn, call.args)) + [(kw.arg, kw.value) for kw in call.keywords]
                 if self.definite(e_, at, depth + 1)}
        if not given:
            return False
        # an explicit dtype handed to the helper (dtype=float) may be what it converts with: a parameter named like a dtype
        # that receives something is left to the helper's own text (np.array(x, dtype=dtype) is not a dtype-keeping copy)
        key = (g.qualname, tuple(sorted(given)), k)
        memo = self.p.__dict__.setdefault("_ia_helper_memo", {})
        if key in memo:
            return memo[key]
        memo[key] = False
        G = _Fn(self.p, g, given)
        rets = [r for r in ast.walk(g.node) if isinstance(r, ast.Return) and id(r) not in G.inner]
        ok = bool(rets)
        for r in rets:
            v = r.value
            if v is None:
                ok = False
                break
            if k is not None:
                if isinstance(v, ast.Tuple) and k < len(v.elts):
                    v = v.elts[k]
                else:
                    ok = False
                    break
            if not G.definite(v):
                ok = False
                break
        memo[key] = ok
        return ok

    def _attr_stored_in(self, attr: str) -> bool:
        return any(isinstance(t, ast.Attribute) and isinstance(t.value, ast.Name) and t.value.id == "self" and t.attr == attr
                   for n in ast.walk(self.f) if isinstance(n, (ast.Assign, ast.AugAssign, ast.AnnAssign))
                   for t in (n.targets if isinstance(n, ast.Assign) else [n.target]))

    def roots(self, e, at: Optional[int] = None, depth=0) -> Set[str]:
        if at is None:
            at = self.node_id(e)
        out: Set[str] = set()
        if at is None or depth > 8:
            return out
        for x in ast.walk(e):
            if isinstance(x, ast.Name) and isinstance(x.ctx, ast.Load):
                for d in sorted(self.rd.get(at, {}).get(x.id, ())):
                    key = (x.id, d)
                    if key in self._rmemo:
                        out |= self._rmemo[key]
                        continue
                    self._rmemo[key] = set()
                    if d == self.cfg.entry.id:
                        r = {x.id} if x.id in self.array_params else set()
                    else:
                        v = self._value_of(x.id, d)
                        r = self.roots(v, d, depth + 1) if v is not None else set()
                    self._rmemo[key] = r
                    out |= r
        return out


_ATTR: Dict[tuple, bool] = {}


def _attr_definite(project: Project, cls, attr: str) -> bool:
    key = (id(project), cls.qualname, attr)
    if key in _ATTR:
        return _ATTR[key]
    _ATTR[key] = False
    family = [c for c in project.classes.values() if cls.qualname in {k.qualname for k in c.mro(project)}
              or c.qualname in {k.qualname for k in cls.mro(project)}]
    n_stores = 0
    ok = True
    for c in family:
        for m in c.methods.values():
            if not isinstance(m.node, (ast.FunctionDef, ast.AsyncFunctionDef)):
                continue
            stores = [n for n in ast.walk(m.node) if isinstance(n, (ast.Assign, ast.AugAssign, ast.AnnAssign)) and any(
                isinstance(t, ast.Attribute) and isinstance(t.value, ast.Name) and t.value.id == "self" and t.attr == attr
                for t in (n.targets if isinstance(n, ast.Assign) else [n.target]))]
            if not stores:
                continue
            ctx = _Fn(project, m, array_params_of(project, m))
            for st in stores:
                n_stores += 1
                if not isinstance(st, ast.Assign) or len(st.targets) != 1 or not ctx.definite(st.value):
                    ok = False
    # somebody outside the class writing the attribute makes it anybody's
    for g in project.functions.values():
        if g.cls is not None and g.cls in family:
            continue
        for n in ast.walk(g.node):
            if isinstance(n, ast.Attribute) and n.attr == attr and isinstance(n.ctx, ast.Store) \
                    and not (g.cls is not None and isinstance(n.value, ast.Name) and n.value.id == "self"):
                ok = False   # (another class writing its OWN attribute of that name is not this object's)
    _ATTR[key] = bool(n_stores) and ok
    return _ATTR[key]


def array_params_of(project: Project, fi: FunctionInfo, stack=()) -> Set[str]:
    """the parameters of `fi` that certainly hold an array in the caller's dtype (see the module docstring)"""
    f = fi.node
    if not isinstance(f, (ast.FunctionDef, ast.AsyncFunctionDef)):
        return set()
    a = f.args
    pos = a.posonlyargs + a.args
    defaults = dict(zip([x.arg for x in pos[len(pos) - len(a.defaults):]], a.defaults))
    defaults.update({x.arg: d for x, d in zip(a.kwonlyargs, a.kw_defaults) if d is not None})
    names = [x.arg for x in pos + a.kwonlyargs if x.arg not in ("self", "cls")]
    names = [p for p in names if not (p in defaults and isinstance(defaults[p], ast.Constant) and defaults[p].value is not None)]
    locs = local_names(f)
    res = lambda fn: project.resolve(fi.module, fn, locs)
    if exported(project, fi):
        return {p for p in names if _array_used(f, p, res, project) or _documented_array(fi, p)}
    if fi.qualname in stack or len(stack) > 4:
        return set()
    sites = _call_sites(project, fi)
    if not sites:
        return set()
    # a helper that is also handed around as a value may receive anything
    for g in project.functions.values():
        for n in ast.walk(g.node):
            if isinstance(n, ast.Name) and n.id == fi.name and isinstance(n.ctx, ast.Load) \
                    and not any(isinstance(c, ast.Call) and c.func is n for c in ast.walk(g.node)):
                return set()
    pnames = [x.arg for x in pos]
    if fi.cls is not None and fi.kind != "staticmethod" and pnames:
        pnames = pnames[1:]
    sure: Optional[Set[str]] = None
    for g, c in sites:
        if any(isinstance(x, ast.Starred) for x in c.args) or any(k.arg is None for k in c.keywords):
            return set()
        ctx = _Fn(project, g, array_params_of(project, g, stack + (fi.qualname,)))
        if id(c) in ctx.inner:
            return set()
        here = {nme for nme, e in list(zip(pnames, c.args)) + [(k.arg, k.value) for k in c.keywords] if ctx.definite(e)}
        sure = here if sure is None else (sure & here)
    return {p for p in (sure or set()) if p in names}


def analyse(project: Project, fi: FunctionInfo) -> List[dict]:
    ap = array_params_of(project, fi)
    reads_self = fi.cls is not None and exported(project, fi) and any(
        isinstance(n, ast.Attribute) and isinstance(n.value, ast.Name) and n.value.id == "self" for n in ast.walk(fi.node))
    if not ap and not reads_self:
        return []
    F = _Fn(project, fi, ap)
    hits = []
    for n in ast.walk(fi.node):
        if not isinstance(n, ast.BinOp) or id(n) in F.inner:
            continue
        txt = ast.unparse(n)[:90]
        if isinstance(n.op, ast.Sub) and F.definite(n.left) and F.definite(n.right):
            r1, r2 = F.roots(n.left), F.roots(n.right)
            if r1 and r2 and not (r1 & r2):
                hits.append(dict(node=n, kind="sub", why=f"`{txt}` subtracts one of the caller's arrays (`{sorted(r2)[0]}`) from another "
                                 f"(`{sorted(r1)[0]}`) in their own dtype: for unsigned integers the difference wraps around"))
        elif isinstance(n.op, ast.Mult) and F.definite(n.left) and F.definite(n.right):
            hits.append(dict(node=n, kind="mul", why=f"`{txt}` multiplies two quantities that still have the dtype of the caller's "
                             f"arrays: in a narrow integer type (uint8, int16) the product overflows"))
        elif isinstance(n.op, ast.Pow) and F.definite(n.left) and F.intlit(n.right) and getattr(n.right, "value", 2) >= 2:
            hits.append(dict(node=n, kind="pow", why=f"`{txt}` raises a quantity that still has the dtype of the caller's arrays to an "
                             f"integer power: in a narrow integer type (uint8, int16) the power overflows"))
        elif isinstance(n.op, ast.Add) and F.definite(n.left) and F.definite(n.right):
            hits.append(dict(node=n, kind="add", why=f"`{txt}` adds two quantities that still have the dtype of the caller's arrays: in "
                             f"a narrow integer type the sum wraps around (uint8: 100 + 200 is 44)"))
    return hits


def run_on(project: Project, rep, rule: str):
    n_fn = n_arr = 0
    for q, fi in sorted(project.functions.items()):
        if fi.parent is not None or not isinstance(fi.node, (ast.FunctionDef, ast.AsyncFunctionDef)):
            continue
        ap = array_params_of(project, fi)
        hs = analyse(project, fi)   # (a method may read a caller-typed attribute of the object without any array parameter)
        if not ap and not hs:
            continue
        n_fn += 1
        n_arr += len(ap)
        for h in hs:
            rep.refuted(rule, fi, h["node"],
                        h["why"] + " — the same numbers given as floats or as nested lists give another result",
                        construct=f"{fi.qualname}: {ast.unparse(h['node'])[:100]}")
        if not hs:
            rep.discharged(rule, fi, fi.node, f"array parameters {sorted(ap)}: no difference of two caller arrays, product, power or sum "
                                              f"is formed while the operands still have the caller's dtype")
    return n_fn, n_arr
