"""IX-BOUND — a count table indexed by `bound - value` is only in range when `bound` is at least the largest value.

`represent_distance_matrix_rows_as_distributions(D, max_d)` (found here by its shape, not by its name) allocates `max_d + 1`
columns and writes at column `max_d - distance` for every distance in `D`.  numpy wraps a negative column index round to the
other end instead of failing, so a `max_d` smaller than an entry of `D` silently moves that distance's count into another
column: the lower-bound search then "confirms" bounds that do not hold, and the bracket returned for the distance is not one.

What is decided is the structural part: *where the bound comes from*.  For every call path that reaches the table builder the
two arguments are expanded backwards — through local definitions (reaching definitions on the CFG), through parameters into
the callers' arguments, through helper returns, through object fields (a NamedTuple's fields, or the single store of an
attribute in `__init__`) — into terms over the matrices at the top of the path:

    matrix term     the matrices whose entries the argument's entries are taken from  (M, M[...], np.delete(M, ...), M.copy(),
                    a helper that returns one of these; alternatives when several definitions reach)
    bound term      max(...) / np.maximum of bound terms,  np.max(M) / M.max() / np.amax(M)  (covers M),  int()/astype()/+k of a
                    bound term; alternatives must all cover

    discharged      every matrix the table may be built from is covered by the bound
    refuted         both terms are fully resolved and some matrix is not covered — the construct reported is the call site at
                    which the uncovered bound is handed over
    undecided       a term is not resolved (an unknown call, an attribute stored in several places, …): no verdict

Nothing is executed; the rule does not claim the bounds are *tight* or the search correct, only that no count can wrap.
"""
from __future__ import annotations

import ast
from typing import Dict, List, Optional, Tuple

from ..core.cfg import CFG

MAXF = {"max", "amax", "nanmax"}
VIEWS = {"delete", "copy", "array", "asarray", "asanyarray", "ascontiguousarray", "triu", "tril", "transpose", "sort", "abs",
         "absolute", "unique", "ravel", "flatten", "reshape", "squeeze", "take", "compress", "diagonal", "real", "flip", "roll"}
KEEP = {"int", "float", "abs"}    # value-preserving for a non-negative integer bound
DEPTH = 60


class _Ctx:
    def __init__(self, project, module):
        self.project = project
        self.module = module
        self.cfgs: Dict[str, CFG] = {}
        self.callers: Dict[str, list] = {}
        self.notes: List[str] = []

    def cfg(self, fi):
        c = self.cfgs.get(fi.qualname)
        if c is None:
            c = self.cfgs[fi.qualname] = CFG(fi.node)
        return c


# ------------------------------------------------------------------------------------------------ terms
# ("P", qualname, name)      parameter at the top of the chain (a matrix / a number handed in)
# ("amax", T) ("maxof", [T]) ("alt", [T]) ("sub", T) ("keep", T) ("const", v) ("unk", text) ("cycle",)
# ("nt", clsqual, {field: T})       NamedTuple value
# ("self", clsqual, frame)          instance; attributes resolved through the class's single store in __init__


def _unk(text):
    return ("unk", text[:70])


def _alts(ts):
    ts = [t for t in ts if t[0] != "cycle" and not (t[0] == "sub" and t[1][0] == "cycle")] or [("cycle",)]
    flat = []
    for t in ts:
        for x in (t[1] if t[0] == "alt" else [t]):
            if x not in flat:
                flat.append(x)
    return flat[0] if len(flat) == 1 else ("alt", flat)


class Frame:
    """one function activation in a call chain: its info, the bindings of its parameters (terms), and `self`"""

    def __init__(self, fi, env=None, self_term=None):
        self.fi = fi
        self.env = env or {}
        self.self_term = self_term


def expand(cx: _Ctx, e, fr: Frame, depth=0, seen=frozenset()) -> tuple:
    if depth > DEPTH:
        return _unk("too deep")
    key = (fr.fi.qualname, id(e), id(fr))
    if key in seen:
        return ("cycle",)
    seen = seen | {key}
    P = cx.project
    if isinstance(e, ast.Constant):
        return ("const", e.value)
    if isinstance(e, ast.Name):
        return _name(cx, e, fr, depth, seen)
    if isinstance(e, ast.IfExp):
        return _alts([expand(cx, e.body, fr, depth + 1, seen), expand(cx, e.orelse, fr, depth + 1, seen)])
    if isinstance(e, ast.Subscript):
        b = expand(cx, e.value, fr, depth + 1, seen)
        if b[0] == "nt" and isinstance(e.slice, ast.Constant) and isinstance(e.slice.value, int):
            vals = list(b[2].values())
            return vals[e.slice.value] if -len(vals) <= e.slice.value < len(vals) else _unk("index")
        return ("sub", b) if b[0] not in ("unk", "const") else _unk(ast.unparse(e))
    if isinstance(e, ast.BinOp) and isinstance(e.op, ast.Add):
        for a, b in ((e.left, e.right), (e.right, e.left)):
            if isinstance(b, ast.Constant) and isinstance(b.value, (int, float)) and not isinstance(b.value, bool) and b.value >= 0:
                return ("keep", expand(cx, a, fr, depth + 1, seen))
        return _unk(ast.unparse(e))
    if isinstance(e, ast.Attribute):
        if e.attr == "T":
            return ("sub", expand(cx, e.value, fr, depth + 1, seen))
        b = expand(cx, e.value, fr, depth + 1, seen)
        return _attr(cx, b, e.attr, depth, seen, ast.unparse(e))
    if isinstance(e, ast.Call):
        return _call(cx, e, fr, depth, seen)
    return _unk(ast.unparse(e))


def _attr(cx, b, attr, depth, seen, text):
    if b[0] == "alt":
        return _alts([_attr(cx, x, attr, depth, seen, text) for x in b[1]])
    if b[0] == "nt":
        return b[2].get(attr, _unk(text))
    if b[0] in ("P", "pa"):
        return ("pa", b, attr)      # a field of an object handed in: open until the caller is looked at
    if b[0] == "self":
        cls = cx.project.classes.get(b[1])
        if cls is None:
            return _unk(text)
        stores = []
        for c in cls.mro(cx.project):
            for m in c.methods.values():
                if not m.node.args.args:
                    continue
                me = m.node.args.args[0].arg
                for n in ast.walk(m.node):
                    tg = []
                    if isinstance(n, ast.Assign):
                        tg = [t for t0 in n.targets for t in (t0.elts if isinstance(t0, (ast.Tuple, ast.List)) else [t0])]
                    elif isinstance(n, (ast.AugAssign, ast.AnnAssign)):
                        tg = [n.target]
                    for t in tg:
                        if isinstance(t, ast.Attribute) and t.attr == attr and isinstance(t.value, ast.Name) and t.value.id == me:
                            stores.append((m, n))
        if len(stores) != 1 or stores[0][0].name != "__init__" or not isinstance(stores[0][1], ast.Assign) \
                or len(stores[0][1].targets) != 1 or not isinstance(stores[0][1].targets[0], ast.Attribute):
            return _unk(f"{text}: stored in {len(stores)} places")
        m, n = stores[0]
        init_fr = b[2] if b[2] is not None and b[2].fi.qualname == m.qualname else Frame(m, {}, None)
        if init_fr.self_term is None:
            init_fr.self_term = ("self", b[1], init_fr)
        return expand(cx, n.value, init_fr, depth + 1, seen)
    return _unk(text)


def _name(cx, e, fr, depth, seen):
    fi = fr.fi
    a = fi.node.args
    pnames = [x.arg for x in a.posonlyargs + a.args + a.kwonlyargs]
    cfg = cx.cfg(fi)
    try:
        defs = cfg.defs_reaching(e, e.id)
    except Exception:
        defs = None
    if defs is None:
        return _unk(e.id)
    out = []
    for d in defs:
        if d.id == cfg.entry.id:
            if e.id in pnames:
                if fi.cls is not None and pnames and e.id == pnames[0] and fi.kind not in ("staticmethod",):
                    out.append(fr.self_term or ("self", fi.cls.qualname, None))
                elif e.id in fr.env:
                    out.append(fr.env[e.id])
                else:
                    out.append(("P", fi.qualname, e.id))
            else:
                out.append(_unk(e.id))
            continue
        st = d.ast
        if isinstance(st, ast.Assign) and len(st.targets) == 1 and isinstance(st.targets[0], ast.Name):
            out.append(expand(cx, st.value, fr, depth + 1, seen))
        elif isinstance(st, ast.Assign) and len(st.targets) > 1 and all(isinstance(t, ast.Name) for t in st.targets):
            out.append(expand(cx, st.value, fr, depth + 1, seen))
        elif isinstance(st, ast.Assign) and len(st.targets) == 1 and isinstance(st.targets[0], (ast.Tuple, ast.List)) \
                and isinstance(st.value, (ast.Tuple, ast.List)) and len(st.value.elts) == len(st.targets[0].elts):
            hit = [v for t, v in zip(st.targets[0].elts, st.value.elts) if isinstance(t, ast.Name) and t.id == e.id]
            out.append(expand(cx, hit[0], fr, depth + 1, seen) if hit else _unk(e.id))
        elif isinstance(st, ast.AnnAssign) and st.value is not None and isinstance(st.target, ast.Name):
            out.append(expand(cx, st.value, fr, depth + 1, seen))
        elif isinstance(st, ast.AugAssign) and isinstance(st.target, ast.Name):
            out.append(_unk(f"{e.id} {type(st.op).__name__}= …"))
        else:
            out.append(_unk(f"{e.id} bound by {type(st).__name__}"))
    if not out:
        # a module-level name
        g = fi.module.globals.get(e.id)
        return _unk(e.id) if g is None else _unk(f"global {e.id}")
    return _alts(out)


def _bind(callee, call: ast.Call, argterm, skip_self=False):
    a = callee.node.args
    names = [x.arg for x in a.posonlyargs + a.args]
    if skip_self:
        names = names[1:]
    env = {}
    for k, x in enumerate(call.args):
        if isinstance(x, ast.Starred) or k >= len(names):
            return None
        env[names[k]] = argterm(x)
    for kw in call.keywords:
        if kw.arg is None:
            return None
        env[kw.arg] = argterm(kw.value)
    return env


def _is_namedtuple(cls):
    return any(b.rsplit(".", 1)[-1] == "NamedTuple" for b in cls.bases) or any(
        isinstance(b, (ast.Name, ast.Attribute)) and ast.unparse(b).endswith("NamedTuple") for b in cls.node.bases)


def _returns(cx, callee, fr2, depth, seen):
    rets = [n for n in ast.walk(callee.node) if isinstance(n, ast.Return) and n.value is not None]
    own = []
    for r in rets:
        # not those of nested functions
        inner = any(r in ast.walk(f) for f in ast.walk(callee.node) if isinstance(f, (ast.FunctionDef, ast.Lambda)) and f is not callee.node)
        if not inner:
            own.append(r)
    if not own:
        return _unk(f"{callee.name} returns nothing")
    return _alts([expand(cx, r.value, fr2, depth + 1, seen) for r in own])


def _call(cx, e: ast.Call, fr: Frame, depth, seen):
    P = cx.project
    f = e.func
    arg = lambda x: expand(cx, x, fr, depth + 1, seen)
    text = ast.unparse(e)
    # -- numpy / builtins
    tgt = P.resolve(fr.fi.module, f, ()) if isinstance(f, (ast.Name, ast.Attribute)) else None
    last = f.attr if isinstance(f, ast.Attribute) else (f.id if isinstance(f, ast.Name) else "")
    is_np = bool(tgt) and tgt.split(".")[0] == "numpy"
    local = isinstance(f, ast.Name) and any(True for _ in ())  # placeholder
    if isinstance(f, ast.Name) and f.id == "max" and tgt in (None, "builtins.max") and not e.keywords:
        if len(e.args) == 1:
            return ("amax", arg(e.args[0]))
        return ("maxof", [arg(x) for x in e.args])
    if is_np and last in MAXF and e.args:
        return ("amax", arg(e.args[0]))
    if is_np and last == "maximum" and len(e.args) == 2:
        return ("maxof", [arg(e.args[0]), arg(e.args[1])])
    if is_np and last in VIEWS and e.args:
        return ("sub", arg(e.args[0]))
    if isinstance(f, ast.Name) and f.id in KEEP and tgt in (None, f"builtins.{f.id}") and len(e.args) == 1:
        return ("keep", arg(e.args[0]))
    if is_np and last in ("int8", "int16", "int32", "int64", "uint8", "uint16", "uint32", "uint64", "int_", "intp") and len(e.args) == 1:
        return ("keep", arg(e.args[0]))
    # -- repository callables
    callee = P.functions.get(P.canonical(tgt)) if tgt else None
    kls = P.classes.get(P.canonical(tgt)) if tgt else None
    if kls is not None:
        if _is_namedtuple(kls):
            fields = [s.target.id for s in kls.node.body if isinstance(s, ast.AnnAssign) and isinstance(s.target, ast.Name)]
            vals = {}
            for k, x in enumerate(e.args):
                if k < len(fields):
                    vals[fields[k]] = arg(x)
            for kw in e.keywords:
                if kw.arg:
                    vals[kw.arg] = arg(kw.value)
            return ("nt", kls.qualname, {k: vals.get(k, _unk(k)) for k in fields})
        init = kls.lookup("__init__", P)
        if init is None:
            return ("self", kls.qualname, None)
        env = _bind(init, e, arg, skip_self=True)
        fr2 = Frame(init, env or {}, None)
        fr2.self_term = ("self", kls.qualname, fr2)
        return fr2.self_term
    if callee is not None and isinstance(callee.node, ast.FunctionDef):
        env = _bind(callee, e, arg)
        if env is None:
            return _unk(text)
        return _returns(cx, callee, Frame(callee, env, None), depth, seen)
    if isinstance(f, ast.Attribute):
        recv = arg(f.value)
        if recv[0] == "self":
            kls = P.classes.get(recv[1])
            m = kls.lookup(f.attr, P) if kls is not None else None
            if m is not None and isinstance(m.node, ast.FunctionDef):
                env = _bind(m, e, arg, skip_self=True)
                if env is None:
                    return _unk(text)
                return _returns(cx, m, Frame(m, env, recv), depth, seen)
        if f.attr in MAXF and not e.args and recv[0] not in ("unk", "const"):
            return ("amax", recv)
        if f.attr in ("copy", "astype", "view", "ravel", "flatten", "reshape", "squeeze", "transpose", "take", "toarray", "todense") \
                and recv[0] not in ("unk", "const"):
            return ("sub", recv) if f.attr != "astype" else ("keep", recv)
        if f.attr == "item" and not e.args:
            return ("keep", recv)
    return _unk(text)


# ------------------------------------------------------------------------------------------------ deciding
def roots(t) -> Tuple[set, list]:
    """(matrices the value's entries come from, unresolved parts)"""
    k = t[0]
    if k in ("P", "pa"):
        return {t}, []
    if k in ("sub", "keep"):
        return roots(t[1])
    if k == "alt":
        r, u = set(), []
        for x in t[1]:
            r2, u2 = roots(x)
            r |= r2
            u += u2
        return r, u
    if k == "cycle":
        return set(), []
    return set(), [t]


def covered(t) -> Tuple[set, list]:
    """(matrices all of whose entries the value is at least as large as, unresolved parts)"""
    k = t[0]
    if k == "amax":
        r, u = roots(t[1])
        # the largest entry of "one of A or B" is only known to cover both when it is a single matrix
        return (r if len(r) == 1 else set()), u
    if k == "maxof":
        r, u = set(), []
        for x in t[1]:
            r2, u2 = covered(x)
            r |= r2
            u += u2
        return r, u
    if k == "keep":
        return covered(t[1])
    if k == "alt":
        rs, u = [], []
        for x in t[1]:
            r2, u2 = covered(x)
            rs.append(r2)
            u += u2
        return (set.intersection(*rs) if rs else set()), u
    if k == "const":
        return set(), []
    return set(), [t]


def _base(t):
    while t[0] == "pa":
        t = t[1]
    return t


def _open(t, top) -> bool:
    """a parameter of the function at the top of the chain (or a field of one): its value is at the callers"""
    b = _base(t)
    return t[0] in ("P", "pa") and b[0] == "P" and b[1] == top.qualname


def show(t) -> str:
    k = t[0]
    if k == "P":
        return f"{t[1].rsplit('.', 1)[-1]}:{t[2]}"
    if k == "pa":
        return f"{show(t[1])}.{t[2]}"
    if k == "amax":
        return f"max({show(t[1])})"
    if k == "maxof":
        return "max(" + ", ".join(show(x) for x in t[1]) + ")"
    if k == "alt":
        return "{" + " | ".join(show(x) for x in t[1]) + "}"
    if k == "sub":
        return f"part({show(t[1])})"
    if k == "keep":
        return show(t[1])
    if k == "const":
        return repr(t[1])
    if k == "unk":
        return f"?{t[1]}"
    return k


# ------------------------------------------------------------------------------------------------ sinks and call sites
def find_sinks(project, modname) -> list:
    """functions that allocate `b + c` columns and index with `b - <something derived from another parameter>`:
    [(fi, matrix parameter names, bound parameter name)]"""
    out = []
    for q, fi in sorted(project.functions.items()):
        if fi.module.name != modname or not isinstance(fi.node, ast.FunctionDef):
            continue
        a = fi.node.args
        ps = [x.arg for x in a.posonlyargs + a.args]
        deps: Dict[str, set] = {}
        for n in ast.walk(fi.node):
            if isinstance(n, ast.Assign):
                names = {x.id for x in ast.walk(n.value) if isinstance(x, ast.Name)}
                for t in n.targets:
                    for x in ast.walk(t):
                        if isinstance(x, ast.Name):
                            deps.setdefault(x.id, set()).update(names)

        def closure(names):
            seen_, todo = set(), list(names)
            while todo:
                x = todo.pop()
                if x in seen_:
                    continue
                seen_.add(x)
                todo += list(deps.get(x, ()))
            return seen_
        for b in ps:
            alloc = any(isinstance(n, ast.Call) and isinstance(n.func, ast.Attribute) and n.func.attr in ("zeros", "empty", "full", "ones")
                        and n.args and any(isinstance(x, ast.BinOp) and isinstance(x.op, ast.Add) and any(
                            isinstance(o_, ast.Name) and o_.id == b for o_ in (x.left, x.right)) for x in ast.walk(n.args[0]))
                        for n in ast.walk(fi.node))
            subs = [n for n in ast.walk(fi.node) if isinstance(n, ast.BinOp) and isinstance(n.op, ast.Sub)
                    and isinstance(n.left, ast.Name) and n.left.id == b]
            if not (alloc and subs):
                continue
            ms = set()
            for s in subs:
                ms |= closure({x.id for x in ast.walk(s.right) if isinstance(x, ast.Name)}) & (set(ps) - {b})
            if ms:
                out.append((fi, sorted(ms), b))
    return out


def call_sites(cx: _Ctx, target) -> list:
    """[(caller fi, call node, receiver term or None)] for the calls in the module that resolve to `target`"""
    got = cx.callers.get(target.qualname)
    if got is not None:
        return got
    got = []
    P = cx.project
    for q, g in sorted(P.functions.items()):
        if g.module.name != cx.module or not isinstance(g.node, ast.FunctionDef):
            continue
        for n in ast.walk(g.node):
            if not isinstance(n, ast.Call):
                continue
            f = n.func
            last = f.attr if isinstance(f, ast.Attribute) else (f.id if isinstance(f, ast.Name) else None)
            if last != target.name:
                continue
            # the call belongs to g itself, not to a function nested in g
            if any(n in ast.walk(h) for h in ast.walk(g.node) if isinstance(h, (ast.FunctionDef, ast.Lambda)) and h is not g.node):
                continue
            tgt = P.resolve(g.module, f, ()) if isinstance(f, (ast.Name, ast.Attribute)) else None
            if tgt and P.canonical(tgt) == target.qualname:
                got.append((g, n, None))
                continue
            if isinstance(f, ast.Attribute) and target.cls is not None:
                recv = expand(cx, f.value, Frame(g, {}, None))
                for x in (recv[1] if recv[0] == "alt" else [recv]):
                    if x[0] == "self":
                        kls = P.classes.get(x[1])
                        m = kls.lookup(target.name, P) if kls is not None else None
                        if m is not None and m.qualname == target.qualname:
                            got.append((g, n, f.value))
                            break
    cx.callers[target.qualname] = got
    return got


def _arg_of(callee, call: ast.Call, pname: str, method: bool):
    a = callee.node.args
    names = [x.arg for x in a.posonlyargs + a.args]
    if method:
        names = names[1:]
    for kw in call.keywords:
        if kw.arg == pname:
            return kw.value
    if pname in names:
        k = names.index(pname)
        if k < len(call.args) and not any(isinstance(x, ast.Starred) for x in call.args[:k + 1]):
            return call.args[k]
    return None


def analyse(project, modname="persim.gromov_hausdorff", limit=200):
    """-> (sinks, results); a result is dict(verdict, chain=[(fi, call)], matrix, bound, why, site)"""
    cx = _Ctx(project, modname)
    sinks = find_sinks(project, modname)
    results = []
    for sink, mparams, b in sinks:
        for m in mparams:
            # chains: bottom-up lists of (function, call node in it that leads down)
            work = [[(g, c, r)] for g, c, r in call_sites(cx, sink)]
            if not work:
                results.append({"verdict": "undecided", "why": f"no call of {sink.name} found in {modname}", "sink": sink,
                                "chain": [], "site": None})
            n_done = 0
            while work and n_done < limit:
                chain = work.pop()
                n_done += 1
                res = _decide(cx, sink, m, b, chain)
                if res["verdict"] == "climb":
                    top = chain[-1][0]
                    ups = call_sites(cx, top)
                    ups = [u for u in ups if all(u[0].qualname != c[0].qualname for c in chain)]
                    if ups:
                        work += [chain + [u] for u in ups]
                        continue
                    if res.get("resolved") and not top.name.startswith("_"):
                        res["verdict"] = "refuted"
                        res["why"] = res["why_refuted"]
                        results.append(res)
                        continue
                    res["verdict"] = "undecided"
                    res["why"] = (f"the bound handed to {sink.name} is a parameter of {top.qualname}, which nothing in the module calls: "
                                  f"{res['why']}")
                results.append(res)
    return sinks, results


def _frames(cx, sink, chain):
    """Frame objects top-down for a bottom-up chain; returns the frame of chain[0] (the function holding the sink call)"""
    fr = None
    prev = None
    for g, call, recv in reversed(chain):
        if prev is None:
            fr = Frame(g, {}, None)
        else:
            pg, pcall, precv, pfr = prev
            is_m = g.cls is not None and g.kind not in ("staticmethod",) and (precv is not None or not isinstance(pcall.func, ast.Name))
            self_term = None
            if precv is not None:
                self_term = expand(cx, precv, pfr)
            env = _bind(g, pcall, lambda x, _f=pfr: expand(cx, x, _f), skip_self=is_m and precv is not None) or {}
            fr = Frame(g, env, self_term)
        prev = (g, call, recv, fr)
    return fr


def _decide(cx, sink, m, b, chain):
    g, call, recv = chain[0]
    fr = _frames(cx, sink, chain)
    am = _arg_of(sink, call, m, method=sink.cls is not None and recv is not None)
    ab = _arg_of(sink, call, b, method=sink.cls is not None and recv is not None)
    base = {"sink": sink, "chain": chain, "site": (g, call)}
    if am is None or ab is None:
        return dict(base, verdict="undecided", why=f"arguments of `{ast.unparse(call)[:60]}` not matched to ({m}, {b})")
    tm = expand(cx, am, fr)
    tb = expand(cx, ab, fr)
    need, um = roots(tm)
    have, ub = covered(tb)
    base.update(matrix=show(tm), bound=show(tb))
    top = chain[-1][0]
    if need and need <= have and not um:
        return dict(base, verdict="ok", why=f"`{ast.unparse(ab)}` = {show(tb)} covers {sorted(show(x) for x in need)}")
    # parameters of the top function still open: look at its callers
    open_p = [x for x in list(need - have) + ub if _open(x, top)]
    hard_unknown = [u for u in um + ub if not _open(u, top)]
    if open_p and not hard_unknown:
        missing = sorted(show(x) for x in need - have)
        return dict(base, verdict="climb", resolved=not (um or ub), why=f"bound {show(tb)}, matrix {show(tm)}",
                    why_refuted=f"the table of {sink.name} is built from {show(tm)} with `{ast.unparse(ab)}` = {show(tb)}, which is the "
                                f"largest entry of {sorted(show(x) for x in have) or 'nothing'} only: an entry of {missing} above it "
                                f"gives a negative column index, which wraps round silently")
    if hard_unknown or not need:
        return dict(base, verdict="undecided", why=f"not resolved: {', '.join(show(u) for u in (hard_unknown or um + ub)[:3]) or show(tm)}")
    missing = sorted(show(x) for x in need - have)
    return dict(base, verdict="refuted",
                why=f"the table of {sink.name} is built from {show(tm)} with `{ast.unparse(ab)}` = {show(tb)}, which is the largest "
                    f"entry of {sorted(show(x) for x in have) or 'nothing'} only: an entry of {missing} above it gives a negative "
                    f"column index, which wraps round silently")


def handover(res, bound_param):
    """the call site at which the bound stops being a parameter passed through: where the value is chosen (the place to repair)"""
    sink = res["sink"]
    callee, pname = sink, bound_param
    for g, call, recv in res["chain"]:
        a = _arg_of(callee, call, pname, method=callee.cls is not None and recv is not None)
        ps = [x.arg for x in g.node.args.posonlyargs + g.node.args.args + g.node.args.kwonlyargs]
        stored = any(isinstance(n, ast.Name) and n.id == getattr(a, "id", None) and isinstance(n.ctx, ast.Store) for n in ast.walk(g.node))
        if isinstance(a, ast.Name) and a.id in ps and not stored:
            callee, pname = g, a.id
            continue
        return g, call, a
    g, call, recv = res["chain"][-1]
    return g, call, None


def check(project, rep, rule, modname="persim.gromov_hausdorff"):
    """report `rule`; -> number of call paths decided"""
    sinks, results = analyse(project, modname)
    if not sinks:
        rep.unmodelled(rule, None, None, f"no table builder of the shape `zeros((n, b + 1))` indexed by `b - value` found in {modname}")
        return 0
    bound_of = {s.qualname: b for s, _, b in sinks}
    n = 0
    for r in results:
        sink = r["sink"]
        path = " <- ".join(f"{g.name}:{c.lineno}" for g, c, _ in r["chain"])
        if r["verdict"] == "ok":
            n += 1
            g, call = r["site"]
            rep.discharged(rule, g, call, f"table of {sink.name} reached by {path}: {r['why']}")
            for g2, _, _ in r["chain"]:
                rep.analysed(g2)
        elif r["verdict"] == "refuted":
            n += 1
            g, call, a = handover(r, bound_of[sink.qualname])
            rep.refuted(rule, g, call, f"{r['why']} (call path {path})",
                        construct=f"{g.qualname}: bound `{ast.unparse(a) if a is not None else '?'}` handed towards {sink.name}")
        else:
            g, call = r["site"] if r.get("site") else (sink, sink.node)
            rep.unmodelled(rule, g, call, f"{sink.name} reached by {path or '(no call found)'}: {r['why']}")
    return n


def positive_examples():
    import os
    from ..core.loader import AnalysisError, Project
    from ..core.report import Report
    here = os.path.join(os.path.dirname(os.path.dirname(os.path.abspath(__file__))), "selftest", "positive")
    pp = Project(here, pkg="pospkg")
    scratch = Report("IX-positive")
    check(pp, scratch, "IX", modname="pospkg.bounds")
    bad = {x["function"].rsplit(".", 1)[1] for x in scratch.refutations}
    good = {x["function"].rsplit(".", 1)[1] for x in scratch.obligations if x["verdict"] == "DISCHARGED"}
    want = {"compare_with_own_diameter", "Search.confirms_wrong"}
    bad = {x["function"].split("pospkg.bounds.", 1)[1] for x in scratch.refutations}
    if bad != want or scratch.errors:
        raise AnalysisError(f"positive example: IX-BOUND flagged {sorted(bad)} of pospkg.bounds, expected {sorted(want)} {scratch.errors[:1]}")
    return len(want)
