"""C12 — imager geometry stays self-consistent under any configuration history (images.py).

Decided by symbolically executing the constructor, each setter and `fit` on an imager whose ranges and pixel size
are symbols, then checking the derived state:
GE-SIB  sibling agreement of every writer of the geometry: extent = (whole number of pixels)·pixel_size,
        resolution is that whole number (or a *rounded*, never a truncated, float quotient);
GE-MESH pixel boundaries are resolution+1 equally spaced nodes with step = pixel_size spanning the covered range,
        birth and persistence quantities never mix;
GE-COVER the covered range contains what the operation asked for and exceeds it by less than one pixel;
GE-FIT  fit() requests (min,max) of birth and of persistence (death−birth under skew) over all diagrams.
Declined: float-level containment (ceil of an inexactly represented quotient), "no more than one pixel" for all reals.
"""
from __future__ import annotations

import ast
import random

from ..core import sym, symeval
from ..core.absint import Config, Interp
from ..core.loader import AnalysisError, Project
from ..core.values import Arr, Sc, Seq, Val
from .distances import dgm_input, unmodelled_in

CLS = "persim.images.PersistenceImager"
POS = {"p", "p2", "db", "dq", "dc", "dr"}


def S(n):
    return sym.Sym(n)


def rng_pair(lo, d):
    return Seq([Sc(S(lo)), Sc(sym.add(S(lo), S(d)))], "tuple")


def _pair(v: Val):
    if isinstance(v, Seq) and len(v.items) == 2 and all(isinstance(x, Sc) for x in v.items):
        return v.items[0].e, v.items[1].e
    return None


def _sc(v):
    return v.e if isinstance(v, Sc) else None


class State:
    def __init__(self, obj):
        a = obj.attrs
        self.obj = obj
        self.pixel = _sc(a.get("_pixel_size"))
        self.width = _sc(a.get("_width"))
        self.height = _sc(a.get("_height"))
        self.res = _pair(a.get("_resolution"))
        self.brange = _pair(a.get("_birth_range"))
        self.prange = _pair(a.get("_pers_range"))
        self.bpnts = a.get("_bpnts")
        self.ppnts = a.get("_ppnts")

    def complete(self):
        return None not in (self.pixel, self.width, self.height, self.res, self.brange, self.prange) and \
            isinstance(self.bpnts, Arr) and isinstance(self.ppnts, Arr)


_ASSUME = [None]  # condition under which the state being checked arises (a branch of a conditional update)


def _boundary(pt, k):
    """every third trial places the spans a hair above / below / exactly at a whole number of pixels: the places where a
    pixel count changes (a tolerance in the rounding, a truncation) and random values never land"""
    if k % 3 != 1:
        return
    r = pt.rng
    for px in ("p", "p2"):
        pt.syms[px] = r.choice((0.1, 0.25, 0.3, 0.7, 1.0)) if r.random() < 0.5 else r.uniform(0.05, 2.0)
    for span in ("db", "dq", "dc", "dr"):
        px = pt.syms[r.choice(("p", "p2"))]
        pt.syms[span] = px * (r.randint(1, 6) + r.choice((1e-7, -1e-7, 3e-6, -3e-6, 0.0, 1e-10)))


def _always(cond, trials=80, seed=0, input_fn=None):
    if _ASSUME[0] is not None:
        cond, trials = sym.Or(sym.Not(_ASSUME[0]), cond), 600
    ok, w = symeval.equivalent(cond, sym.TRUE, trials=trials, seed=seed, positive_syms=POS, nrows=3, input_fn=input_fn,
                               sym_fn=_boundary)
    return ok, w


def _eq(a, b, **kw):
    trials = 80
    if _ASSUME[0] is not None:
        a, b, trials = sym.ITE(_ASSUME[0], a, sym.ZERO), sym.ITE(_ASSUME[0], b, sym.ZERO), 600
    return symeval.equivalent(a, b, trials=trials, positive_syms=POS, nrows=3, tol=1e-7, **kw)


def _resolve(v, mp):
    """the value an attribute has on the branch described by mp (condition -> TRUE/FALSE)"""
    from ..core.values import Alt
    if isinstance(v, Alt) and getattr(v, "conds", None):
        for c, x in zip(v.conds, v.vals):
            if sym.subst(c, mp) == sym.TRUE:
                return _resolve(x, mp)
        return v
    if isinstance(v, Sc):
        return Sc(sym.subst(v.e, mp))
    if isinstance(v, Seq):
        return Seq([_resolve(x, mp) for x in v.items], v.kind)
    if isinstance(v, Arr):
        return Arr(v.axes, sym.subst(v.elem, mp), v.kind, v.uid)
    return v


def branch_states(obj):
    """[(assumption, State)]: one state per branch when some attributes were updated conditionally (a mesh rebuilt only
    `if resolution changed`), else the single state"""
    from ..core.values import Alt, ObjV
    conds = []
    for v in obj.attrs.values():
        if isinstance(v, Alt) and getattr(v, "conds", None):
            c = v.conds[0]
            if not any(c == d or sym.Not(c) == d for d in conds):
                conds.append(c)
    if not conds or len(conds) > 2:
        return [(None, State(obj))]
    import itertools
    out = []
    for bits in itertools.product((True, False), repeat=len(conds)):
        mp, lits = {}, []
        for c, b in zip(conds, bits):
            mp[c] = sym.TRUE if b else sym.FALSE
            mp[sym.Not(c)] = sym.FALSE if b else sym.TRUE
            lits.append(c if b else sym.Not(c))
        view = ObjV(obj.cls, {k: _resolve(v, mp) for k, v in obj.attrs.items()})
        out.append((sym.And(*lits), State(view)))
    return out


def _res_form(e):
    """'exact' integer count, 'rounded' quotient, 'truncated' quotient, or None"""
    if e[0] == "fn" and e[1] in ("ceil", "round", "rint", "floor"):
        return "exact" if e[1] == "ceil" else ("rounded" if e[1] in ("round", "rint") else "floored")
    if e[0] == "fn" and e[1] == "int":
        inner = e[2][0]
        if inner[0] == "fn" and inner[1] in ("ceil",):
            return "exact"
        if inner[0] == "fn" and inner[1] in ("round", "rint"):
            return "rounded"
        if inner[0] in ("div", "lin", "mul"):
            return "truncated"
        return None
    if e[0] == "num":
        return "exact"
    return None


def check_state(rep, fi, node, label, st, req_b, req_p, input_fn=None):
    """invariants of the imager after an operation; req_*: the (lo, hi) the operation asked the axis to cover.
    `st` is a State or the imager object itself (then every branch of a conditional update is checked under its condition)"""
    if not isinstance(st, State):
        for assume, s1 in branch_states(st):
            _ASSUME[0] = assume
            try:
                _check_state(rep, fi, node, label + (f" [when {sym.show(assume)[:80]}]" if assume is not None else ""), s1,
                             req_b, req_p, input_fn)
            finally:
                _ASSUME[0] = None
        return
    _check_state(rep, fi, node, label, st, req_b, req_p, input_fn)


def _check_state(rep, fi, node, label, st: State, req_b, req_p, input_fn=None):
    if not st.complete():
        rep.unmodelled("GE-SIB", fi, node, f"{label}: imager state not fully modelled")
        return
    for e in (st.width, st.height, st.res[0], st.res[1]):
        if unmodelled_in(e):
            rep.unmodelled("GE-SIB", fi, node, f"{label}: state expression not modelled ({unmodelled_in(e)})")
            return
    axes = (("birth", st.width, st.res[0], st.brange, st.bpnts, req_b), ("persistence", st.height, st.res[1], st.prange, st.ppnts, req_p))
    for k, (name, extent, res, cov, pnts, req) in enumerate(axes):
        # GE-SIB (i): extent = res * pixel
        ok, w = _eq(extent, sym.mul(res, st.pixel), input_fn=input_fn)
        if ok is True:
            rep.discharged("GE-SIB", fi, node, f"{label}: {name} extent = resolution·pixel_size", derived=sym.show(extent)[:160])
        elif ok is False:
            rep.refuted("GE-SIB", fi, node,
                        f"{label}: {name} extent {sym.show(extent)[:120]} is not resolution·pixel_size "
                        f"({sym.show(res)[:80]}·pixel): pixels are not squares of the configured size; witness {w}",
                        construct=f"{fi.qualname}: {name} extent vs resolution", failing_input=str(w))
        else:
            rep.unmodelled("GE-SIB", fi, node, f"{label}: cannot evaluate ({w})")
        # GE-SIB (ii): resolution is a whole number obtained without truncating a float quotient
        form = _res_form(res)
        if form in ("exact", "rounded"):
            rep.discharged("GE-SIB", fi, node, f"{label}: {name} resolution is a {form} pixel count", derived=sym.show(res)[:120])
        elif form in ("truncated", "floored"):
            rep.refuted("GE-SIB", fi, node,
                        f"{label}: {name} resolution {sym.show(res)[:120]} truncates a floating-point quotient: "
                        f"int(3*0.7/0.7) == 2, so resolution·pixel_size ≠ extent for such pixel sizes",
                        construct=f"{fi.qualname}: {name} resolution truncation",
                        failing_input="pixel_size=0.7, range of extent 2.1: resolution 2 instead of 3")
        else:
            rep.unmodelled("GE-SIB", fi, node, f"{label}: unrecognised resolution form {sym.show(res)[:120]}")
        # GE-MESH: nodes
        if pnts.ndim != 1:
            rep.unmodelled("GE-MESH", fi, node, f"{label}: {name} boundaries are not a vector")
            continue
        sp, iv = pnts.axes[0]
        n0 = sym.subst_ivar(pnts.elem, iv, 0)
        n1 = sym.subst_ivar(pnts.elem, iv, 1)
        checks = [("step between boundaries = pixel_size", sym.sub(n1, n0), st.pixel),
                  ("number of boundaries = resolution + 1", sp.size, sym.add(res, sym.ONE)),
                  ("first boundary = covered range start", n0, cov[0]),
                  ("covered range end = start + extent", cov[1], sym.add(cov[0], extent))]
        for what, a, b in checks:
            ok, w = _eq(a, b, input_fn=input_fn)
            if ok is True:
                rep.discharged("GE-MESH", fi, node, f"{label}: {name}: {what}")
            elif ok is False:
                rep.refuted("GE-MESH", fi, node, f"{label}: {name}: {what} fails — {sym.show(a)[:100]} vs {sym.show(b)[:100]}; "
                                                 f"witness {w}", construct=f"{fi.qualname}: {name}: {what}")
            else:
                rep.unmodelled("GE-MESH", fi, node, f"{label}: cannot evaluate {what} ({w})")
        # GE-COVER
        if req is not None:
            eps = sym.Num(1e-9)
            cond = sym.And(sym.Cmp("<=", cov[0], sym.add(req[0], eps)), sym.Cmp(">=", cov[1], sym.sub(req[1], eps)),
                           sym.Cmp("<", sym.sub(extent, sym.sub(req[1], req[0])), sym.add(st.pixel, eps)))
            ok, w = _always(cond, input_fn=input_fn)
            if ok is True:
                rep.discharged("GE-COVER", fi, node, f"{label}: covered {name} range contains the requested one and exceeds it "
                                                     f"by less than a pixel")
            elif ok is False:
                rep.refuted("GE-COVER", fi, node, f"{label}: covered {name} range [{sym.show(cov[0])[:80]}, {sym.show(cov[1])[:80]}] "
                                                  f"does not contain the requested range within one pixel; witness {w}",
                            construct=f"{fi.qualname}: {name} coverage")
            else:
                rep.unmodelled("GE-COVER", fi, node, f"{label}: cannot evaluate coverage ({w})")


def run(project: Project, rep, tier: str):
    rep.explain(
        "C12 (clauses decided): the constructor, the three setters and `fit` of PersistenceImager are executed by the "
        "symbolic evaluator on an imager whose ranges and pixel size are symbols (one- and two-step configuration "
        "histories; `fit` on a generic diagram). The derived attribute expressions are then checked: GE-SIB extent ≡ "
        "resolution·pixel_size and the resolution is an exact or rounded pixel count (a bare int() of a float quotient is "
        "refuted: int(3*0.7/0.7)==2); GE-MESH boundaries are resolution+1 nodes with step ≡ pixel_size starting at the "
        "covered range; GE-COVER the covered range contains the request and exceeds it by < 1 pixel; GE-FIT the request "
        "is (min,max) of birth and of death−birth. Identities are decided by identity-testing the *derived expressions* "
        "(exact-arithmetic semantics) with a witness. Declined: float-level containment for inexactly represented "
        "quotients.")
    rep.assume("ranges of positive extent, pixel_size > 0; exact arithmetic for the identities (the truncation rule "
               "covers the floating-point hazard structurally)")
    cls = project.cls(CLS)
    init = cls.lookup("__init__", project)
    rep.analysed(init)
    setters = {n: cls.lookup_setter(n, project) for n in ("birth_range", "pers_range", "pixel_size")}
    for n, s in setters.items():
        if s is None:
            raise AnalysisError(f"GE-SIB: setter {n} not found")
        rep.analysed(s)

    def fresh_imager():
        I = Interp(project, Config())
        obj = I.construct(CLS, [], {"birth_range": rng_pair("b0", "db"), "pers_range": rng_pair("q0", "dq"),
                                    "pixel_size": Sc(S("p"))}, None)
        return I, obj

    I, obj = fresh_imager()
    st0 = State(obj)
    check_state(rep, init, init.node, "after construction", st0, (S("b0"), sym.add(S("b0"), S("db"))),
                (S("q0"), sym.add(S("q0"), S("dq"))))
    # one setter after construction
    histories = [("birth_range",), ("pers_range",), ("pixel_size",)]
    if tier == "thorough":
        histories += [(a, b) for a in ("birth_range", "pers_range", "pixel_size") for b in ("birth_range", "pers_range", "pixel_size")]
    for hist in histories:
        I, obj = fresh_imager()
        req_b = req_p = None
        for step, attr in enumerate(hist):
            before = State(obj)
            s = setters[attr]
            if attr == "birth_range":
                val = rng_pair(f"c{step}", "dc")
                req_b, req_p = (S(f"c{step}"), sym.add(S(f"c{step}"), S("dc"))), before.prange
            elif attr == "pers_range":
                val = rng_pair(f"r{step}", "dr")
                req_b, req_p = before.brange, (S(f"r{step}"), sym.add(S(f"r{step}"), S("dr")))
            else:
                val = Sc(S("p2"))
                req_b, req_p = before.brange, before.prange
            I.call_function(s, [obj, val], {}, None)
        check_state(rep, setters[hist[-1]], setters[hist[-1]].node, "after " + " → ".join(("construction",) + hist),
                    obj, req_b, req_p)
    # fit
    fit = cls.lookup("fit", project)
    rep.analysed(fit)
    for skew, names in ((True, ("X",)), (False, ("X",)), (True, ("X", "Y"))):
        I, obj = fresh_imager()
        for nm in names:
            I.cfg.nonempty.add(("rows", nm))
            I.cfg.finite_inputs.add(nm)
        data = dgm_input(names[0]) if len(names) == 1 else Seq([dgm_input(nm) for nm in names], "list")
        I.call_function(fit, [obj, data], {"skew": Sc(sym.Bool(skew))}, None)
        i = "$r"

        def col(nm, second):
            b = sym.In(nm, ((i, 0), 0))
            d = sym.In(nm, ((i, 0), 1))
            return (sym.sub(d, b) if skew else d) if second else b

        def ext(op, second):
            parts = [sym.Red(op, i, ("rows", nm), col(nm, second)) for nm in names]
            return parts[0] if len(parts) == 1 else sym.fn(op, *parts)
        req_b = (ext("min", False), ext("max", False))
        req_p = (ext("min", True), ext("max", True))

        def spread(pt, name, idx):
            # data spanning a positive extent in both coordinates
            return None
        stf = obj
        # requested = what the setters were asked: verify through coverage of data min/max
        n_ref0, n_err0 = len(rep.refutations), len(rep.errors)
        check_state(rep, fit, fit.node, f"after fit(skew={skew}, {len(names)} diagram(s))", stf, req_b, req_p)
        state_ok = len(rep.refutations) == n_ref0 and len(rep.errors) == n_err0 and not I.unmodelled and not I.lossy
        # GE-FIT: a place that truth-tests None on one visit and a number computed from the data on another takes a
        # legitimate 0 (minimum birth 0, a point on the diagonal) for 'nothing seen yet'
        for rec in getattr(I, "truth_kinds", {}).values():
            if {"none", "data-number"} <= rec["kinds"]:
                owner = rec["fi"] or fit
                rep.refuted("GE-FIT", owner, rec["node"],
                            f"`{ast.unparse(rec['node'])}` is truth-tested while it holds None at first and later a value computed "
                            f"from the diagrams ({sym.show(rec['example'])[:80]}): an extreme that is exactly 0 counts as 'nothing "
                            f"seen yet' and is overwritten, so the fitted range misses fitted points and depends on diagram order",
                            construct=f"{owner.qualname}: truth test of {ast.unparse(rec['node'])}")
        # GE-FIT: geometry changes only through the range setters
        stores = [ev for ev in I.log if ev["kind"] == "attrstore" and ev["fi"] is fit]
        direct = [ev for ev in stores if ev["attr"] in ("_width", "_height", "_resolution", "_bpnts", "_ppnts",
                                                         "_birth_range", "_pers_range")]
        if direct and state_ok:
            # fit updates the private attributes itself (through a helper it shares with the setters, say): what counts is the
            # state it leaves, and that was evaluated above — ranges covered, extent = resolution × pixel, mesh on the pixels
            rep.discharged("GE-FIT", fit, direct[0]["node"],
                           f"fit(skew={skew}) writes `{direct[0]['attr']}` itself; the state it leaves was evaluated and satisfies "
                           f"the geometry invariants")
        elif direct:
            rep.refuted("GE-FIT", fit, direct[0]["node"], f"fit writes `{direct[0]['attr']}` directly instead of going through "
                                                          f"the range setters (extent/resolution/mesh are not recomputed)")
        elif {ev["attr"] for ev in stores} >= {"birth_range", "pers_range"}:
            rep.discharged("GE-FIT", fit, fit.node, f"fit(skew={skew}) changes the geometry only through the two range setters")
        elif not stores or I.unmodelled or I.lossy:
            rep.unmodelled("GE-FIT", fit, fit.node, f"fit(skew={skew}): how the ranges are assigned could not be followed "
                                                    f"(attribute stores seen: {sorted({ev['attr'] for ev in stores})})")
        else:
            rep.refuted("GE-FIT", fit, fit.node, f"fit(skew={skew}) does not assign both ranges "
                                                 f"({sorted({ev['attr'] for ev in stores})})")
    # GE-DTYPE: the geometry is computed from numbers the caller wrote (ranges, pixel size): a helper array typed by them must not
    # receive fractions (integer ranges with an integer pixel size are an ordinary configuration)
    from . import dtype_rule as _dt
    geo = [init, fit] + [s_ for s_ in setters.values()] + [m_ for n_, m_ in cls.methods.items() if n_ in ("_create_mesh",)]
    from .oneshot import reachable_functions as _reach
    geo_all = {f_.qualname: f_ for f_ in geo}
    for f_ in _reach(project, [g_.qualname for g_ in geo if g_.qualname in project.functions]):
        if f_.qualname.startswith("persim.images."):
            geo_all.setdefault(f_.qualname, f_)
    _dt.run_on(project, rep, "GE-DTYPE", list(geo_all.values()))
    rep.floor("GE-DTYPE", 1)
    for rn, n in (("GE-SIB", 20), ("GE-MESH", 40), ("GE-COVER", 12), ("GE-FIT", 3)):
        rep.floor(rn, n)
    for t in ("numpy.ceil", "numpy.linspace", "builtins.int", "builtins.round"):
        rep.trust(t)
