"""BN-SEARCH — the threshold search returns the smallest feasible candidate (bounded).

`bottleneck` is followed with the sorted distinct entries of the cost matrix replaced by a fixed list of n symbols
c0 < c1 < … < c(n-1) and the matching library replaced by a feasibility oracle: a perfect matching exists for the probed
threshold iff it is c_t or larger (feasibility is monotone in the threshold; the largest candidate is always feasible). All
tests of the search loop are then decided (list lengths are concrete, comparisons between candidates follow their order),
so the loop is followed trip by trip. For every n up to the bound and every t the value returned must be c_t.
The shape of the search (re-slicing the candidate array, lo/hi indices, bisect) does not matter.
"""
from __future__ import annotations

from ..core import sym
from ..core.absint import Config, Interp
from ..core.loader import AnalysisError, Project
from ..core.values import Sc, Seq
from .distances import BN, dgm_input


def check_search(project: Project, rep, max_n=6):
    fi = project.function(BN)
    ok = 0
    for n in range(1, max_n + 1):
        names = [f"c{k}" for k in range(n)]
        for t in range(n):
            flags = dict(sub_nonempty=True, candidates=names, feasible_from=t, unroll_while=4 * n + 8,
                         order_model={c: float(k) for k, c in enumerate(names)})
            I = Interp(project, Config(nonempty={("rows", "S"), ("rows", "T")}, finite_inputs={"S", "T"}, flags=flags))
            args = {fi.params[0]: dgm_input("S"), fi.params[1]: dgm_input("T")}
            if len(fi.params) > 2:
                args[fi.params[2]] = Sc(sym.FALSE)
            try:
                r = I.run(BN, args)
            except AnalysisError as ex:
                msg = str(ex)
                if "still running after" in msg:
                    rep.refuted("BN-SEARCH", fi, fi.node,
                                f"with {n} candidate thresholds of which the {t + 1}-th is the first feasible one, the search does not "
                                f"terminate ({msg[:80]})", construct=f"{BN}: threshold search", failing_input=f"n={n}, first feasible={t}")
                    return "refuted"
                rep.unmodelled("BN-SEARCH", fi, fi.node, f"n={n}, t={t}: {msg}"[:200])
                return "unmodelled"
            if isinstance(r, Seq) and r.items:
                r = r.items[0]
            if I.__dict__.get("_cand_seq") is None:
                rep.unmodelled("BN-SEARCH", fi, fi.node, "the candidate thresholds are not the sorted distinct entries of the "
                                                         "assembled cost matrix (np.unique / sort of the matrix not seen)")
                return "unmodelled"
            if I.lossy or not isinstance(r, Sc) or r.e is None or r.e[0] != "sym" or r.e[1] not in names:
                why = I.lossy[0]["why"] if I.lossy else (f"returned {sym.show(r.e)[:80]}" if isinstance(r, Sc) and r.e is not None
                                                         else f"returned {r!r}"[:80])
                rep.unmodelled("BN-SEARCH", fi, fi.node, f"n={n}, first feasible={t}: the search could not be followed ({why})")
                return "unmodelled"
            got = names.index(r.e[1])
            if got != t:
                rep.refuted("BN-SEARCH", fi, fi.node,
                            f"with {n} candidate thresholds c0<…<c{n - 1} of which c{t} is the smallest feasible one, the search returns "
                            f"c{got}: {'an infeasible value (below the true distance)' if got < t else 'a feasible but not the smallest value (above the true distance)'}",
                            construct=f"{BN}: threshold search", failing_input=f"n={n}, first feasible={t}")
                return "refuted"
            ok += 1
    rep.discharged("BN-SEARCH", fi, fi.node,
                   f"for every number of candidates n ≤ {max_n} and every position t of the smallest feasible candidate ({ok} cases) "
                   f"the search returns exactly that candidate (feasibility oracle monotone in the threshold)")
    return "ok"
