"""RV-NONE — the value of a call is used although the callee can end without returning one.

A function with both `return <value>` and a path that falls off its end (or a bare `return`) hands back None on that path.
A caller that subscripts, iterates, unpacks or passes on the result then fails exactly when that path is taken — in this
package: the lazily computed landscape, whose `compute_landscape()` returns the stored list when there is one and nothing
after actually computing it.  The first use raises, a repeated one succeeds: results depend on the history of the object.

callee side   (CFG): some `return e` with e not the constant None, and the exit is reachable through a statement that is
              not a return / raise, or through `return` / `return None`.
caller side   the call is not an expression statement, and its value is not merely tested against None / for truth
              (`x = f()` followed only by `x is None` / `if x:` uses is accepted).
"""
from __future__ import annotations

import ast
from typing import Dict, List, Optional

from ..core.cfg import CFG
from ..core.loader import FunctionInfo, Project
from .common import local_names

_MIXED: Dict[tuple, Optional[str]] = {}


def mixed_returns(project: Project, g: FunctionInfo) -> Optional[str]:
    """a description of the value-less exit when `g` has both kinds of exit, else None"""
    key = (id(project), g.qualname)
    if key in _MIXED:
        return _MIXED[key]
    _MIXED[key] = None
    f = g.node
    if not isinstance(f, (ast.FunctionDef, ast.AsyncFunctionDef)):
        return None
    own = []
    stack = list(f.body)
    while stack:
        n = stack.pop()
        if isinstance(n, (ast.FunctionDef, ast.AsyncFunctionDef, ast.Lambda, ast.ClassDef)):
            continue
        if isinstance(n, (ast.Yield, ast.YieldFrom)):
            return None   # a generator: its call returns the generator object
        own.append(n)
        stack.extend(ast.iter_child_nodes(n))
    rets = [n for n in own if isinstance(n, ast.Return)]
    valued = [r for r in rets if r.value is not None and not (isinstance(r.value, ast.Constant) and r.value.value is None)]
    if not valued:
        return None
    bare = [r for r in rets if r not in valued]
    why = None
    if bare:
        why = f"`return` without a value at line {bare[0].lineno}"
    else:
        try:
            cfg = CFG(f)
        except Exception:
            return None
        for p in cfg.nodes[cfg.exit.id].pred:
            nd = cfg.nodes[p]
            if nd.kind in ("return", "raise"):
                continue
            if isinstance(nd.ast, (ast.Return, ast.Raise)):
                continue
            why = f"the path that ends after line {getattr(nd.ast, 'end_lineno', None) or nd.lineno} returns nothing"
            break
    _MIXED[key] = why
    return why


def analyse(project: Project, functions: List[FunctionInfo]) -> List[dict]:
    hits = []
    for fi in functions:
        f = fi.node
        if not isinstance(f, (ast.FunctionDef, ast.AsyncFunctionDef)):
            continue
        locs = local_names(f)
        parents = {}
        for n in ast.walk(f):
            for c in ast.iter_child_nodes(n):
                parents[id(c)] = n
        for c in ast.walk(f):
            if not isinstance(c, ast.Call):
                continue
            g = None
            t = project.resolve(fi.module, c.func, locs)
            if t in project.functions:
                g = project.functions[t]
            elif isinstance(c.func, ast.Attribute) and isinstance(c.func.value, ast.Name) and c.func.value.id in ("self", "cls") \
                    and fi.cls is not None:
                g = fi.cls.lookup(c.func.attr, project)
            if g is None or g.kind == "property":
                continue
            why = mixed_returns(project, g)
            if why is None:
                continue
            par = parents.get(id(c))
            if isinstance(par, ast.Expr):
                continue   # called for its effect
            if isinstance(par, ast.NamedExpr):
                # `(x := f()) is not None`: looked at before it is used
                gp = parents.get(id(par))
                if isinstance(gp, ast.Compare) and any(isinstance(x, ast.Constant) and x.value is None for x in [gp.left] + gp.comparators):
                    continue
                if isinstance(gp, (ast.If, ast.While, ast.BoolOp, ast.IfExp)) or (isinstance(gp, ast.UnaryOp) and isinstance(gp.op, ast.Not)):
                    continue
            if isinstance(par, ast.Return) and mixed_returns(project, fi):
                continue   # handed on by a function that is itself of this kind: reported where the value is used
            if isinstance(par, ast.Assign) and len(par.targets) == 1 and isinstance(par.targets[0], ast.Name):
                nm = par.targets[0].id
                uses = [x for x in ast.walk(f) if isinstance(x, ast.Name) and x.id == nm and isinstance(x.ctx, ast.Load)]
                none_tested = any(
                    isinstance(parents.get(id(u)), ast.Compare) and all(isinstance(o, (ast.Is, ast.IsNot, ast.Eq, ast.NotEq)) for o in parents[id(u)].ops)
                    and any(isinstance(x, ast.Constant) and x.value is None for x in [parents[id(u)].left] + parents[id(u)].comparators)
                    or isinstance(parents.get(id(u)), (ast.If, ast.While, ast.BoolOp, ast.IfExp))
                    or (isinstance(parents.get(id(u)), ast.UnaryOp) and isinstance(parents[id(u)].op, ast.Not))
                    for u in uses)
                if none_tested or not uses:
                    continue   # the caller knows the value may be missing: it looks before it uses it
            if isinstance(par, ast.Compare) and all(isinstance(o, (ast.Is, ast.IsNot)) for o in par.ops):
                continue
            hits.append(dict(fi=fi, node=c, callee=g,
                             why=f"the value of `{ast.unparse(c)[:50]}` is used, but `{g.qualname.rsplit('.', 2)[-2] + '.' + g.name if g.cls else g.name}` "
                                 f"does not always return one ({why}): on that path the caller gets None"))
    return hits
