"""GH-LABEL (C17): a piece of relabelling invariance that is visible in the shape of the code.

Two distance matrices of finite metric spaces are handed to the bound functions in the vertex order the caller happened to
use.  An element-by-element comparison of the two whole matrices (`np.array_equal(DX, DY)`, `np.allclose`, `(DX == DY).all()`,
`DX != DY`) therefore decides "same labelling", not "isometric".  Its POSITIVE outcome is still a sound witness of isometry
(a shortcut `if np.array_equal(DX, DY): return 0` preserves the property and is left alone); its NEGATIVE outcome is not a
witness of anything.  The rule refutes exactly one construct: the negation of such a positional equality used as a NUMBER
(inside int()/float()/max()/min()/arithmetic) in a function that receives both matrices — a bound term that is positive
whenever the labelled matrices differ gives a relabelled copy of one graph a positive lower bound although the distance is 0.
Anything else (tests in `if`, positive uses) gets no verdict from this rule and no alarm."""
import ast
import os

EQ_CALLS = {"array_equal", "array_equiv", "allclose"}
NUMERIC_CALLS = {"int", "float", "max", "min", "sum", "abs"}


def _params(fn):
    a = fn.args
    return [x.arg for x in a.posonlyargs + a.args + a.kwonlyargs]


def _callname(c):
    f = c.func
    return f.attr if isinstance(f, ast.Attribute) else (f.id if isinstance(f, ast.Name) else None)


def _whole(e, matrices):
    return isinstance(e, ast.Name) and e.id in matrices


def _pos_eq(e, matrices, eqnames):
    """is `e` TRUE only if the two matrices agree entry by entry (possibly conjoined with other conditions)?"""
    if isinstance(e, ast.Name):
        return e.id in eqnames
    if isinstance(e, ast.BoolOp) and isinstance(e.op, ast.And):
        return any(_pos_eq(v, matrices, eqnames) for v in e.values)
    if isinstance(e, ast.Call):
        n = _callname(e)
        if n in EQ_CALLS and len(e.args) >= 2 and _whole(e.args[0], matrices) and _whole(e.args[1], matrices) \
                and e.args[0].id != e.args[1].id:
            return True
        # (DX == DY).all()  /  np.all(DX == DY)
        inner = None
        if n == "all" and isinstance(e.func, ast.Attribute) and isinstance(e.func.value, ast.Compare):
            inner = e.func.value
        elif n == "all" and e.args and isinstance(e.args[0], ast.Compare):
            inner = e.args[0]
        if inner is not None and len(inner.ops) == 1 and isinstance(inner.ops[0], ast.Eq) \
                and _whole(inner.left, matrices) and _whole(inner.comparators[0], matrices) \
                and inner.left.id != inner.comparators[0].id:
            return True
    return False


def _neg_eq(e, matrices, eqnames, neqnames):
    """is `e` TRUE whenever the two matrices differ somewhere?"""
    if isinstance(e, ast.Name):
        return e.id in neqnames
    if isinstance(e, ast.UnaryOp) and isinstance(e.op, ast.Not):
        return _pos_eq(e.operand, matrices, eqnames)
    if isinstance(e, ast.BoolOp) and isinstance(e.op, ast.Or):
        return any(_neg_eq(v, matrices, eqnames, neqnames) for v in e.values)
    if isinstance(e, ast.Call) and _callname(e) == "any":
        inner = None
        if isinstance(e.func, ast.Attribute) and isinstance(e.func.value, ast.Compare):
            inner = e.func.value
        elif e.args and isinstance(e.args[0], ast.Compare):
            inner = e.args[0]
        if inner is not None and len(inner.ops) == 1 and isinstance(inner.ops[0], ast.NotEq) \
                and _whole(inner.left, matrices) and _whole(inner.comparators[0], matrices) \
                and inner.left.id != inner.comparators[0].id:
            return True
    return False


def matrix_pairs(project, modname):
    """functions of the module that receive the two distance matrices: a parameter pair handed on (positionally, as whole
    names) from the pair the entry point builds, found by name-independent propagation from `estimate`-like roots: here simply
    every function with two parameters that are both subscripted with two indices or passed to len()/max() — matrices"""
    out = []
    for q, fi in sorted(project.functions.items()):
        if fi.module.name != modname or not isinstance(fi.node, (ast.FunctionDef,)):
            continue
        ps = _params(fi.node)
        if getattr(fi, "cls", None) is not None and ps and not any(
                isinstance(d, ast.Name) and d.id == "staticmethod" for d in fi.node.decorator_list):
            ps = ps[1:]
        stored = {t.id for n in ast.walk(fi.node) if isinstance(n, (ast.Assign, ast.AugAssign))
                  for t in (n.targets if isinstance(n, ast.Assign) else [n.target]) if isinstance(t, ast.Name)}
        mats = [p for p in ps[:2] if p not in stored]
        if len(mats) == 2:
            out.append((fi, set(mats)))
    return out


def check(project, rep, rule, modname="persim.gromov_hausdorff"):
    sites = 0
    for fi, mats in matrix_pairs(project, modname):
        eqn, neqn = set(), set()
        for _ in range(3):
            for n in ast.walk(fi.node):
                if isinstance(n, ast.Assign) and len(n.targets) == 1 and isinstance(n.targets[0], ast.Name):
                    if _pos_eq(n.value, mats, eqn):
                        eqn.add(n.targets[0].id)
                    elif _neg_eq(n.value, mats, eqn, neqn):
                        neqn.add(n.targets[0].id)
        rep.analysed(fi)
        sites += 1
        before = len(rep.refutations)
        parents = {}
        for n in ast.walk(fi.node):
            for c in ast.iter_child_nodes(n):
                parents[c] = n
        for n in ast.walk(fi.node):
            if not isinstance(n, ast.expr) or not _neg_eq(n, mats, eqn, neqn):
                continue
            if isinstance(n, ast.Name) and isinstance(n.ctx, ast.Store):
                continue
            p = parents.get(n)
            numeric = False
            while isinstance(p, ast.expr):
                if isinstance(p, ast.Call) and _callname(p) in NUMERIC_CALLS and n is not p.func:
                    numeric = True
                    break
                if isinstance(p, ast.BinOp):
                    numeric = True
                    break
                if isinstance(p, (ast.BoolOp, ast.UnaryOp, ast.IfExp, ast.Compare)):
                    break
                p = parents.get(p)
            if numeric:
                rep.refuted(rule, fi, n, f"`{ast.unparse(n)}` is true whenever the two distance matrices differ entry by entry — "
                            "that is, whenever the two graphs are LABELLED differently, not whenever they are non-isometric — "
                            f"and it is used as a number in `{ast.unparse(p)[:90]}`: a relabelled copy of the same graph gets a "
                            "positive bound term although its distance is 0 (brackets depend on the vertex numbering)",
                            construct=f"{fi.qualname}: negated positional equality of the two matrices used as a number",
                            failing_input="a path graph 0-1-2 against the same path numbered 1-0-2")
        if len(rep.refutations) == before:
            rep.discharged(rule, fi, fi.node, f"receives the two distance matrices {sorted(mats)}: no bound term is the negation of "
                           "an entry-by-entry comparison of the two (size, diameter and histogram comparisons are label-free)",
                           nontrivial=False)
    return sites


def positive_examples():
    from ..core.loader import AnalysisError, Project
    from ..core.report import Report
    here = os.path.join(os.path.dirname(os.path.dirname(os.path.abspath(__file__))), "selftest", "positive")
    pp = Project(here, pkg="pospkg")
    scratch = Report("LABEL-positive")
    check(pp, scratch, "LABEL", modname="pospkg.labels")
    bad = {x["function"].split("pospkg.labels.", 1)[1] for x in scratch.refutations}
    want = {"lb_by_array_equal", "lb_two_steps", "lb_any_differs", "Search.lb_method"}
    if bad != want or scratch.errors:
        raise AnalysisError(f"positive example: LABEL flagged {sorted(bad)} of pospkg.labels, expected {sorted(want)} {scratch.errors[:1]}")
    return len(want)
