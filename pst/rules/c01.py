"""C01 — bottleneck = min-max matching cost (necessary conditions of the cost model and of the search).

Decided: BN-COST (normal forms of the four blocks), BN-TILE (slice stores tile the (M+N)^2 matrix, shapes agree
for all sizes), BN-FILTER/BN-WARN (both diagrams filtered on the death column, with warnings), BN-THRESH
(candidates are elements of the same matrix, inclusive test), BN-PERFECT (perfect-matching size 2*(M+N), disjoint
label kinds), BN-BISECT (narrowing excludes the probe on both sides; accepted value only lowered by a feasible
candidate; starts at the largest), BN-ORDER (only len() of the matching reaches the distance), BN-EMPTY
(placeholder for an empty diagram is the diagonal point (0,0)).
Declined: that binary search + Hopcroft–Karp return the optimum (library correctness, monotonicity); float ties.
"""
from __future__ import annotations

import ast

from ..core import sym, symeval
from ..core.cfg import CFG
from ..core.loader import AnalysisError, Project
from ..core.values import Arr, Bag, Blocks, DiagMat, DictV, ObjV, Sc, Seq
from .distances import BN, B, Dd, Run, block_roles, check_filter, check_graph, check_tiling, nf_check, unmodelled_in


def cross_spec(a, b):
    return sym.fn("max", sym.fn("abs", sym.sub(B(a), B(b))), sym.fn("abs", sym.sub(Dd(a), Dd(b))))


def diag_spec(a):
    return sym.scale(sym.sub(Dd(a), B(a)), 0.5)


def check_cost(rep, run: Run, D: Blocks, rule="BN-COST", cross=cross_spec, diag=diag_spec, what="bottleneck"):
    fi = run.fi
    roles = block_roles(run, D)
    for s in roles.get("cross", []):
        v = s["val"]
        ins_axes = []
        for sp, iv in v.axes:
            k = sp.key
            while isinstance(k, tuple) and k and k[0] == "sub":
                k = k[1]
            ins_axes.append(k)
        if ins_axes != [("rows", run.a), ("rows", run.b)] and (run.interp.lossy or not sym.inputs_of(v.elem)):
            # a constant block (or a run that lost track of an in-place update): not the cross block, role unknown
            rep.unmodelled(rule, fi, s["node"], f"a block indexed by {ins_axes} with entries {sym.show(v.elem)[:60]} could not "
                                                f"be given a role")
        elif ins_axes != [("rows", run.a), ("rows", run.b)]:
            rep.refuted(rule, fi, s["node"], f"cross block is indexed by {ins_axes}, not (rows of first diagram) × "
                                             f"(rows of second diagram)")
            continue
        nf_check(rep, rule, fi, s["node"], "cross cost of pairing a point of each diagram", v.elem,
                 [cross(run.a, run.b)], refute_text=f"the {what} cost rule is not the one the property names")
    for role, name in (("diagA", run.a), ("diagB", run.b)):
        ss = roles.get(role, [])
        if not ss:
            # definite only when both diagonal blocks are fed from the other diagram; anything else is not understood
            other_role = "diagB" if role == "diagA" else "diagA"
            if len(roles.get(other_role, [])) >= 2:
                rep.refuted(rule, fi, fi.node, f"no diagonal-cost block is built from diagram `{name}`: both are built from the "
                                               f"other diagram", construct=f"{fi.qualname}: diagonal block of {name}")
            else:
                rep.unmodelled(rule, fi, fi.node, f"diagonal-cost block of diagram `{name}` not recognised")
            continue
        for s in ss:
            v = s["val"]
            d = diag(name)
            nf_check(rep, rule, fi, s["node"], f"cost of sending a point of `{name}` to the diagonal", v.on,
                     [d, sym.fn("abs", d)], refute_text="diagonal cost differs from the property's")
            if v.off == sym.INF:
                rep.discharged(rule, fi, s["node"], "off-diagonal entries of the diagonal-cost block are +inf",
                               nontrivial=False)
            elif v.off[0] == "opq" and v.off[1] == "earlier-contents":
                rep.unmodelled(rule, fi, s["node"], "the entries around this diagonal store keep what an earlier, possibly "
                                                    "overlapping store wrote there (positions are decided by the tiling rule)")
            else:
                rep.refuted(rule, fi, s["node"], f"off-diagonal entries of the diagonal-cost block are "
                                                 f"{sym.show(v.off)}, not +inf: a point may be matched to another "
                                                 f"point's diagonal projection")
    # which diagram's diagonal block shares rows with the cross block is checked by BN-TILE


def _while_of(fi, view=None) -> ast.While:
    ws = [n for n in ast.walk(view if view is not None else fi.node) if isinstance(n, ast.While)]
    if len(ws) != 1:
        raise AnalysisError(f"{fi.qualname}: expected exactly one search loop, found {len(ws)}")
    return ws[0]


CAND_STATUS = {}
NEGATED_PERFECT = []


def check_thresh_perfect(rep, run: Run, D: Blocks, graph_status=None, cand_status=None):
    fi = run.fi
    elems = D.elem_choice()
    found_edge = found_perfect = 0
    total = sym.scale(sym.add(sym.Size(("rows", run.a)), sym.Size(("rows", run.b))), 2.0)
    for ev in run.events("compare"):
        owner = ev["fi"] or fi
        lhs, rhs, op = ev["lhs"], ev["rhs"], ev["op"]
        le = lhs.e if isinstance(lhs, Sc) else None
        re_ = rhs.e if isinstance(rhs, Sc) else None
        flip = {"<": ">", "<=": ">=", ">": "<", ">=": "<=", "==": "==", "!=": "!="}
        # vectorised edge predicate: the whole cost matrix against the candidate (`D <= d`)
        whole = None
        def of_matrix(v):
            # the matrix itself, or a row / column / slice of it (densified: its entries are the matrix's entries)
            return v is not None and not isinstance(v, Sc) and (getattr(v, "uid", None) == D.uid or (
                isinstance(v, Arr) and v.elem == elems))
        if of_matrix(lhs) and re_ is not None:
            whole = (re_, op)
        elif of_matrix(rhs) and le is not None:
            whole = (le, flip[op])
        if whole is not None:
            y, o = whole
            found_edge += 1
            cand_ok = (y == elems) or (y[0] == "choice" and set(y[1]) <= set(elems[1] if elems[0] == "choice" else [elems])) \
                or (y in (elems[1] if elems[0] == "choice" else [elems])) \
                or (y[0] == "opq" and y[1] == "carry")
            if not cand_ok and cand_status != "ok":
                (rep.refuted if cand_status == "refuted-structural" else rep.unmodelled)(
                    "BN-THRESH", fi, ev["node"],
                    f"the threshold {sym.show(y)[:120]} is not recognised as one of the matrix's own entries")
            elif o == "<=":
                rep.discharged("BN-THRESH", fi, ev["node"], "edge predicate compares every entry of the cost matrix "
                                                            "inclusively with a candidate drawn from the same matrix")
            elif o == "<":
                rep.refuted("BN-THRESH", fi, ev["node"],
                            "strict edge predicate: the optimal cost is itself a candidate and its own edges are "
                            "excluded, so the true bottleneck value is declared infeasible")
            else:
                rep.refuted("BN-THRESH", fi, ev["node"], f"edge predicate uses `{o}` instead of `<=`")
            continue
        if le is None or re_ is None:
            continue
        # edge predicate: an element of D against the candidate
        sides = [(le, re_, op), (re_, le, {"<": ">", "<=": ">=", ">": "<", ">=": "<=", "==": "==", "!=": "!="}[op])]
        for x, y, o in sides:
            if x[0] == "at" and x[1] == D.uid:
                found_edge += 1
                cand_ok = (y == elems) or (y[0] == "choice" and set(y[1]) <= set(elems[1] if elems[0] == "choice" else [elems])) \
                or (y in (elems[1] if elems[0] == "choice" else [elems])) \
                    or (y[0] == "opq" and y[1] == "carry")
                if not cand_ok and cand_status != "ok":
                    rep.unmodelled("BN-THRESH", fi, ev["node"],
                                   f"the threshold {sym.show(y)[:120]} is not recognised as one of the matrix's own entries")
                elif o == "<=":
                    rep.discharged("BN-THRESH", fi, ev["node"], "edge predicate compares an entry of the cost matrix "
                                                                "inclusively with a candidate drawn from the same matrix")
                elif o == "<":
                    rep.refuted("BN-THRESH", fi, ev["node"],
                                "strict edge predicate: the optimal cost is itself a candidate and its own edges are "
                                "excluded, so the true bottleneck value is declared infeasible")
                else:
                    rep.refuted("BN-THRESH", fi, ev["node"], f"edge predicate uses `{o}` instead of `<=`")
                break
        # perfect matching test
        for x, y, o in sides:
            if x[0] == "opq" and x[1] == "hk_len":
                found_perfect += 1
                if o == "==" and sym.equal(y, total):
                    rep.discharged("BN-PERFECT", fi, ev["node"],
                                   "feasibility = matching has 2·(M+N) entries (library maps both directions)",
                                   derived=sym.show(y))
                elif o == "!=" and sym.equal(y, total):
                    # the negated form (`if len(m) != 2(M+N): <infeasible>`): the size compared with is the right one; which
                    # arm counts as feasible is what BN-SEARCH follows (an inverted oracle returns the wrong candidate)
                    rep.discharged("BN-PERFECT", fi, ev["node"],
                                   "matching size is compared with 2·(M+N) (negated form; the arm taken as feasible is followed "
                                   "by BN-SEARCH)", derived=sym.show(y))
                    NEGATED_PERFECT.append(ev["node"])
                elif unmodelled_in(y) or unmodelled_in(total):
                    rep.unmodelled("BN-PERFECT", fi, ev["node"], "the size the matching is compared with was not followed exactly")
                else:
                    rep.refuted("BN-PERFECT", fi, ev["node"],
                                f"feasibility test is `len(matching) {o} {sym.show(y)}` instead of `== 2·(M+N)`: "
                                f"non-perfect matchings are accepted (or perfect ones rejected)")
                break
    if not found_edge and graph_status == "ok":
        rep.discharged("BN-THRESH", fi, fi.node, "edge tests are not comparisons of matrix entries read in place; BN-GRAPH established "
                                                 "that the graph is the matrix thresholded inclusively at the probed value")
    elif not found_edge:
        rep.unmodelled("BN-THRESH", fi, fi.node, "no comparison of a cost-matrix entry with a candidate was found")
    if not found_perfect:
        rep.unmodelled("BN-PERFECT", fi, fi.node, "no test of the matching size was found")
    # label kinds: left labels are strings, right labels integers
    for ev in run.events("store"):
        if isinstance(ev["base"], DictV):
            k = ev["idx"][0]
            v = ev["value"]
            if k[0] == "str" and isinstance(v, Bag) and v.elem[0] == "iv":
                rep.discharged("BN-PERFECT", fi, ev["node"], "left labels are strings, right labels integers "
                                                             "(disjoint label sets, as the library requires)",
                               nontrivial=False)
            elif k[0] in ("int", "expr") and isinstance(v, Bag) and v.elem[0] == "iv":
                rep.refuted("BN-PERFECT", fi, ev["node"], "left and right vertex labels are not of disjoint kinds; "
                                                          "the matching library conflates vertices")
            elif k[0] != "str":
                rep.unmodelled("BN-PERFECT", fi, ev["node"], f"kind of the left vertex labels not recognised ({k[0]})")
            break


def _slice_bounds(sl):
    if not isinstance(sl, ast.Slice):
        return None
    return sl.lower, sl.upper, sl.step


def _affine_of(node, name):
    """k such that node == name + k, or None; node None -> 'none'"""
    if node is None:
        return "none"
    if isinstance(node, ast.Name) and node.id == name:
        return 0
    if isinstance(node, ast.Constant) and isinstance(node.value, int):
        return ("const", node.value)
    if isinstance(node, ast.BinOp) and isinstance(node.left, ast.Name) and node.left.id == name \
            and isinstance(node.right, ast.Constant) and isinstance(node.right.value, int):
        if isinstance(node.op, ast.Add):
            return node.right.value
        if isinstance(node.op, ast.Sub):
            return -node.right.value
    if isinstance(node, ast.BinOp) and isinstance(node.right, ast.Name) and node.right.id == name \
            and isinstance(node.left, ast.Constant) and isinstance(node.op, ast.Add):
        return node.left.value
    return None


def check_bisect(rep, run: Run, D: Blocks):
    fi = run.fi
    from .common import fn_view
    view = fn_view(run.project, fi)
    w = _while_of(fi, view)
    # roles: candidate array = name assigned in the loop from a slice of itself; probe index = subscript index of it
    cand = None
    for n in ast.walk(w):
        if isinstance(n, ast.Assign) and len(n.targets) == 1 and isinstance(n.targets[0], ast.Name) \
                and isinstance(n.value, ast.Subscript) and isinstance(n.value.value, ast.Name) \
                and n.value.value.id == n.targets[0].id and isinstance(n.value.slice, ast.Slice):
            cand = n.targets[0].id
    if cand is None:
        if _check_lohi(rep, run, D, fi, w, view):
            return
        rep.unmodelled("BN-BISECT", fi, w, "search loop neither narrows a candidate array by slicing nor is a recognised "
                                           "lo/hi binary search (different search style)")
        return
    probe = None
    dname = None
    for n in ast.walk(w):
        if isinstance(n, ast.Assign) and isinstance(n.value, ast.Subscript) and isinstance(n.value.value, ast.Name) \
                and n.value.value.id == cand and isinstance(n.value.slice, ast.Name) and isinstance(n.targets[0], ast.Name):
            probe = n.value.slice.id
            dname = n.targets[0].id
    if probe is None:
        rep.unmodelled("BN-BISECT", fi, w, "probe element of the candidate array not found")
        return
    # the feasibility branch: the `if` of the loop body whose arms re-bind the candidate array to a slice of itself
    def narrowing(body):
        for st in body:
            if isinstance(st, ast.Assign) and isinstance(st.targets[0], ast.Name) and st.targets[0].id == cand \
                    and isinstance(st.value, ast.Subscript):
                return st
        return None

    cands_br = [n for n in w.body if isinstance(n, ast.If) and (narrowing(n.body) is not None or narrowing(n.orelse) is not None)]
    if len(cands_br) != 1:
        rep.unmodelled("BN-BISECT", fi, w, f"feasibility branch not found in the search loop ({len(cands_br)} candidates)")
        return
    branch = cands_br[0]
    ok_arm, fail_arm = narrowing(branch.body), narrowing(branch.orelse)
    if ok_arm is None or fail_arm is None:
        rep.refuted("BN-BISECT", fi, branch, "one arm of the feasibility branch does not narrow the candidate array: "
                                             "the search loops forever or ignores the verdict")
        return
    lo, hi, stp = _slice_bounds(ok_arm.value.slice)
    lo_k, hi_k = _affine_of(lo, probe), _affine_of(hi, probe)
    if lo_k in ("none", ("const", 0)) and hi_k == 0 and stp is None:
        rep.discharged("BN-BISECT", fi, ok_arm, f"feasible arm keeps exactly the candidates below the probe "
                                                f"([:{probe}])")
    elif lo_k in ("none", ("const", 0)) and isinstance(hi_k, int):
        rep.refuted("BN-BISECT", fi, ok_arm,
                    f"feasible arm keeps [:{probe}{hi_k:+d}]: " + ("the probe itself stays and the loop never ends"
                                                                   if hi_k > 0 else
                                                                   "a smaller candidate just below the probe is skipped and "
                                                                   "may be the true optimum"))
    else:
        rep.unmodelled("BN-BISECT", fi, ok_arm, "unrecognised narrowing in the feasible arm")
    lo, hi, stp = _slice_bounds(fail_arm.value.slice)
    lo_k, hi_k = _affine_of(lo, probe), _affine_of(hi, probe)
    if lo_k == 1 and hi_k == "none":
        rep.discharged("BN-BISECT", fi, fail_arm, f"infeasible arm keeps exactly the candidates above the probe "
                                                  f"([{probe}+1:])")
    elif isinstance(lo_k, int) and hi_k == "none":
        rep.refuted("BN-BISECT", fi, fail_arm,
                    f"infeasible arm keeps [{probe}{lo_k:+d}:]: " + ("the infeasible probe stays and the loop never ends"
                                                                     if lo_k <= 0 else
                                                                     "the candidate right above the probe is skipped and may "
                                                                     "be the optimum"))
    else:
        rep.unmodelled("BN-BISECT", fi, fail_arm, "unrecognised narrowing in the infeasible arm")
    # accepted value: assigned from the probe only in the feasible arm; initial value = last (largest) candidate
    accepted = [st for st in branch.body if isinstance(st, ast.Assign) and isinstance(st.value, ast.Name)
                and st.value.id == dname and isinstance(st.targets[0], ast.Name)]
    if not accepted:
        rep.unmodelled("BN-BISECT", fi, branch, "how the feasible arm records its result was not recognised (a callback, an "
                                                "accumulator, an index)")
    else:
        res_name = accepted[0].targets[0].id
        others = [n for n in ast.walk(w) if isinstance(n, ast.Assign) and isinstance(n.targets[0], ast.Name)
                  and n.targets[0].id == res_name and n not in accepted]
        if others:
            rep.refuted("BN-BISECT", fi, others[0], "the distance is also overwritten outside the feasible arm")
        else:
            rep.discharged("BN-BISECT", fi, accepted[0], f"`{res_name}` is only ever replaced by a feasible candidate")
        init = None
        for st in view.body:
            if isinstance(st, ast.Assign) and isinstance(st.targets[0], ast.Name) and st.targets[0].id == res_name:
                init = st
        if init is not None and isinstance(init.value, ast.Subscript) and isinstance(init.value.value, ast.Name) \
                and init.value.value.id == cand and isinstance(init.value.slice, ast.UnaryOp) \
                and isinstance(init.value.slice.operand, ast.Constant) and init.value.slice.operand.value == 1:
            rep.discharged("BN-BISECT", fi, init, "search starts from the largest candidate (always feasible: +inf or "
                                                  "the all-to-diagonal matching)", nontrivial=False)
        elif init is not None:
            rep.refuted("BN-BISECT", fi, init, "initial distance is not the largest candidate: if no probe succeeds the "
                                               "returned value is not a feasible cost")
    # candidate array derives from D by flatten/unique/sort only
    for ev in run.events("assign"):
        if ev["name"] == cand and isinstance(ev["value"], Bag):
            b = ev["value"]
            if b.src == D.uid and b.elem == D.elem_choice():
                rep.discharged("BN-THRESH", fi, ev["node"], "candidate thresholds are exactly the entries of the cost "
                                                            "matrix (flatten/unique/sort)")
            elif CAND_STATUS.get("v") == "ok":
                rep.discharged("BN-THRESH", fi, ev["node"], "candidate thresholds cover the entries of the cost matrix (BN-CAND)")
            elif CAND_STATUS.get("v") == "refuted":
                pass
            else:
                rep.unmodelled("BN-THRESH", fi, ev["node"], "candidate thresholds are not recognisably the entries of the cost "
                                                            "matrix")
            break


def _check_lohi(rep, run, D, fi, w, view=None) -> bool:
    """lo/hi binary search for the smallest feasible candidate: while lo < hi: mid = (lo+hi)//2;
    feasible → hi = mid; infeasible → lo = mid+1; answer = candidates[lo] (inclusive upper end, last candidate feasible)"""
    t = w.test
    if not (isinstance(t, ast.Compare) and len(t.ops) == 1 and isinstance(t.ops[0], ast.Lt) and isinstance(t.left, ast.Name)
            and isinstance(t.comparators[0], ast.Name)):
        return False
    lo, hi = t.left.id, t.comparators[0].id
    mids = [n for n in w.body if isinstance(n, ast.Assign) and isinstance(n.targets[0], ast.Name)
            and ast.unparse(n.value).replace(" ", "") in (f"({lo}+{hi})//2", f"{lo}+({hi}-{lo})//2", f"({hi}+{lo})//2")]
    if not mids:
        return False
    mid = mids[0].targets[0].id
    def _moves_bound(body):
        return any(isinstance(st, ast.Assign) and any(isinstance(t, ast.Name) and t.id in (lo, hi) for t in st.targets)
                   for st in body)
    branch = [n for n in w.body if isinstance(n, ast.If) and (_moves_bound(n.body) or _moves_bound(n.orelse))]
    if len(branch) != 1:
        return False
    br = branch[0]

    def upd(body):
        out = {}
        for st in body:
            if isinstance(st, ast.Assign):
                for tg in st.targets:  # `best = hi = mid` binds every target
                    if isinstance(tg, ast.Name) and tg.id in (lo, hi):
                        out[tg.id] = _affine_of(st.value, mid)
        return out

    a, b = upd(br.body), upd(br.orelse)
    arms = {}
    for u in (a, b):
        if hi in u and lo not in u:
            arms["feasible"] = u
        elif lo in u and hi not in u:
            arms["infeasible"] = u
    if set(arms) != {"feasible", "infeasible"}:
        rep.refuted("BN-BISECT", fi, br, "one arm of the feasibility branch does not move a search bound: the search loops "
                                         "forever or ignores the verdict")
        return True
    kf, ki = arms["feasible"][hi], arms["infeasible"][lo]
    if kf == 0:
        rep.discharged("BN-BISECT", fi, br, f"feasible arm keeps the probe as the upper end ({hi} = {mid})")
    elif isinstance(kf, int):
        rep.refuted("BN-BISECT", fi, br, f"feasible arm sets {hi} = {mid}{kf:+d}: " + (
            "the feasible probe itself is discarded although it may be the optimum" if kf < 0 else "the range does not shrink"))
    else:
        rep.unmodelled("BN-BISECT", fi, br, "unrecognised update of the upper bound")
    if ki == 1:
        rep.discharged("BN-BISECT", fi, br, f"infeasible arm excludes the probe ({lo} = {mid} + 1)")
    elif isinstance(ki, int):
        rep.refuted("BN-BISECT", fi, br, f"infeasible arm sets {lo} = {mid}{ki:+d}: " + (
            "the infeasible probe stays in range and the loop never ends when the bounds are adjacent" if ki <= 0 else
            "the candidate right above the probe is skipped and may be the optimum"))
    else:
        rep.unmodelled("BN-BISECT", fi, br, "unrecognised update of the lower bound")
    # initial bounds and the answer
    f = view if view is not None else fi.node
    inits = {}
    for st in ast.walk(f):
        if isinstance(st, ast.Assign) and st.lineno < w.lineno:
            if isinstance(st.targets[0], ast.Tuple) and isinstance(st.value, ast.Tuple):
                for tt, vv in zip(st.targets[0].elts, st.value.elts):
                    if isinstance(tt, ast.Name) and tt.id in (lo, hi):
                        inits[tt.id] = vv
            elif isinstance(st.targets[0], ast.Name) and st.targets[0].id in (lo, hi):
                inits[st.targets[0].id] = st.value
    lo0 = inits.get(lo)
    hi0 = inits.get(hi)
    hi_txt = ast.unparse(hi0).replace(" ", "") if hi0 is not None else ""
    import re as _re
    hi_txt = _re.sub(r"^(\w+)\.size", r"len(\1)", hi_txt)          # ds.size  == len(ds) for a 1-d array
    hi_txt = _re.sub(r"^(\w+)\.shape\[0\]", r"len(\1)", hi_txt)   # ds.shape[0]
    lo_zero = lo0 is not None and isinstance(lo0, ast.Constant) and lo0.value == 0
    inclusive = lo_zero and hi_txt.startswith("len(") and hi_txt.endswith(")-1")
    half_open = lo_zero and hi_txt.startswith("len(") and hi_txt.endswith(")") and hi_txt.count("(") == 1
    cand = None
    if inclusive:
        rep.discharged("BN-BISECT", fi, w, f"search starts on the whole candidate range [0, len−1]; the last (largest) candidate "
                                           f"is always feasible")
        ans = [st for st in ast.walk(f) if isinstance(st, ast.Assign) and st.lineno > w.end_lineno
               and isinstance(st.value, ast.Subscript) and isinstance(st.value.slice, ast.Name) and st.value.slice.id == lo]
        if ans:
            cand = ast.unparse(ans[0].value.value)
            rep.discharged("BN-BISECT", fi, ans[0], f"the distance is the candidate at the final lower bound "
                                                    f"({ast.unparse(ans[0].value)})")
        else:
            rep.unmodelled("BN-BISECT", fi, w, "the value returned after the search was not recognised")
    elif half_open:
        rep.discharged("BN-BISECT", fi, w, "search starts on the whole candidate range [0, len) (half-open)")
        # the answer is recorded from the probe in the feasible arm and starts at the largest candidate
        probes = [st for st in w.body if isinstance(st, ast.Assign) and isinstance(st.targets[0], ast.Name)
                  and isinstance(st.value, ast.Subscript) and isinstance(st.value.slice, ast.Name) and st.value.slice.id == mid
                  and isinstance(st.value.value, ast.Name)]
        feas_body = br.body if hi in upd(br.body) else br.orelse
        inline = sorted({n.value.id for n in ast.walk(w) if isinstance(n, ast.Subscript) and isinstance(n.value, ast.Name)
                         and isinstance(n.slice, ast.Name) and n.slice.id == mid})
        if not probes and len(inline) != 1:
            rep.unmodelled("BN-BISECT", fi, w, "probe element of the candidate array not found")
        else:
            if probes:
                dname, cand = probes[0].targets[0].id, probes[0].value.value.id
            else:
                dname, cand = None, inline[0]   # the probe is read in place as cand[mid]
            probe_txt = f"{cand}[{mid}]"
            flat = []
            for st in feas_body:   # `a, b = x, y` counts as two assignments
                if isinstance(st, ast.Assign) and isinstance(st.targets[0], ast.Tuple) and isinstance(st.value, ast.Tuple) \
                        and len(st.targets[0].elts) == len(st.value.elts):
                    for tt, vv in zip(st.targets[0].elts, st.value.elts):
                        a2 = ast.Assign(targets=[tt], value=vv)
                        ast.copy_location(a2, st)
                        a2.end_lineno = st.end_lineno
                        flat.append(a2)
                else:
                    flat.append(st)
            accepted = [st for st in flat if isinstance(st, ast.Assign) and isinstance(st.targets[0], ast.Name)
                        and ((isinstance(st.value, ast.Name) and st.value.id == dname)
                             or ast.unparse(st.value) == probe_txt)]
            if not accepted:
                rep.unmodelled("BN-BISECT", fi, br, "how the feasible arm records its result was not recognised (an index, a "
                                                    "flag, or nothing because the bounds carry the answer)")
            else:
                res_name = accepted[0].targets[0].id
                def _binds(st, name):
                    if not isinstance(st, ast.Assign):
                        return None
                    t0 = st.targets[0]
                    if isinstance(t0, ast.Name) and t0.id == name:
                        return st.value
                    if isinstance(t0, ast.Tuple) and isinstance(st.value, ast.Tuple) and len(t0.elts) == len(st.value.elts):
                        for tt, vv in zip(t0.elts, st.value.elts):
                            if isinstance(tt, ast.Name) and tt.id == name:
                                return vv
                    return None
                others = [n for n in ast.walk(w) if _binds(n, res_name) is not None
                          and not (isinstance(_binds(n, res_name), ast.Name) and _binds(n, res_name).id == dname)
                          and ast.unparse(_binds(n, res_name)) != probe_txt]
                feas_nodes = {id(x) for st in feas_body for x in ast.walk(st)}
                others += [n for n in ast.walk(w) if _binds(n, res_name) is not None and id(n) not in feas_nodes
                           and n not in others]
                if others:
                    rep.refuted("BN-BISECT", fi, others[0], "the distance is also overwritten outside the feasible arm")
                else:
                    rep.discharged("BN-BISECT", fi, accepted[0], f"`{res_name}` is only ever replaced by a feasible candidate")
                init = []
                for st in f.body:
                    v0 = _binds(st, res_name)
                    if v0 is not None:
                        a2 = ast.Assign(targets=[ast.Name(id=res_name, ctx=ast.Store())], value=v0)
                        ast.copy_location(a2, st)
                        a2.end_lineno = st.end_lineno
                        init.append(a2)
                if init and isinstance(init[0].value, ast.Subscript) and isinstance(init[0].value.value, ast.Name) \
                        and init[0].value.value.id == cand and ast.unparse(init[0].value.slice) == "-1":
                    rep.discharged("BN-BISECT", fi, init[0], "search starts from the largest candidate (always feasible: +inf "
                                                             "or the all-to-diagonal matching)", nontrivial=False)
                elif init:
                    rep.refuted("BN-BISECT", fi, init[0], "initial distance is not the largest candidate: if no probe succeeds "
                                                          "the returned value is not a feasible cost")
                else:
                    rep.unmodelled("BN-BISECT", fi, w, "initial value of the distance not found")
    else:
        rep.unmodelled("BN-BISECT", fi, w, f"initial search bounds {ast.unparse(lo0) if lo0 is not None else '?'}, "
                                           f"{ast.unparse(hi0) if hi0 is not None else '?'} not recognised")
    if cand is not None:
        seen_c = False
        import re as _re2
        cand0 = _re2.sub(r"^_i\d+_", "", cand)  # the name inside the helper the search was inlined from
        for ev in run.events("assign"):
            if ev["name"] not in (cand, cand0):
                continue
            seen_c = True
            v = ev["value"]
            if isinstance(v, Bag) and v.elem == D.elem_choice():
                rep.discharged("BN-THRESH", fi, ev["node"], "candidate thresholds are exactly the entries of the cost matrix")
            elif CAND_STATUS.get("v") == "ok":
                rep.discharged("BN-THRESH", fi, ev["node"], "candidate thresholds cover the entries of the cost matrix (BN-CAND)")
            elif CAND_STATUS.get("v") == "refuted":
                pass
            elif isinstance(v, (Bag, Arr)):
                from ..core.values import generic_elem
                rep.unmodelled("BN-THRESH", fi, ev["node"], f"candidate thresholds are drawn from {sym.show(generic_elem(v))[:120]}: "
                                                            f"not recognisably all entries of the cost matrix")
            else:
                rep.unmodelled("BN-THRESH", fi, ev["node"], f"candidate thresholds not modelled: {v!r}"[:160])
            break
        if not seen_c:
            rep.unmodelled("BN-THRESH", fi, w, f"definition of the candidate array `{cand}` not found")
    return True


def check_order(rep, run: Run):
    fi = run.fi
    for ev, e in run.distance_values():
        if e is None:
            continue
        bad = [x for x in sym.walk(e) if x[0] == "opq" and x[1] in ("hk_partner", "hk_matching")]
        if bad:
            rep.refuted("BN-ORDER", fi, ev["node"], "the returned distance depends on which matching the library "
                                                    "found (set/dict iteration order), not only on its size")
        else:
            rep.discharged("BN-ORDER", fi, ev["node"], "the returned distance depends on the matching only through "
                                                       "len(): independent of set iteration order / hash seed")


def _check_all_dropped(rep, run, qual, rule, name):
    """a diagram whose points all have an infinite death time has nothing left after the filter: it must be stood in for by the
    diagonal point exactly like a diagram that was empty to begin with (otherwise the matrix has no rows for it and the call
    fails or pairs the other diagram with nothing)"""
    fi = run.fi
    try:
        D = run.cost_matrix()
    except AnalysisError:
        rep.unmodelled(rule, fi, fi.node, f"`{name}` with only infinite points: no cost matrix was assembled")
        return
    def exact(s_):
        # nothing before this store of the matrix was unmodelled (what follows the assembly does not matter here)
        evs = [e for e in run.log if e["kind"] == "store" and e.get("node") is s_["node"]]
        return run.interp.clean_before(evs[-1]) if evs else run.interp.clean_before()
    holders = [s for s in D.stores if isinstance(s["val"], DiagMat) and not sym.inputs_of(s["val"].on)]
    if holders:
        s = holders[0]
        v = s["val"]
        if v.on == sym.ZERO and sym.equal(v.n, sym.ONE):
            rep.discharged(rule, fi, s["node"], f"`{name}` with only infinite points is represented by one point with zero diagonal "
                                                f"cost, like an empty diagram")
        elif exact(s):
            rep.refuted(rule, fi, s["node"], f"`{name}` with only infinite points is represented by {sym.show(v.n)} point(s) with "
                                             f"diagonal cost {sym.show(v.on)} — not a diagonal point",
                        construct=f"{qual}: placeholder for all-infinite {name}")
        else:
            rep.unmodelled(rule, fi, s["node"], f"`{name}` with only infinite points: the placeholder was not followed exactly")
        return
    # no placeholder block: the filtered diagram went on with zero rows
    zero_rows = [s for s in D.stores if isinstance(s["val"], DiagMat) and sym.inputs_of(s["val"].on) == {name}]
    if zero_rows and exact(zero_rows[0]):
        s = zero_rows[0]
        rep.refuted(rule, fi, s["node"], f"a diagram `{name}` whose points all have an infinite death time is left with no rows after "
                                         f"the filter and is not replaced by the diagonal point: the cost matrix has no row for it "
                                         f"(the call fails, or the other diagram is matched against nothing)",
                    construct=f"{qual}: no placeholder for all-infinite {name}")
    else:
        rep.unmodelled(rule, fi, fi.node, f"placeholder block for `{name}` with only infinite points not found")


def check_empty(rep, project, qual, rule="BN-EMPTY"):
    """an empty diagram is replaced by the single diagonal point (0,0)"""
    for kind, name in (("empty1", "S"), ("empty2", "T"), ("allinf1", "S"), ("allinf2", "T")):
        run = Run(project, qual, kind=kind)
        fi = run.fi
        if kind.startswith("allinf"):
            _check_all_dropped(rep, run, qual, rule, name)
            continue
        D = run.cost_matrix()
        roles = block_roles(run, D)
        # the diagonal block of the empty side must be constant 0 cost (point on the diagonal), 1x1
        found = False
        for s in D.stores:
            v = s["val"]
            if isinstance(v, DiagMat) and not sym.inputs_of(v.on):
                found = True
                if v.on == sym.ZERO and sym.equal(v.n, sym.ONE):
                    rep.discharged(rule, fi, s["node"], f"empty `{name}` is represented by one point with zero "
                                                        f"diagonal cost (a diagonal point)")
                else:
                    rep.refuted(rule, fi, s["node"], f"empty `{name}` is represented by {sym.show(v.n)} point(s) with "
                                                     f"diagonal cost {sym.show(v.on)} — not a diagonal point, so the "
                                                     f"distance to the empty diagram is wrong",
                                construct=f"{qual}: placeholder for empty {name}: {sym.show(v.on)}")
        if not found:
            rep.unmodelled(rule, fi, fi.node, f"placeholder block for empty `{name}` not found")


def run(project: Project, rep, tier: str):
    rep.explain(
        "C01 (clauses decided — necessary conditions of the statement's cost model and search, not optimality): "
        "`bottleneck` is evaluated symbolically on two generic diagrams; BN-COST compares the normal forms of the four "
        "blocks of the augmented matrix with the statement's (L∞ cross cost, (d−b)/2 diagonal, +inf off-diagonal, 0 "
        "remainder) by structural equality or identity testing of the derived expressions with a witness input; "
        "BN-TILE checks slice extents against block shapes for all sizes; BN-FILTER/WARN re-evaluates under the "
        "configuration 'rows with infinite death present'; BN-THRESH/PERFECT/BISECT/ORDER decide the search's "
        "structural invariants; BN-EMPTY evaluates the empty-diagram configurations. Declined: optimality of binary "
        "search + Hopcroft–Karp; float ties.")
    rep.assume("Hopcroft–Karp returns a maximum matching as a dict with both directions; feasibility is monotone in the "
               "threshold; exact arithmetic")
    run = Run(project, BN)
    fi = run.fi
    rep.analysed(fi)
    D = run.cost_matrix()
    for u in run.interp.unmodelled:
        rep.note(f"unmodelled value {u['tag']} at line {getattr(u['node'], 'lineno', 0)}")
    check_cost(rep, run, D)
    check_tiling(rep, "BN-TILE", run, D, fi)
    check_filter(rep, "BN-FILTER", project, BN)
    graph_status = check_graph(rep, "BN-GRAPH", run, D)
    from .distances import check_candidates
    CAND_STATUS["v"] = check_candidates(rep, "BN-CAND", run, D)
    check_thresh_perfect(rep, run, D, graph_status, CAND_STATUS["v"])
    # BN-SEARCH follows the search on fixed candidate lists with a feasibility oracle (whatever its shape); the site rule
    # BN-BISECT reads the shapes it knows. A shape BN-BISECT does not know is not an error when BN-SEARCH decided the search.
    from ..core.report import Report
    from .search import check_search
    max_n = 9 if tier == "thorough" else 6
    pre = Report("C01-search")
    st = check_search(project, pre, max_n)
    if st != "unmodelled":
        check_search(project, rep, max_n)
    pre_b = Report("C01-bisect")
    check_bisect(pre_b, run, D)
    bisect_decided = not pre_b.errors or pre_b.refutations
    if st == "ok" and (pre_b.errors or pre_b.refutations):
        # BN-SEARCH followed the search itself on every candidate list up to the bound and found the smallest feasible
        # candidate returned each time: what the shape reader makes of an unfamiliar shape does not count against it
        rep.discharged("BN-BISECT", fi, fi.node, "the search has a shape the site rule does not read; it was followed and decided by "
                                                 "BN-SEARCH", nontrivial=False)
        skip_bisect_floor = True
    else:
        check_bisect(rep, run, D)
        skip_bisect_floor = False
    if st == "unmodelled" and not bisect_decided:
        check_search(project, rep, max_n)   # report why the semantic rule could not follow it either
    check_order(rep, run)
    # BN-SHORT: a short cut taken before the search must compare the diagrams as multisets of points
    n_sc = 0
    from .distances import colsort_decides
    for ev in colsort_decides(run):
        n_sc += 1
        rep.refuted("BN-SHORT", run.fi, ev["node"], "a diagram's birth and death columns are sorted independently (np.sort(..., axis=0)) and the result decides the "
                    "distance: two different diagrams with the same births and the same deaths, paired differently, are treated as "
                    "equal (0 returned for [[0,2],[1,3]] vs [[0,3],[1,2]], whose distance is 1)",
                    construct=f"{BN}: column-wise sort")
    if not n_sc:
        rep.discharged("BN-SHORT", run.fi, run.fi.node, "no short cut compares the diagrams column by column", nontrivial=False)
    check_empty(rep, project, BN)
    # BN-DTYPE: representation independence of the distance's own input handling — no float store into an array typed by a diagram,
    # no cast of one diagram to the dtype of the other (rules/dtype_rule.py) — over the entry point and the helpers it calls
    from . import dtype_rule as _dt
    from .oneshot import reachable_functions as _reach
    _fns = _reach(project, [BN])
    if _fns:
        _dt.run_on(project, rep, "BN-DTYPE", _fns)
    rep.floor("BN-DTYPE", 1)
    for ev in run.events("shape-error"):
        if run.interp.clean_before(ev):
            rep.refuted("BN-TILE", fi, ev["node"], f"shape mismatch for some sizes: {ev['message']}")
        else:
            rep.unmodelled("BN-TILE", fi, ev["node"], f"a shape mismatch is reported after values the run could not model: "
                                                     f"{ev['message']}"[:200])
    rep.floor("BN-COST", 5)
    rep.floor("BN-TILE", 7)
    rep.floor("BN-GRAPH", 1)
    rep.floor("BN-CAND", 1)
    rep.floor("BN-FILTER", 2)
    rep.floor("BN-THRESH", 1 if graph_status == "ok" else 2)
    rep.floor("BN-PERFECT", 1)
    rep.floor("BN-BISECT", 1 if skip_bisect_floor else 4)
    rep.floor("BN-SEARCH", 1 if st != "unmodelled" else 0)
    rep.floor("BN-ORDER", 1)
    rep.floor("BN-EMPTY", 4)
    for t in ("numpy.abs", "numpy.maximum", "numpy.fill_diagonal", "numpy.unique", "numpy.sort",
              "hopcroftkarp.HopcroftKarp.maximum_matching", "bisect.bisect_left", "numpy.isfinite"):
        rep.trust(t)
