"""C15 — sliced Wasserstein = averaged 1-D transport cost, pseudo-metric (sliced_wasserstein.py).

Decided: SW-DEG (degree-1 homogeneity — proved), SW-SHIFT (invariance under diagonal translation, also into
negative coordinates — proved when every projected value carries the same translation weight), SW-PROJ (the
diagonal projection of (b,d) is ((b+d)/2,(b+d)/2)), SW-AUG (V1 = proj(PD1) ++ proj(Δ(PD2)), V2 the role-swap; both
sorted), SW-AVG (M steps of weight 1/M over a half circle starting at θ=π/2; direction (cos θπ, sin θπ)).
Declined: ≤ 2·W1, triangle inequality, diagonal-point insensitivity, quadrature error in M.
"""
from __future__ import annotations

import ast
from ..core import facets, sym, symeval
from ..core.absint import Config, Interp
from ..core.loader import Project
from ..core.values import Arr, Bag, Sc
from .distances import dgm_input, unmodelled_in

SW = "persim.sliced_wasserstein.sliced_wasserstein"


def _unit(e, name, row_iv):
    """coefficients (c0, c1) such that e == c0*name[row,0] + c1*name[row,1] (by substitution)"""
    a0, a1 = sym.In(name, ((row_iv, 0), 0)), sym.In(name, ((row_iv, 0), 1))
    c0 = sym.subst(e, {a0: sym.ONE, a1: sym.ZERO})
    c1 = sym.subst(e, {a0: sym.ZERO, a1: sym.ONE})
    return c0, c1


def _row_iv(e, name):
    for x in sym.walk(e):
        if x[0] == "in" and x[1] == name and isinstance(x[2][0], tuple):
            return x[2][0][0]
    return None


def check_empty_side(project: Project, rep):
    """SW-EMPTY — the empty diagram is a legitimate argument (its distance to F is the cost of sending F to the diagonal):
    `sliced_wasserstein` is evaluated with an empty second / first diagram and must return a value, not raise.  Refute-only
    probe: a raise that is certain on an exactly followed run is reported; a run that is not followed exactly is recorded as
    a note (the other clauses do not depend on it)."""
    from ..core.values import Arr, fix, fresh
    fi = project.function(SW)
    ps = fi.params
    for side in (1, 0):
        I = Interp(project, Config(nonempty={("rows", "F")}, finite_inputs={"F"}))
        E = Arr([(fix(0), fresh()), (fix(2), fresh())], sym.Opq("empty", ()), "nd")
        F = dgm_input("F")
        args = {ps[0]: F if side == 1 else E, ps[1]: E if side == 1 else F}
        if len(ps) > 2:
            args[ps[2]] = Sc(sym.Sym("M"))
        what = "sliced_wasserstein(F, ∅)" if side == 1 else "sliced_wasserstein(∅, F)"
        try:
            r = I.run(SW, args)
        except Exception as ex:
            rep.note(f"SW-EMPTY {what}: could not be followed ({type(ex).__name__})")
            continue
        exact = not I.unmodelled and not I.lossy
        raises = [ev for ev in I.log if ev["kind"] == "raise" and not ev.get("propagated")]
        certain = [ev for ev in raises if all(I.decide(c) is True for c in ev["path"])]
        returned = [ev for ev in I.log if ev["kind"] == "return" and ev["fi"] is fi]
        if exact and certain and not returned:
            ev = certain[0]
            rep.refuted("SW-EMPTY", ev["fi"] or fi, ev["node"],
                        f"{what} raises (`{ast.unparse(ev['node'])[:70]}` is reached on every run with an empty diagram): the distance "
                        f"to the empty diagram is the cost of sending the other diagram to the diagonal, not an error",
                        construct=f"{SW}: one empty diagram raises")
        elif exact and not raises and isinstance(r, Sc):
            rep.discharged("SW-EMPTY", fi, fi.node, f"{what} returns a value; no raise is reachable")
        else:
            rep.note(f"SW-EMPTY {what}: not followed exactly / a conditional raise — no verdict")


def run(project: Project, rep, tier: str):
    rep.explain(
        "C15 (clauses decided): `sliced_wasserstein` is evaluated symbolically on two generic diagrams with a symbolic "
        "number of directions; the loop-variant angle is an opaque configuration scalar, so every projection carries a "
        "symbolic translation weight cosθ+sinθ. SW-DEG: result degree 1 ⇒ scales linearly. SW-SHIFT: all entries of both "
        "projected vectors carry the same weight, so the sorted L1 difference has weight 0 ⇒ invariance under diagonal "
        "translation including into negative coordinates. SW-PROJ: the projected diagonal points are (cosθ+sinθ)·(b+d)/2 "
        "(tolerance 1e-6: the direction is built in float32). SW-AUG: role-swap of V1 gives V2 and both are sorted. "
        "SW-AVG: accumulation weight 1/M over M trips, θ from ½ advancing by 1/M, direction (cos θπ, sin θπ). Declined: "
        "≤2·W1, triangle inequality, diagonal points, quadrature error.")
    rep.assume("exact arithmetic; float32 rounding of the direction vector ignored within 1e-6; cityblock(sorted, sorted) is "
               "the 1-D optimal transport cost of equal-size samples")
    fi = project.function(SW)
    rep.analysed(fi)
    check_empty_side(project, rep)
    # SW-DTYPE: 'equals the averaged 1-D transport cost' is a statement about the numbers in the diagram, not their numpy
    # dtype: projections (floats) must not be stored into an array that inherits the caller's dtype (int diagrams truncate)
    import ast as _ast
    from . import dtype_rule
    mod = SW.rsplit(".", 1)[0]
    n_fn = 0
    for q, f2 in sorted(project.functions.items()):
        if not q.startswith(mod + ".") or not isinstance(f2.node, (_ast.FunctionDef, _ast.AsyncFunctionDef)):
            continue
        n_fn += 1
        for h in dtype_rule.analyse(project, f2):
            rep.refuted("SW-DTYPE", f2, h["node"],
                        h["why"] + ": for a diagram given with integer coordinates numpy truncates the stored projections, so "
                                   "the result is no longer the averaged 1-D transport cost of the projected points",
                        construct=f"{f2.qualname}: {_ast.unparse(h['node'])[:100]}")
    rep.discharged("SW-DTYPE", fi, fi.node, f"{n_fn} function(s) of {mod} inspected: no floating-point store into an array "
                                            f"whose dtype is inherited from the caller's data")
    # the coordinates themselves are never rounded to single precision (rules/narrow_rule.py): the direction table is float32
    # by construction, the diagrams are not — invariance under diagonal translation is exact only on the numbers given
    from .common import numerics_positive_examples
    rep.extra["positive_examples"] = numerics_positive_examples()
    from . import narrow_rule
    hits, st_ = narrow_rule.analyse(project, mod, SW)
    for h in hits:
        rep.refuted("SW-DTYPE", h["fi"], h["node"],
                    h["why"] + ": every coordinate is rounded to a relative 6e-8, so translating both diagrams along the diagonal "
                               "by t changes the result by an error that grows with |t| (and the result is float32)",
                    construct=f"{h['fi'].qualname}: {_ast.unparse(h['node'])[:100]}")
    if not hits:
        rep.discharged("SW-DTYPE", fi, fi.node, f"{st_.get('casts', 0)} cast(s) in {st_.get('functions', 0)} function(s): none "
                                                f"narrows data reached from the diagrams (single-precision tables: "
                                                f"{', '.join(st_.get('single_arrays', [])[:4]) or 'none'})")
    ps = fi.params
    I = Interp(project, Config(nonempty={("rows", "P"), ("rows", "Q")}, finite_inputs={"P", "Q"}))
    args = {ps[0]: dgm_input("P"), ps[1]: dgm_input("Q")}
    if len(ps) > 2:
        args[ps[2]] = Sc(sym.Sym("M"))
    r = I.run(SW, args)
    for ev in I.log:
        if ev["kind"] == "shape-error" and not I.clean_before(ev):
            rep.unmodelled("SW-AUG", fi, ev["node"], f"a shape disagreement is reported after values the run could not model: "
                                                     f"{ev['message']}"[:200])
        elif ev["kind"] == "shape-error":
            rep.refuted("SW-AUG", fi, ev["node"], f"the two projected vectors do not have equal length for all sizes: "
                                                  f"{ev['message']}")
        if ev["kind"] == "sort-columns":
            rep.refuted("SW-AVG", fi, ev["node"],
                        "a diagram's birth and death columns are sorted independently (np.sort(..., axis=0)) to decide the "
                        "distance: different diagrams with the same births and the same deaths, paired differently, are "
                        "treated as equal (P=[[0,2],[1,3]], Q=[[0,3],[1,2]]: true distance 1.29)",
                        construct=f"{SW}: column-wise sort shortcut")
    # a closeness test with numpy's default absolute tolerance on quantities that scale with the data is not scale-free: what
    # it lets through at unit scale it swallows at scale 1e-9 (and its relative part is relative to the distance from the
    # origin, so it is not translation-invariant either)
    from ..core.values import generic_elem as _ge
    for ev in I.log:
        if ev["kind"] == "compare" and ev.get("op") == "isclose":
            try:
                d_ = facets.degree(_ge(ev["lhs"]), facets.DegDecl())
            except Exception:
                continue
            if not facets.is_top(d_) and d_ != facets.POLY and abs(d_[0]) > 1e-9:
                rep.refuted("SW-DEG", ev["fi"] or fi, ev["node"],
                            "projected coordinates (which scale with the diagrams) are compared with np.isclose's absolute tolerance "
                            "1e-8 / a tolerance relative to their distance from the origin: pairs that count at unit scale are "
                            "dropped for tiny diagrams or far from the origin, so the value no longer scales linearly nor is "
                            "invariant under diagonal translation",
                            construct=f"{SW}: np.isclose on projected coordinates")
                return
    if not isinstance(r, Sc) or unmodelled_in(r.e):
        rep.unmodelled("SW-DEG", fi, fi.node, f"result not fully modelled: {unmodelled_in(r.e) if isinstance(r, Sc) else r!r}")
        return
    e = r.e
    d = facets.degree(e, facets.DegDecl())
    if facets.is_top(d):
        (rep.unmodelled if d.reason.startswith("unmodelled") else rep.refuted)(
            "SW-DEG", fi, fi.node, f"not homogeneous: {d.reason} [{sym.show(d.culprit)[:140] if d.culprit is not None else ''}]")
    elif d != facets.POLY and abs(d[0] - 1) < 1e-9:
        rep.discharged("SW-DEG", fi, fi.node, "result has homogeneity degree 1 ⇒ sw(λP,λQ)=λ·sw(P,Q) for every input",
                       derived=sym.show(e)[:300])
    else:
        rep.refuted("SW-DEG", fi, fi.node, f"result has degree {facets._dshow(d)}, not 1", construct=f"{SW}: degree")
    w = facets.weight(e, facets.ShiftDecl())
    if facets.is_top(w):
        if w.reason.startswith("unmodelled"):
            rep.unmodelled("SW-SHIFT", fi, fi.node, w.reason)
        else:
            # blame the construct that produced the culprit
            node = fi.node
            for ev in I.log:
                if ev["kind"] in ("pow", "sqrt", "assign") and ev["fi"] is fi:
                    vals = [ev.get("value"), ev.get("base"), ev.get("arg")]
                    hit = False
                    for v in vals:
                        if v is None:
                            continue
                        from ..core.values import generic_elem
                        try:
                            ge = generic_elem(v)
                        except Exception:
                            continue
                        if ev["kind"] == "assign":
                            wv = facets.weight(ge, facets.ShiftDecl())
                            hit = facets.is_top(wv)
                        elif ev["kind"] == "pow":
                            wv = facets.weight(ge, facets.ShiftDecl())
                            hit = (not facets.is_top(wv)) and wv not in (sym.ZERO, facets.ANYW)
                        if hit:
                            break
                    if hit:
                        node = ev["node"]
                        break
            rep.refuted("SW-SHIFT", fi, node,
                        f"not invariant under diagonal translation: {w.reason} "
                        f"[{sym.show(w.culprit)[:140] if w.culprit is not None else ''}] — for b+d<0 the projected "
                        f"diagonal point is reflected through the origin",
                        construct=f"{SW}: translation", failing_input="[[-3,-1]] vs [[-2.5,-1]]: 0.540; after shifting "
                                                                      "both by +5: 0.479")
    elif w == sym.ZERO:
        rep.discharged("SW-SHIFT", fi, fi.node, "every projected entry carries weight cosθ+sinθ, the sorted L1 difference "
                                                "has weight 0 ⇒ invariant under diagonal translation for every input")
    else:
        rep.refuted("SW-SHIFT", fi, fi.node, f"translation weight {sym.show(w)} ≠ 0", construct=f"{SW}: translation")
    # ---- structure of the two vectors
    cbs = [ev for ev in I.log if ev["kind"] == "cityblock"]
    if len(cbs) != 1 or not all(isinstance(cbs[0][k], Bag) and cbs[0][k].parts for k in ("a", "b")):
        rep.unmodelled("SW-AUG", fi, fi.node, "the two sorted projected vectors were not found")
        return
    cb = cbs[0]
    A, Bv = cb["a"], cb["b"]
    if A.is_sorted and Bv.is_sorted:
        rep.discharged("SW-AUG", fi, cb["node"], "both projected vectors are sorted before the L1 distance", nontrivial=False)
    else:
        rep.refuted("SW-AUG", fi, cb["node"], "the L1 distance is taken between vectors that are not both sorted: it is "
                                              "not the 1-D transport cost")

    def parts(bag):
        out = {}
        for p_ in bag.parts:
            if isinstance(p_, Arr):
                ins = sym.inputs_of(p_.elem)
                out.setdefault(frozenset(ins), []).append(p_)
        return out

    pa, pb = parts(A), parts(Bv)
    ok_struct = set(pa) == {frozenset(["P"]), frozenset(["Q"])} and set(pb) == {frozenset(["P"]), frozenset(["Q"])}
    if not ok_struct:
        rep.refuted("SW-AUG", fi, cb["node"], f"each vector must hold the projection of one diagram and of the other's "
                                              f"diagonal points; found inputs {sorted(map(sorted, pa))} / "
                                              f"{sorted(map(sorted, pb))}")
        return
    # role swap: renaming P<->Q in V1 gives V2
    swap = {"P": "Q", "Q": "P"}
    a_sw = symeval.canon_rows(sym.rename_input(A.elem, swap))
    b_c = symeval.canon_rows(Bv.elem)
    okk, wit = symeval.equivalent_sets(a_sw, b_c) if hasattr(symeval, "equivalent_sets") else (None, None)
    same = sym.equal(a_sw, b_c, 1e-6)
    if not same:
        # compare alternative by alternative numerically
        la = list(a_sw[1]) if a_sw[0] == "choice" else [a_sw]
        lb = list(b_c[1]) if b_c[0] == "choice" else [b_c]
        same = len(la) == len(lb) and all(any(symeval.equivalent(x, y, tol=1e-6)[0] for y in lb) for x in la)
    if same:
        rep.discharged("SW-AUG", fi, cb["node"], "exchanging the two diagrams maps V1 onto V2 (symmetric augmentation)")
    else:
        rep.refuted("SW-AUG", fi, cb["node"], "V2 is not the role-swap of V1: the distance is not symmetric")
    # which part is the plain projection, which the diagonal projection: V1 = proj(PD1) ++ proj(Δ(PD2))
    projP = pa[frozenset(["P"])][0]
    deltaQ = pa[frozenset(["Q"])][0]
    ivP = _row_iv(projP.elem, "P")
    c0, c1 = _unit(projP.elem, "P", ivP)
    ivQ = _row_iv(deltaQ.elem, "Q")
    spec_delta = sym.mul(sym.add(c0, c1), sym.scale(sym.add(sym.In("Q", ((ivQ, 0), 0)), sym.In("Q", ((ivQ, 0), 1))), 0.5))
    okp, wit = symeval.equivalent(deltaQ.elem, spec_delta, tol=1e-6)
    lin_ok = symeval.equivalent(projP.elem, sym.add(sym.mul(c0, sym.In("P", ((ivP, 0), 0))),
                                                    sym.mul(c1, sym.In("P", ((ivP, 0), 1)))), tol=1e-6)[0]
    if not lin_ok:
        rep.refuted("SW-PROJ", fi, cb["node"], "a diagram point is not projected linearly onto the direction")
    if okp is True:
        rep.discharged("SW-PROJ", fi, cb["node"], "projected diagonal point of (b,d) is (cosθ+sinθ)·(b+d)/2, i.e. the "
                                                  "diagonal projection is ((b+d)/2,(b+d)/2)", derived=sym.show(deltaQ.elem)[:200])
    elif okp is False:
        rep.refuted("SW-PROJ", fi, cb["node"],
                    f"projected diagonal point is {sym.show(deltaQ.elem)[:200]}, not (cosθ+sinθ)·(b+d)/2; witness {wit}",
                    construct=f"{SW}: diagonal projection")
    else:
        rep.unmodelled("SW-PROJ", fi, cb["node"], f"cannot evaluate ({wit})")
    # ---- SW-AVG
    # the sweep over the directions may live in the entry point or be split over helpers of the same module (a generator
    # of per-direction costs and a routine that averages them): every loop of the module that carries state is read
    def own(ev):
        return ev.get("fi") is not None and ev["fi"].module is fi.module
    ar0 = [ev for ev in I.log if ev["kind"] == "arange" and own(ev) and not ev["integral"]]
    loops = [ev for ev in I.log if ev["kind"] == "loop" and own(ev) and ev["loop_kind"] == "for"
             and "carried" in ev and len(ev["carried"]) >= 1]
    def _has_l1(c):
        u_ = c["update"].e if isinstance(c.get("update"), Sc) else None
        return u_ is not None and any(x[0] == "fn" and x[1] in ("l1_sorted", "l1_positional") for x in sym.walk(u_))
    whole = [lp_ for lp_ in loops if len(lp_["carried"]) >= (1 if ar0 else 2)
             and any(c.get("kind") == "fold" and _has_l1(c) for c in lp_["carried"].values())]
    split = not whole and len(loops) >= 2
    if not whole and not split:
        rep.unmodelled("SW-AVG", fi, fi.node, "direction loop not found")
        return
    lp = whole[-1] if whole else loops[-1]
    M = sym.Sym("M")
    ar = [ev for ev in I.log if ev["kind"] == "arange" and own(ev) and not ev["integral"]]
    if ar:
        rep.refuted("SW-AVG", fi, ar[0]["node"],
                    f"the directions come from np.arange({sym.show(ar[0]['lo'])}, {sym.show(ar[0]['hi'])}, {sym.show(ar[0]['step'])}) "
                    f"with a non-integer step: its length is ceil((hi−lo)/step) evaluated in floating point, which is M+1 for "
                    f"M = 49, 98, 103, 107, … — one direction is counted twice while each still weighs 1/M",
                    failing_input="M=49: 50 directions, result 3.9% too high")
    elif all(sym.equal(lp_["space"].size, M) for lp_ in (loops if split else [lp])):
        rep.discharged("SW-AVG", fi, lp["node"], "the loop makes exactly M trips" if not split else
                       f"the {len(loops)} loops of the sweep (costs produced, costs averaged) make exactly M trips each", nontrivial=False)
    else:
        bad_ = [lp_ for lp_ in (loops if split else [lp]) if not sym.equal(lp_["space"].size, M)][0]
        rep.refuted("SW-AVG", bad_.get("fi") or fi, bad_["node"], f"the loop makes {sym.show(bad_['space'].size)} trips instead of M")
    acc = [(n, c, lp_) for lp_ in (loops if split else [lp]) for n, c in lp_["carried"].items() if c.get("kind") == "fold"]
    found_acc = found_theta = False
    for n, c, lp in acc:
        ph = c["placeholder"]
        upd = c["update"].e if isinstance(c["update"], Sc) else None
        if upd is None:
            continue
        term = sym.sub(upd, ph)
        if any(x[0] == "fn" and x[1] in ("l1_sorted", "l1_positional") for x in sym.walk(term)):
            found_acc = True
            l1 = [x for x in sym.walk(term) if x[0] == "fn" and x[1] in ("l1_sorted", "l1_positional")][0]
            coef = sym.subst(term, {l1: sym.ONE})
            if sym.equal(coef, sym.div(sym.ONE, M)) or symeval.equivalent(coef, sym.div(sym.ONE, M), positive_syms={"M"})[0]:
                rep.discharged("SW-AVG", fi, lp["node"], "each direction contributes with weight 1/M (an average over M "
                                                         "directions)")
            else:
                rep.refuted("SW-AVG", fi, lp["node"], f"each direction contributes with weight {sym.show(coef)} instead of "
                                                      f"1/M", construct=f"{SW}: averaging weight")
            init = c["init"].e if isinstance(c["init"], Sc) else None
            if init != sym.ZERO:
                rep.refuted("SW-AVG", fi, lp["node"], f"the accumulator starts at {sym.show(init)} instead of 0")
        else:
            # the angle
            init = c["init"].e if isinstance(c["init"], Sc) else None
            found_theta = True
            step_ok = sym.equal(term, sym.div(sym.ONE, M)) or symeval.equivalent(term, sym.div(sym.ONE, M), positive_syms={"M"})[0]
            if init is not None and not sym.has_coord(init) and step_ok:
                rep.discharged("SW-AVG", fi, lp["node"], f"θ starts at {sym.show(init)} (·π) and advances by 1/M per trip: M "
                                                         f"equally spaced directions over a half circle")
            else:
                rep.refuted("SW-AVG", fi, lp["node"], f"θ starts at {sym.show(init)} and advances by {sym.show(term)} per trip "
                                                      f"(expected a step of 1/M): the directions do not sample the half circle "
                                                      f"uniformly", construct=f"{SW}: angle schedule")
            want0 = sym.fn("cos", sym.scale(ph, 3.141592653589793))
            want1 = sym.fn("sin", sym.scale(ph, 3.141592653589793))
            strip = lambda x: x[2][0] if (x[0] == "fn" and x[1] == "float32") else x
            if sym.equal(strip(c0), want0) and sym.equal(strip(c1), want1):
                rep.discharged("SW-AVG", fi, lp["node"], "direction is (cos θπ, sin θπ)")
            else:
                rep.refuted("SW-AVG", fi, lp["node"], f"direction is ({sym.show(c0)}, {sym.show(c1)}), not (cos θπ, sin θπ)",
                            construct=f"{SW}: direction vector")
    if not found_acc:
        rep.unmodelled("SW-AVG", fi, lp["node"], "accumulation of the per-direction cost not recognised")
    if not found_theta and not ar0:
        rep.refuted("SW-AVG", fi, lp["node"], "the angle does not advance inside the loop: all M directions coincide",
                    construct=f"{SW}: angle schedule")
    for rn, n in (("SW-DEG", 1), ("SW-SHIFT", 1), ("SW-PROJ", 1), ("SW-AUG", 2), ("SW-AVG", 4)):
        rep.floor(rn, n)
    for t in ("numpy.dot", "scipy.spatial.distance.cityblock", "builtins.sorted", "numpy.cos", "numpy.sin", "numpy.sqrt"):
        rep.trust(t)
