"""PU-CACHE — module-level caches.

A module-level object that functions write to is hidden state; whether it breaks "repeating a call, or interleaving calls to
other functions, returns identical results" depends on what it is.  A *memo* (something rebuilt from the arguments whenever
it does not fit them) is harmless exactly when the test "does it fit?" pins down everything the cached object depends on.
That is a def-use question and is decided here; every other write to module state stays a PU-STATE refutation.

Pattern A — keyed dictionary:   `D = G.get(K)` / `G[K]` / `K in G`, `G[K] = D`, `G.clear()`, nothing else.
    Every size / index expression used to build the cached object, or to store into it afterwards (in the helper and in its
    direct callers, through the returned name), must be a function of the components of K: after replacing the components by
    placeholders no local name may be left.  `K = (M, N)` fits `D[0:M, N:N+M] = inf`; `K = M + N` does not (two calls with
    the same total and another split share one object whose layout depends on the split).
Pattern B — single slot:        `global G`, `if <guard(G, p)>: ... G = <built from p>`, then G is read.
    guard `G is None or <attr>(G) != p` with `<attr>` the length / shape[0] the builder gave it: the slot always holds the
    table for the current p.  An ordering guard (`<`, `<=`) reuses a table built for a larger p: refuted when the builder's
    entries depend on p other than through the length (`1.0 / M`), no verdict otherwise.
Anything that matches neither pattern is not a memo.
"""
from __future__ import annotations

import ast
from typing import Dict, List, Optional, Tuple

from ..core.loader import FunctionInfo, Project
from .common import local_names

SIZE_CALLS = {"zeros", "ones", "empty", "full", "arange", "eye", "identity", "linspace", "range", "full_like"}


def _uses(project: Project, mod, gname: str):
    """(function, Name node, parent chain) of every read / write of the module-level name in functions of the module"""
    out = []
    for q, fi in project.functions.items():
        if fi.module is not mod or fi.parent is not None or not isinstance(fi.node, (ast.FunctionDef, ast.AsyncFunctionDef)):
            continue
        decl = any(isinstance(n, ast.Global) and gname in n.names for n in ast.walk(fi.node))
        stores = [n for n in ast.walk(fi.node) if isinstance(n, ast.Name) and n.id == gname and isinstance(n.ctx, ast.Store)]
        if stores and not decl:
            continue   # a local of the same name
        parents = {}
        for n in ast.walk(fi.node):
            for c in ast.iter_child_nodes(n):
                parents[id(c)] = n
        for n in ast.walk(fi.node):
            if isinstance(n, ast.Name) and n.id == gname:
                out.append((fi, n, parents))
    return out


def _free_locals(e: ast.AST, comps: List[str], fi: FunctionInfo, project: Project) -> List[str]:
    """local names left in `e` after every occurrence of a key component was taken out"""
    left: List[str] = []
    busy = set()

    def defs_of(name):
        """right-hand sides the local name is given in this function (None when one of them is not a plain assignment)"""
        out = []
        for x in ast.walk(fi.node):
            if isinstance(x, ast.Assign):
                for t in x.targets:
                    if isinstance(t, ast.Name) and t.id == name:
                        out.append(x.value)
                    elif isinstance(t, (ast.Tuple, ast.List)) and any(isinstance(e_, ast.Name) and e_.id == name for e_ in t.elts):
                        if isinstance(x.value, (ast.Tuple, ast.List)) and len(x.value.elts) == len(t.elts):
                            out += [v for e_, v in zip(t.elts, x.value.elts) if isinstance(e_, ast.Name) and e_.id == name]
                        else:
                            return None
            elif isinstance(x, (ast.AugAssign, ast.For, ast.comprehension)) and any(
                    isinstance(e_, ast.Name) and e_.id == name for e_ in ast.walk(x.target)):
                return None
        a = fi.node.args
        if name in [y.arg for y in a.posonlyargs + a.args + a.kwonlyargs]:
            return None
        return out or None

    def rec(n):
        if isinstance(n, ast.expr) and ast.dump(n) in comps:
            return
        if isinstance(n, ast.Name):
            if isinstance(n.ctx, ast.Load) and n.id not in ("np", "numpy", "math", "True", "False", "None") \
                    and project.resolve(fi.module, n, local_names(fi.node)) is None and n.id not in left:
                # a local computed from the key alone (`rows = np.arange(M)`) is determined by the key
                ds = defs_of(n.id) if n.id not in busy and len(busy) < 12 else None
                if ds:
                    busy.add(n.id)
                    before = len(left)
                    for d in ds:
                        rec(d)
                    busy.discard(n.id)
                    if len(left) == before:
                        return
                    del left[before:]
                left.append(n.id)
            return
        if isinstance(n, ast.Attribute):
            if project.resolve(fi.module, n, local_names(fi.node)) is not None:
                return
        for c in ast.iter_child_nodes(n):
            rec(c)
    rec(e)
    return left


def _key_components(k: ast.AST) -> List[ast.AST]:
    return list(k.elts) if isinstance(k, ast.Tuple) else [k]


def classify(project: Project, modname: str, gname: str) -> Optional[dict]:
    """None: not a memo pattern.  Otherwise dict(kind='A'|'B', verdict='ok'|'refuted'|'unmodelled', why, node, fi)."""
    mod = project.modules.get(modname)
    if mod is None or gname not in mod.globals:
        return None
    uses = _uses(project, mod, gname)
    if not uses:
        return None
    init = mod.globals[gname]
    g = _identity_keyed(project, mod, gname, uses)
    if g is not None:
        return g
    if isinstance(init, ast.Dict) and not init.keys or (isinstance(init, ast.Call) and ast.unparse(init.func) in ("dict", "OrderedDict")
                                                         and not init.args and not init.keywords):
        return _keyed(project, mod, gname, uses)
    return _slot(project, mod, gname, uses)


# ------------------------------------------------------------------------------------------------------------ pattern G
_COPIES = ("copy", "array", "deepcopy", "ascontiguousarray")


def _is_copy_of(e, name: str) -> bool:
    """`e` is a fresh copy of the array called `name`: name.copy(), np.array(name), np.copy(name), copy.deepcopy(name),
    name.astype(...) (copy=True is the default)"""
    if isinstance(e, ast.Call) and isinstance(e.func, ast.Attribute) and isinstance(e.func.value, ast.Name) and e.func.value.id == name \
            and e.func.attr in ("copy", "astype") and not any(k.arg == "copy" for k in e.keywords):
        return True
    if isinstance(e, ast.Call) and e.args and isinstance(e.args[0], ast.Name) and e.args[0].id == name \
            and isinstance(e.func, (ast.Name, ast.Attribute)) and (e.func.attr if isinstance(e.func, ast.Attribute) else e.func.id) in _COPIES \
            and not any(k.arg == "copy" for k in e.keywords):
        return True
    return False


def _identity_keyed(project, mod, gname, uses):
    """a table of records keyed by `id(x)` of an array argument: the record kept for an id is reused only after it has been
    checked against the array's present contents (`known.describes(x)`, `np.array_equal(known.snapshot, x)`).  That check only
    means something when the record holds a PRIVATE COPY of the array: a record built on the caller's own array compares the
    array with itself, and an in-place change between two calls goes unnoticed."""
    fns = {fi.qualname: fi for fi, _, _ in uses}
    if len(fns) != 1:
        return None
    fi = next(iter(fns.values()))
    f = fi.node
    stores = [n for n in ast.walk(f) if isinstance(n, ast.Assign) and len(n.targets) == 1 and isinstance(n.targets[0], ast.Subscript)
              and isinstance(n.targets[0].value, ast.Name) and n.targets[0].value.id == gname]
    if len(stores) != 1:
        return None
    key = stores[0].targets[0].slice
    if not (isinstance(key, ast.Call) and isinstance(key.func, ast.Name) and key.func.id == "id" and len(key.args) == 1
            and isinstance(key.args[0], ast.Name)):
        return None
    x = key.args[0].id
    # the hit: a lookup by the same id, validated against x before the stored record is returned
    gets = [n for n in ast.walk(f) if isinstance(n, ast.Assign) and isinstance(n.value, (ast.Call, ast.Subscript))
            and gname in {m_.id for m_ in ast.walk(n.value) if isinstance(m_, ast.Name)} and "id(" in ast.unparse(n.value)
            and len(n.targets) == 1 and isinstance(n.targets[0], ast.Name)]
    if len(gets) != 1:
        return None
    known = gets[0].targets[0].id
    validated = False
    for n in ast.walk(f):
        if isinstance(n, ast.If) and any(isinstance(r, ast.Return) and r.value is not None and any(
                isinstance(m_, ast.Name) and m_.id == known for m_ in ast.walk(r.value)) for r in ast.walk(n)):
            names = {m_.id for m_ in ast.walk(n.test) if isinstance(m_, ast.Name)}
            calls = [c for c in ast.walk(n.test) if isinstance(c, ast.Call)]
            if known in names and x in names and calls:
                validated = True
    rec = stores[0].value
    if isinstance(rec, ast.Name):
        defs = [n.value for n in ast.walk(f) if isinstance(n, ast.Assign) and len(n.targets) == 1 and isinstance(n.targets[0], ast.Name)
                and n.targets[0].id == rec.id]
        rec = defs[-1] if defs else rec
    if not validated:
        return dict(kind="G", verdict="refuted", node=stores[0], fi=fi,
                    why=f"`{gname}` keeps results by `id({x})` and hands them back without comparing the array's present contents: an "
                        f"array changed in place (or a new array that happens to get the same id) gets the old result")
    if not (isinstance(rec, ast.Call) and rec.args):
        return dict(kind="G", verdict="unmodelled", node=stores[0], fi=fi, why="how the kept record is built was not recognised")
    a0 = rec.args[0]
    if _is_copy_of(a0, x):
        return dict(kind="G", verdict="ok", node=stores[0], fi=fi,
                    why=f"`{gname}` is keyed by `id({x})`; a kept record is reused only after it was compared with `{x}`, and it is "
                        f"built on a private copy (`{ast.unparse(a0)}`), so a change of `{x}` in place is noticed")
    if isinstance(a0, ast.Name) and a0.id == x:
        return dict(kind="G", verdict="refuted", node=stores[0], fi=fi,
                    why=f"`{gname}` is keyed by `id({x})` and a kept record is checked against `{x}` before it is reused — but the "
                        f"record is built on `{x}` itself (`{ast.unparse(rec)[:50]}`), not on a copy: the check compares the array with "
                        f"itself, so after an in-place change of `{x}` the results derived from its old contents are handed back")
    return dict(kind="G", verdict="unmodelled", node=stores[0], fi=fi, why=f"the record is built from `{ast.unparse(a0)[:40]}`")


# ------------------------------------------------------------------------------------------------------------ pattern A
def _keyed(project, mod, gname, uses):
    lookups, stores, others = [], [], []
    for fi, n, parents in uses:
        par = parents.get(id(n))
        if isinstance(par, ast.Attribute) and par.value is n:
            call = parents.get(id(par))
            if isinstance(call, ast.Call) and call.func is par:
                if par.attr == "get" and call.args:
                    lookups.append((fi, call.args[0], call))
                    continue
                if par.attr in ("clear",):
                    continue
                if par.attr in ("pop", "setdefault") and call.args:
                    lookups.append((fi, call.args[0], call))
                    continue
            others.append((fi, par))
        elif isinstance(par, ast.Subscript) and par.value is n:
            (stores if isinstance(par.ctx, ast.Store) else lookups).append((fi, par.slice, par))
        elif isinstance(par, ast.Compare) and n in par.comparators and all(isinstance(o, (ast.In, ast.NotIn)) for o in par.ops):
            lookups.append((fi, par.left, par))
        elif isinstance(par, ast.Call) and isinstance(par.func, ast.Name) and par.func.id == "len":
            continue
        else:
            others.append((fi, par))
    if others or not stores or not lookups:
        return None
    fis = {fi.qualname for fi, _, _ in lookups + stores}
    if len(fis) != 1:
        return dict(kind="A", verdict="unmodelled", why="the cache is filled and read in different functions", node=stores[0][2],
                    fi=stores[0][0])
    h = stores[0][0]
    keys = {ast.dump(k) for _, k, _ in lookups + stores}
    if len(keys) != 1:
        return dict(kind="A", verdict="unmodelled", why="the cache is read and filled under different key expressions", node=stores[0][2], fi=h)
    K = stores[0][1]
    if isinstance(K, ast.Name):
        # `key = (M, N)` assigned once in the helper: the key is what that name was given
        asg = [n.value for n in ast.walk(h.node) if isinstance(n, ast.Assign) and len(n.targets) == 1
               and isinstance(n.targets[0], ast.Name) and n.targets[0].id == K.id]
        if len(asg) == 1:
            K = asg[0]
    comps_h = [ast.dump(c) for c in _key_components(K)]
    # the name(s) of the cached object inside the helper
    st_parents = {}
    for n in ast.walk(h.node):
        for c in ast.iter_child_nodes(n):
            st_parents[id(c)] = n
    obj_names = set()
    for _, k, node in stores:
        asg = st_parents.get(id(node))
        if isinstance(asg, ast.Assign) and isinstance(asg.value, ast.Name):
            obj_names.add(asg.value.id)
    for _, k, node in lookups:
        asg = st_parents.get(id(node))
        if isinstance(asg, ast.Assign) and len(asg.targets) == 1 and isinstance(asg.targets[0], ast.Name):
            obj_names.add(asg.targets[0].id)
    if not obj_names:
        return dict(kind="A", verdict="unmodelled", why="the cached object is not held in a local name", node=stores[0][2], fi=h)
    exprs: List[Tuple[FunctionInfo, ast.AST, ast.AST, List[str]]] = []   # (function, expression, statement, key components there)

    def collect(fi, names, comps):
        for n in ast.walk(fi.node):
            if isinstance(n, ast.Assign) and len(n.targets) == 1 and isinstance(n.targets[0], ast.Name) and n.targets[0].id in names \
                    and isinstance(n.value, ast.Call):
                f_ = n.value.func
                nm = f_.attr if isinstance(f_, ast.Attribute) else getattr(f_, "id", "")
                if nm in SIZE_CALLS:
                    for a_ in n.value.args[:1] + [k.value for k in n.value.keywords if k.arg in ("shape", "num", "N")]:
                        exprs.append((fi, a_, n, comps))
            if isinstance(n, (ast.Assign, ast.AugAssign)):
                tg = n.targets if isinstance(n, ast.Assign) else [n.target]
                for t in tg:
                    if isinstance(t, ast.Subscript) and isinstance(t.value, ast.Name) and t.value.id in names:
                        exprs.append((fi, t.slice, n, comps))
    collect(h, obj_names, comps_h)
    # direct callers that receive the object
    returns_obj = any(isinstance(n, ast.Return) and isinstance(n.value, ast.Name) and n.value.id in obj_names for n in ast.walk(h.node))
    if returns_obj:
        a = h.node.args
        params = [x.arg for x in a.posonlyargs + a.args]
        for q, g in project.functions.items():
            if g.module is not mod or not isinstance(g.node, (ast.FunctionDef, ast.AsyncFunctionDef)) or g is h:
                continue
            for n in ast.walk(g.node):
                if isinstance(n, ast.Assign) and len(n.targets) == 1 and isinstance(n.targets[0], ast.Name) \
                        and isinstance(n.value, ast.Call) and project.resolve(mod, n.value.func, local_names(g.node)) == h.qualname:
                    if any(isinstance(x, ast.Starred) for x in n.value.args) or n.value.keywords:
                        return dict(kind="A", verdict="unmodelled", why="the helper is called with starred / keyword arguments", node=n, fi=g)
                    amap = dict(zip(params, n.value.args))

                    class Sub(ast.NodeTransformer):
                        def visit_Name(self, x):
                            return amap.get(x.id, x) if isinstance(x.ctx, ast.Load) else x
                    import copy
                    comps_g = [ast.dump(Sub().visit(copy.deepcopy(c))) for c in _key_components(K)]
                    collect(g, {n.targets[0].id}, comps_g)
    if not exprs:
        return dict(kind="A", verdict="unmodelled", why="nothing is known about how the cached object is built", node=stores[0][2], fi=h)
    for fi, e, st, comps in exprs:
        left = _free_locals(e, comps, fi, project)
        if left:
            return dict(kind="A", verdict="refuted", node=st, fi=fi,
                        why=f"`{gname}` is a cache looked up under `{ast.unparse(K)}`, but `{ast.unparse(st)[:70]}` lays the cached object "
                            f"out with `{left[0]}`, which that key does not determine: two calls that agree on the key and differ in "
                            f"`{left[0]}` share one object, and the later one inherits cells the earlier one wrote")
    return dict(kind="A", verdict="ok", node=stores[0][2], fi=h,
                why=f"`{gname}` is a cache looked up under `{ast.unparse(K)}`; every size and index used to build the cached object and "
                    f"to write into it ({len(exprs)} expression(s)) is a function of that key")


# ------------------------------------------------------------------------------------------------------------ pattern B
def _slot(project, mod, gname, uses):
    writers = {fi.qualname: fi for fi, n, _ in uses if isinstance(n.ctx, ast.Store)}
    if len(writers) != 1:
        return None
    h = next(iter(writers.values()))
    # if <guard>: ...; G = X
    guard = None
    for n in ast.walk(h.node):
        if isinstance(n, ast.If) and any(isinstance(x, ast.Name) and x.id == gname and isinstance(x.ctx, ast.Store)
                                         for s in n.body for x in ast.walk(s)):
            guard = n
            break
    if guard is None or guard.orelse:
        return None
    # stores outside the guarded block?
    inside = {id(x) for s in guard.body for x in ast.walk(s)}
    if any(isinstance(n.ctx, ast.Store) and id(n) not in inside for fi, n, _ in uses):
        return None
    a = h.node.args
    params = [x.arg for x in a.posonlyargs + a.args]
    tests = guard.test.values if isinstance(guard.test, ast.BoolOp) and isinstance(guard.test.op, ast.Or) else [guard.test]
    cmp_ = []
    for t in tests:
        if isinstance(t, ast.Compare) and len(t.ops) == 1 and isinstance(t.ops[0], (ast.Is, ast.Eq)) \
                and isinstance(t.comparators[0], ast.Constant) and t.comparators[0].value is None:
            continue   # `G is None`
        cmp_.append(t)
    if len(cmp_) != 1 or not (isinstance(cmp_[0], ast.Compare) and len(cmp_[0].ops) == 1):
        return dict(kind="B", verdict="unmodelled", why="the test that decides whether the slot is rebuilt was not read", node=guard, fi=h)
    c = cmp_[0]
    sides = [c.left, c.comparators[0]]
    g_side = [s for s in sides if any(isinstance(x, ast.Name) and x.id == gname for x in ast.walk(s))]
    p_side = [s for s in sides if s not in g_side]
    if len(g_side) != 1 or not isinstance(p_side[0], ast.Name) or p_side[0].id not in params:
        return dict(kind="B", verdict="unmodelled", why="the rebuild test does not compare the slot with a parameter", node=guard, fi=h)
    p = p_side[0].id
    gtxt = ast.unparse(g_side[0]).replace(" ", "")
    if gtxt not in (f"{gname}.shape[0]", f"len({gname})", f"{gname}.size"):
        return dict(kind="B", verdict="unmodelled", why=f"`{ast.unparse(g_side[0])}` is not the length of the slot", node=guard, fi=h)
    # what is built: other parameters involved?  entries that depend on p beyond the length?
    build = guard.body
    other = sorted({x.id for s in build for x in ast.walk(s) if isinstance(x, ast.Name) and x.id in params and x.id != p})
    if other:
        return dict(kind="B", verdict="refuted", node=guard, fi=h,
                    why=f"the slot `{gname}` is rebuilt from `{other[0]}` as well, but the test `{ast.unparse(guard.test)}` only looks at "
                        f"`{p}`: a call with another `{other[0]}` gets the table of the earlier one")
    value_dep = []
    for s in build:
        for call in [x for x in ast.walk(s) if isinstance(x, ast.Call)]:
            f_ = call.func
            nm = f_.attr if isinstance(f_, ast.Attribute) else getattr(f_, "id", "")
            size_args = call.args[:1] if nm in SIZE_CALLS and nm != "linspace" else (call.args[2:3] if nm == "linspace" else [])
            for k_, a_ in enumerate(call.args):
                if a_ in size_args:
                    continue
                if nm in SIZE_CALLS and any(isinstance(x, ast.Name) and x.id == p for x in ast.walk(a_)):
                    value_dep.append(call)
        for x in ast.walk(s):
            if isinstance(x, ast.BinOp) and isinstance(x.op, (ast.Div, ast.Mult)) and any(
                    isinstance(y, ast.Name) and y.id == p for y in ast.walk(x)):
                value_dep.append(x)
    op = c.ops[0]
    if isinstance(op, ast.NotEq):
        return dict(kind="B", verdict="ok", node=guard, fi=h,
                    why=f"the slot `{gname}` is rebuilt whenever its length differs from `{p}`, the only parameter it is built from")
    if isinstance(op, (ast.Lt, ast.LtE, ast.Gt, ast.GtE)):
        if value_dep:
            return dict(kind="B", verdict="refuted", node=guard, fi=h,
                        why=f"the slot `{gname}` is kept whenever it is long enough (`{ast.unparse(guard.test)}`), but its entries depend on "
                            f"`{p}` itself (`{ast.unparse(value_dep[0])[:50]}`): after a call with a larger `{p}` a smaller one gets the "
                            f"first entries of the wrong table")
        return dict(kind="B", verdict="unmodelled", why="a longer table is reused for a shorter request: whether its first entries are "
                                                         "the shorter table was not decided", node=guard, fi=h)
    return dict(kind="B", verdict="unmodelled", why="the rebuild test is neither `!=` nor an ordering test", node=guard, fi=h)


# ------------------------------------------------------------------------------------------------------------ pattern C
def _self_attr(n) -> Optional[str]:
    return n.attr if isinstance(n, ast.Attribute) and isinstance(n.value, ast.Name) and n.value.id == "self" else None


def _class_attr_graph(project: Project, cls):
    """per attribute: the attributes its assignments read (locals expanded), and whether some assignment takes a method
    parameter (a `base` attribute: set from outside)"""
    from .common import expand_locals
    dep: Dict[str, set] = {}
    base: set = set()
    for k in cls.mro(project):
        for m in list(k.methods.values()) + list(k.setters.values()):
            if not isinstance(m.node, (ast.FunctionDef, ast.AsyncFunctionDef)):
                continue
            a = m.node.args
            params = {x.arg for x in a.posonlyargs + a.args + a.kwonlyargs} - {"self"}
            # a parameter stored as it comes (`self._birth_range = val`) is, from then on, that attribute: an extent computed
            # from `val` in the same method follows `_birth_range`, it is not set from outside itself
            verbatim = {}
            for n in ast.walk(m.node):
                if isinstance(n, ast.Assign) and len(n.targets) == 1 and _self_attr(n.targets[0]) and isinstance(n.value, ast.Name) \
                        and n.value.id in params:
                    verbatim.setdefault(n.value.id, _self_attr(n.targets[0]))
            for n in ast.walk(m.node):
                pairs = []
                if isinstance(n, ast.Assign):
                    for t in n.targets:
                        if isinstance(t, (ast.Tuple, ast.List)) and isinstance(n.value, (ast.Tuple, ast.List)) and len(t.elts) == len(n.value.elts):
                            pairs += list(zip(t.elts, n.value.elts))
                        else:
                            pairs.append((t, n.value))
                elif isinstance(n, (ast.AugAssign, ast.AnnAssign)) and n.value is not None:
                    pairs.append((n.target, n.value))
                elif isinstance(n, ast.Call) and isinstance(n.func, ast.Name) and n.func.id == "setattr" and len(n.args) == 3 \
                        and isinstance(n.args[0], ast.Name) and n.args[0].id == "self" and isinstance(n.args[1], ast.Constant):
                    pairs.append((ast.Attribute(ast.Name("self", ast.Load()), str(n.args[1].value), ast.Store()), n.args[2]))
                for t, v in pairs:
                    nm = _self_attr(t)
                    if nm is None:
                        continue
                    e = expand_locals(m.node, v)
                    reads = {_self_attr(x) for x in ast.walk(e)} - {None}
                    raw = {x.id for x in ast.walk(e) if isinstance(x, ast.Name) and x.id in params}
                    if isinstance(v, ast.Name) and v.id in params:
                        base.add(nm)              # stored as it comes
                    else:
                        reads |= {verbatim[p_] for p_ in raw if p_ in verbatim}
                        if raw - set(verbatim):
                            base.add(nm)
                    dep.setdefault(nm, set()).update(reads - {nm})
    return dep, base


def classify_attr(project: Project, cls, attr: str) -> Optional[dict]:
    """an attribute written by a method that is meant to leave the object as it is: a memo slot (`if self.X is None or
    self.X_key != key: self.X = build(self...); self.X_key = key`) is harmless when the key names every outside-set attribute
    the build depends on (through the attributes derived from them)"""
    from .common import expand_locals
    for k in cls.mro(project):
        for m in k.methods.values():
            if not isinstance(m.node, (ast.FunctionDef, ast.AsyncFunctionDef)):
                continue
            for g in ast.walk(m.node):
                if not isinstance(g, ast.If) or g.orelse:
                    continue
                stored = {}
                for s in g.body:
                    if isinstance(s, ast.Assign) and len(s.targets) == 1 and _self_attr(s.targets[0]):
                        stored[_self_attr(s.targets[0])] = s
                if attr not in stored or len(stored) > 2:
                    continue
                tests = g.test.values if isinstance(g.test, ast.BoolOp) and isinstance(g.test.op, ast.Or) else [g.test]
                key_attr, key_expr = None, None
                ok_shape = True
                for t in tests:
                    if isinstance(t, ast.Compare) and len(t.ops) == 1 and isinstance(t.ops[0], (ast.Is, ast.Eq)) \
                            and isinstance(t.comparators[0], ast.Constant) and t.comparators[0].value is None and _self_attr(t.left) in stored:
                        continue
                    if isinstance(t, ast.Compare) and len(t.ops) == 1 and isinstance(t.ops[0], ast.NotEq) and _self_attr(t.left) in stored:
                        key_attr, key_expr = _self_attr(t.left), t.comparators[0]
                        continue
                    ok_shape = False
                if not ok_shape or key_attr is None:
                    continue
                slot = [a_ for a_ in stored if a_ != key_attr]
                if len(slot) != 1:
                    continue
                slot = slot[0]
                # the key that is recorded must be the key that is compared
                rec = expand_locals(m.node, stored[key_attr].value)
                cmp_ = expand_locals(m.node, key_expr)
                if ast.dump(rec) != ast.dump(cmp_):
                    return dict(kind="C", verdict="unmodelled", node=g, fi=m, slot=slot, key_attr=key_attr,
                                why="the key that is recorded is not the key that is compared")
                key_attrs = {_self_attr(x) for x in ast.walk(cmp_)} - {None}
                build = expand_locals(m.node, stored[slot].value)
                # everything read while the slot is rebuilt (locals unpacked from a call are not expanded: take the block)
                inputs = {_self_attr(x) for st_ in g.body if st_ is not stored[key_attr] for x in ast.walk(st_)
                          if isinstance(getattr(x, "ctx", None), ast.Load)} - {None, slot, key_attr}
                inputs |= {_self_attr(x) for x in ast.walk(build)} - {None, slot, key_attr}
                a = m.node.args
                if any(isinstance(x, ast.Name) and x.id in ({y.arg for y in a.posonlyargs + a.args} - {"self"}) for x in ast.walk(build)):
                    return dict(kind="C", verdict="refuted", node=g, fi=m, slot=slot, key_attr=key_attr,
                                why=f"`self.{slot}` is built from an argument of `{m.name}` that the recorded key does not contain")
                dep, base = _class_attr_graph(project, cls)
                seen, todo = set(), list(inputs)
                while todo:
                    x = todo.pop()
                    if x in seen or x in (slot, key_attr):
                        continue
                    seen.add(x)
                    todo.extend(dep.get(x, ()))
                need = sorted((seen & base) - key_attrs)
                if need:
                    via = sorted(inputs)[0] if inputs else "?"
                    return dict(kind="C", verdict="refuted", node=g, fi=m, slot=slot, key_attr=key_attr,
                                why=f"`self.{slot}` is kept as long as `{ast.unparse(cmp_)[:70]}` is unchanged, but it is built from "
                                    f"`self.{via}`, which follows `self.{need[0]}` — and that is not part of the key: after `{need[0]}` "
                                    f"changes (a refit, a setter) with the key unchanged, the stale `{slot}` is used")
                return dict(kind="C", verdict="ok", node=g, fi=m, slot=slot, key_attr=key_attr,
                            why=f"`self.{slot}` is a memo of {sorted(inputs)} rebuilt whenever `{ast.unparse(cmp_)[:70]}` changes; every "
                                f"outside-set attribute those follow ({sorted(seen & base)}) is in the key")
    return None


# ------------------------------------------------------------------------------------------------------------ for every check
def class_level_memos(project: Project, classes=None) -> List[dict]:
    """Pattern D — a dictionary bound in a CLASS BODY (`_table = {}`) that methods fill through `self._table[K] = V` and no
    method re-binds per instance: one object shared by every instance.  It is a correct memo only when V is a function of the
    components of K; a V that reads `self.<attr>` (the state of one instance) or a parameter that is not part of K makes what
    an instance computes depend on which instances filled the table before.  One record per such table:
    dict(fi, node, verdict 'ok' | 'refuted' | None, why)."""
    out = []
    for cq, c in sorted(project.classes.items()):
        if classes is not None and cq not in classes:
            continue
        tables = {}
        for st in c.node.body:
            if isinstance(st, ast.Assign) and len(st.targets) == 1 and isinstance(st.targets[0], ast.Name):
                v = st.value
                if (isinstance(v, ast.Dict) and not v.keys) or (isinstance(v, ast.Call) and isinstance(v.func, ast.Name)
                                                               and v.func.id in ("dict", "OrderedDict", "defaultdict") and not v.args):
                    tables[st.targets[0].id] = st
        if not tables:
            continue
        methods = [m for m in c.methods.values() if isinstance(m.node, (ast.FunctionDef, ast.AsyncFunctionDef))]
        for tname, tnode in sorted(tables.items()):
            if any(isinstance(t, ast.Attribute) and t.attr == tname and isinstance(t.ctx, ast.Store)
                   for m in methods for n in ast.walk(m.node) if isinstance(n, (ast.Assign, ast.AugAssign, ast.AnnAssign))
                   for t in (n.targets if isinstance(n, ast.Assign) else [n.target])):
                continue   # re-bound per instance somewhere: not (only) the class's object
            verdicts = []
            for m in methods:
                first = m.params[0] if m.params else None
                for n in ast.walk(m.node):
                    if not isinstance(n, ast.Assign):
                        continue
                    for t in n.targets:
                        if not (isinstance(t, ast.Subscript) and isinstance(t.value, ast.Attribute) and t.value.attr == tname
                                and isinstance(t.value.value, ast.Name) and t.value.value.id in (first, c.name, "cls")):
                            continue
                        key = t.slice
                        if isinstance(key, ast.Name):
                            defs = [a.value for a in ast.walk(m.node) if isinstance(a, ast.Assign) and any(
                                isinstance(x, ast.Name) and x.id == key.id for x in a.targets)]
                            if len(defs) == 1:
                                key = defs[0]
                        comps = [ast.dump(k_) for k_ in (key.elts if isinstance(key, ast.Tuple) else [key])]
                        comp_names = {x.id for k_ in (key.elts if isinstance(key, ast.Tuple) else [key]) for x in ast.walk(k_)
                                      if isinstance(x, ast.Name)}
                        left = []

                        def rec(e):
                            if isinstance(e, ast.expr) and ast.dump(e) in comps:
                                return
                            if isinstance(e, ast.Attribute) and isinstance(e.value, ast.Name) and e.value.id == first:
                                left.append(f"{first}.{e.attr}")
                                return
                            if isinstance(e, ast.Name) and isinstance(e.ctx, ast.Load) and e.id in m.params and e.id != first \
                                    and e.id not in comp_names:
                                left.append(e.id)
                            for ch in ast.iter_child_nodes(e):
                                rec(ch)
                        rec(n.value)
                        verdicts.append((m, n, sorted(set(left)), ast.unparse(key)))
            if not verdicts:
                continue
            bad = [v for v in verdicts if v[2]]
            if bad:
                m, n, left, ktxt = bad[0]
                out.append(dict(fi=m, node=n, verdict="refuted", table=tname,
                                why=f"`{c.name}.{tname}` is bound in the class body: one dictionary shared by every instance. It is filled "
                                    f"under the key `{ktxt}` with a value that depends on {', '.join('`' + x + '`' for x in left)}, which the key "
                                    f"does not contain: an instance reads entries another instance (another `{left[0].split('.')[-1]}`) stored"))
            else:
                m, n, _, ktxt = verdicts[0]
                out.append(dict(fi=m, node=n, verdict="ok", table=tname,
                                why=f"`{c.name}.{tname}` is a class-level memo keyed by `{ktxt}`; the stored value is a function of the key"))
    return out


def constructor_snapshots(project: Project, classes=None) -> List[dict]:
    """Pattern E — a value derived ONCE, in the constructor, from a setting the object also keeps as a plain public
    attribute (`self.kernel_params = kernel_params; self._kernel_args = _check(kernel_params)`) and read by the other methods
    in place of that attribute: assigning the public attribute afterwards (it has no property that would refresh the derived
    value) leaves every later call working with the settings of construction time.  One record per such derived attribute
    that a public method reads: dict(fi, node, attr, source, reader)."""
    out = []
    for cq, c in sorted(project.classes.items()):
        if classes is not None and cq not in classes:
            continue
        init = c.methods.get("__init__")
        if init is None or not isinstance(init.node, ast.FunctionDef) or not init.params:
            continue
        if c.name.startswith("_"):
            # a private helper object lives inside one call of the function that builds it: nobody assigns its attributes
            # between construction and use (L01 / L06: `_ThresholdGraph(cost)` inside bottleneck)
            continue
        me = init.params[0]
        params = set(init.params[1:])
        props = {m.name for m in c.methods.values() if m.kind in ("property", "setter")}
        methods = [m for m in c.methods.values() if isinstance(m.node, (ast.FunctionDef, ast.AsyncFunctionDef))]

        def stores(m):
            for n in ast.walk(m.node):
                tg = n.targets if isinstance(n, ast.Assign) else [n.target] if isinstance(n, (ast.AugAssign, ast.AnnAssign)) else []
                for t in tg:
                    for x in ast.walk(t):
                        if isinstance(x, ast.Attribute) and isinstance(x.value, ast.Name) and x.value.id == m.params[0] \
                                and isinstance(x.ctx, ast.Store):
                            yield n, x.attr
        plain = {}     # public plain attribute -> the parameter stored there as it came
        derived = {}   # attribute -> (assignment, names of parameters / plain attributes its value reads)
        for n, attr in stores(init):
            if not isinstance(n, ast.Assign) or n.value is None:
                continue
            v = n.value
            if isinstance(v, ast.Name) and v.id in params and not attr.startswith("_") and attr not in props:
                plain[attr] = v.id
        for n, attr in stores(init):
            if not isinstance(n, ast.Assign) or attr in plain or attr in props:
                continue
            reads = {x.id for x in ast.walk(n.value) if isinstance(x, ast.Name) and x.id in params}
            reads |= {plain_src for x in ast.walk(n.value) if isinstance(x, ast.Attribute) and isinstance(x.value, ast.Name)
                      and x.value.id == me and x.attr in plain for plain_src in [plain[x.attr]]}
            src = sorted(a for a, p_ in plain.items() if p_ in reads)
            if src and not isinstance(n.value, ast.Name):
                derived[attr] = (n, src)
        for attr, (node, src) in sorted(derived.items()):
            # written anywhere else (a setter, fit, a refresh helper): not a constructor-only snapshot
            if any(a == attr for m in methods if m is not init for _, a in stores(m)):
                continue
            # the public attribute is refreshed through a property: fine
            readers = [m for m in methods if m is not init and not m.name.startswith("__") and any(
                isinstance(x, ast.Attribute) and x.attr == attr and isinstance(x.value, ast.Name) and x.value.id == m.params[0]
                and isinstance(x.ctx, ast.Load) for x in ast.walk(m.node))]
            if readers:
                out.append(dict(fi=readers[0], node=node, attr=attr, source=src, cls=c,
                                why=f"`{c.name}.{attr}` is computed once in the constructor from `{', '.join(src)}`, which the object also "
                                    f"keeps as a plain public attribute; `{readers[0].name}` reads `{attr}` instead: assigning "
                                    f"`{src[0]}` after construction (nothing refreshes `{attr}`) leaves every later call working with the "
                                    f"value of construction time"))
    return out


def setter_bypasses(project: Project, classes=None) -> List[dict]:
    """Pattern F — a property whose setter does more than store (`self._values = v; self._pairs_cache = None`: it also drops
    what was derived from the old value), and code of the class that assigns the backing field directly
    (`out._values = values`) without dropping the same things: the object keeps derived state of the old value.
    One record per such store: dict(fi, node, prop, backing, extras, cls)."""
    out = []
    for cq, c in sorted(project.classes.items()):
        if classes is not None and cq not in classes:
            continue
        for prop, st in sorted(c.setters.items()):
            if not isinstance(st.node, ast.FunctionDef) or len(st.node.args.args) < 2:
                continue
            me, val = st.node.args.args[0].arg, st.node.args.args[1].arg
            backing, extras = None, {}
            for n in ast.walk(st.node):
                if isinstance(n, ast.Assign) and len(n.targets) == 1 and isinstance(n.targets[0], ast.Attribute) \
                        and isinstance(n.targets[0].value, ast.Name) and n.targets[0].value.id == me:
                    a = n.targets[0].attr
                    if isinstance(n.value, ast.Name) and n.value.id == val and backing is None:
                        backing = a
                    elif (isinstance(n.value, ast.Constant) and n.value.value is None) or (
                            isinstance(n.value, (ast.List, ast.Dict, ast.Tuple)) and not getattr(n.value, "elts", getattr(n.value, "keys", []))):
                        extras[a] = n      # an invalidation: what followed the old value is dropped
            if backing is None or not extras or backing == prop:
                continue
            # only resets count: the setter clears / recomputes something that followed the old value
            for m in c.methods.values():
                if not isinstance(m.node, ast.FunctionDef) or m.name in ("__init__", "__setstate__", "__new__") or m is st:
                    continue
                if m.kind in ("property", "setter") and m.name == prop:
                    continue
                for n in ast.walk(m.node):
                    if not (isinstance(n, ast.Assign) and len(n.targets) == 1 and isinstance(n.targets[0], ast.Attribute)
                            and n.targets[0].attr == backing and isinstance(n.targets[0].value, ast.Name)):
                        continue
                    obj = n.targets[0].value.id
                    also = {x.targets[0].attr for x in ast.walk(m.node) if isinstance(x, ast.Assign) and len(x.targets) == 1
                            and isinstance(x.targets[0], ast.Attribute) and isinstance(x.targets[0].value, ast.Name)
                            and x.targets[0].value.id == obj}
                    missing = sorted(set(extras) - also)
                    if missing:
                        out.append(dict(fi=m, node=n, prop=prop, backing=backing, extras=missing, cls=c,
                                        why=f"`{ast.unparse(n)[:60]}` in {c.name}.{m.name} assigns the field behind the property `{prop}` "
                                            f"directly; the setter of `{prop}` also resets {missing} (state derived from the old "
                                            f"value), which therefore survives: later calls answer from the stale `{missing[0]}`"))
    return out


def stale_cached_properties(project: Project, classes=None) -> List[dict]:
    """Pattern H — `functools.cached_property` computes once per object and is never invalidated: sound only for what cannot
    change after construction.  Reported when the cached body reads an attribute that some method other than `__init__`
    assigns (a `fit` that sets it, a setter), or a public attribute of an estimator class (`get_params` / `set_params` /
    a scikit-learn base: parameters are re-assignable by contract).  dict(fi, node, attr, why, cls)."""
    out = []
    for cq, c in sorted(project.classes.items()):
        if classes is not None and cq not in classes:
            continue
        estimator = any(b.rsplit(".", 1)[-1] in ("BaseEstimator", "TransformerMixin") for b in c.bases) or \
            any(k.lookup("set_params", project) is not None for k in [c])
        assigned_later = {}
        for k in c.mro(project):
            for m in k.methods.values():
                if not isinstance(m.node, ast.FunctionDef) or m.name in ("__init__", "__new__", "__setstate__") or not m.node.args.args:
                    continue
                me = m.node.args.args[0].arg
                for n in ast.walk(m.node):
                    tg = n.targets if isinstance(n, ast.Assign) else [n.target] if isinstance(n, (ast.AugAssign, ast.AnnAssign)) else []
                    for t in tg:
                        for x in ast.walk(t):
                            if isinstance(x, ast.Attribute) and isinstance(x.value, ast.Name) and x.value.id == me \
                                    and isinstance(x.ctx, ast.Store):
                                assigned_later.setdefault(x.attr, m)
        for m in c.methods.values():
            if not isinstance(m.node, ast.FunctionDef) or not m.node.args.args:
                continue
            decos = [ast.unparse(d).split("(")[0].rsplit(".", 1)[-1] for d in m.node.decorator_list]
            if "cached_property" not in decos:
                continue
            me = m.node.args.args[0].arg
            reads = sorted({x.attr for x in ast.walk(m.node) if isinstance(x, ast.Attribute) and isinstance(x.value, ast.Name)
                            and x.value.id == me and isinstance(x.ctx, ast.Load)})
            for a in reads:
                if a in assigned_later and assigned_later[a].name != m.name:
                    w = assigned_later[a]
                    out.append(dict(fi=m, node=m.node, attr=a, cls=c,
                                    why=f"`{c.name}.{m.name}` is a cached_property (computed once per object, never invalidated) and "
                                        f"reads `self.{a}`, which `{w.name}` assigns: after `{w.name}` runs again the cached value still "
                                        f"describes the old `{a}`"))
                    break
                if estimator and not a.startswith("_") and c.lookup(a, project) is None:
                    out.append(dict(fi=m, node=m.node, attr=a, cls=c,
                                    why=f"`{c.name}.{m.name}` is a cached_property (computed once per object, never invalidated) and "
                                        f"reads the estimator parameter `self.{a}`, which `set_params` / plain assignment may change at "
                                        f"any time: later calls keep working with the first value"))
                    break
    return out


_FRESH_CALLS = ("copy", "deepcopy", "array", "list", "dict", "set", "tuple", "asarray_chkfinite", "zeros_like", "empty_like")


def _fresh_value(e) -> bool:
    if isinstance(e, (ast.ListComp, ast.DictComp, ast.SetComp, ast.List, ast.Dict, ast.Set, ast.BinOp)):
        return True
    if isinstance(e, ast.Call):
        f = e.func
        nm = f.attr if isinstance(f, ast.Attribute) else getattr(f, "id", "")
        return nm in _FRESH_CALLS
    return False


def shallow_copy_writes(project: Project, classes=None) -> List[dict]:
    """Pattern I — a class whose `copy()` starts from a shallow copy of the object (`copy.copy(self)`, `__new__` +
    `__dict__.update`) and re-copies SOME attributes, and a method that takes `self.copy()` and then writes into an attribute
    of the copy in place (`out.cols[mask] = -1`): when that attribute is not among the re-copied ones, the write lands in the
    array the original still holds.  dict(fi, node, attr, cls, why)."""
    out = []
    for cq, c in sorted(project.classes.items()):
        if classes is not None and cq not in classes:
            continue
        cp = c.methods.get("copy")
        if cp is None or not isinstance(cp.node, ast.FunctionDef) or not cp.node.args.args:
            continue
        me = cp.node.args.args[0].arg
        base = None
        for n in ast.walk(cp.node):
            if isinstance(n, ast.Assign) and len(n.targets) == 1 and isinstance(n.targets[0], ast.Name) and isinstance(n.value, ast.Call):
                t = ast.unparse(n.value)
                if t in (f"copy.copy({me})", f"copy({me})", f"{me}.__copy__()") or ".__new__(" in t:
                    base = n.targets[0].id
        if base is None:
            continue
        if any(isinstance(n, ast.Call) and ast.unparse(n.func).endswith("deepcopy") for n in ast.walk(cp.node)):
            pass
        rets = [r for r in ast.walk(cp.node) if isinstance(r, ast.Return) and isinstance(r.value, ast.Name) and r.value.id == base]
        if not rets:
            continue
        fresh = {n.targets[0].attr for n in ast.walk(cp.node) if isinstance(n, ast.Assign) and len(n.targets) == 1
                 and isinstance(n.targets[0], ast.Attribute) and isinstance(n.targets[0].value, ast.Name)
                 and n.targets[0].value.id == base and _fresh_value(n.value)}
        # a loop `for name in (...): setattr(out, name, getattr(self, name).copy())` re-copies names we do not enumerate
        if any(isinstance(n, ast.Call) and isinstance(n.func, ast.Name) and n.func.id == "setattr" for n in ast.walk(cp.node)):
            continue
        for m in c.methods.values():
            if not isinstance(m.node, ast.FunctionDef) or not m.node.args.args or m is cp:
                continue
            s_ = m.node.args.args[0].arg
            copies = {n.targets[0].id for n in ast.walk(m.node) if isinstance(n, ast.Assign) and len(n.targets) == 1
                      and isinstance(n.targets[0], ast.Name) and ast.unparse(n.value) in (f"{s_}.copy()", f"copy.deepcopy({s_})")}
            if not copies:
                continue
            for n in ast.walk(m.node):
                tgt = None
                if isinstance(n, ast.Assign):
                    tgt = [t for t in n.targets if isinstance(t, ast.Subscript)]
                elif isinstance(n, ast.AugAssign):
                    tgt = [n.target]
                for t in tgt or []:
                    b = t.value if isinstance(t, ast.Subscript) else t
                    if isinstance(b, ast.Attribute) and isinstance(b.value, ast.Name) and b.value.id in copies and b.attr not in fresh:
                        out.append(dict(fi=m, node=n, attr=b.attr, cls=c,
                                        why=f"`{ast.unparse(n)[:60]}` in {c.name}.{m.name} writes into `{b.attr}` of a copy taken with "
                                            f"`{s_}.copy()`, but {c.name}.copy() starts from a shallow copy and re-copies only "
                                            f"{sorted(fresh) or 'nothing'}: `{b.attr}` is still the array the original holds, so the "
                                            f"original is changed too"))
    return out


def broadcasting_equalities(project: Project, classes=None) -> List[dict]:
    """Pattern J — `np.array_equiv` in an `__eq__`: it compares after broadcasting, so a one-element array equals any array of
    that element repeated and an empty one equals everything — two objects holding different data compare equal, and whatever
    is keyed or reused by that equality (a memo of results, a de-duplication) confuses them.  dict(fi, node, cls, why)."""
    out = []
    for cq, c in sorted(project.classes.items()):
        if classes is not None and cq not in classes:
            continue
        m = c.methods.get("__eq__")
        if m is None or not isinstance(m.node, ast.FunctionDef):
            continue
        for n in ast.walk(m.node):
            if isinstance(n, ast.Call) and isinstance(n.func, (ast.Name, ast.Attribute)) and \
                    (n.func.attr if isinstance(n.func, ast.Attribute) else n.func.id) == "array_equiv":
                out.append(dict(fi=m, node=n, cls=c,
                                why=f"{c.name}.__eq__ compares with `{ast.unparse(n)[:60]}`: np.array_equiv broadcasts, so data of different "
                                    f"shape compare equal ([c] == [c, c, c], [] == anything) — objects holding different data are taken "
                                    f"for the same one wherever this equality decides (reuse of a computed value, de-duplication)"))
    return out


def check(project: Project, rep, rule: str = "ST-CACHE"):
    """module-level caches written by the code a check analysed (and what it calls): a cache that is keyed by too little
    makes the analysed function's result depend on earlier calls — whatever that function computes.  Only the two memo
    patterns are judged here; other module state is C19's (PU-STATE)."""
    from .oneshot import reachable_functions
    fns = reachable_functions(project, sorted(rep.functions_analysed))
    seen = set()
    n = 0
    for fi in fns:
        if not isinstance(fi.node, (ast.FunctionDef, ast.AsyncFunctionDef)):
            continue
        mod = fi.module
        cands = set()
        for x in ast.walk(fi.node):
            if isinstance(x, ast.Global):
                cands |= set(x.names)
            elif isinstance(x, ast.Subscript) and isinstance(x.ctx, ast.Store) and isinstance(x.value, ast.Name):
                cands.add(x.value.id)
            elif isinstance(x, ast.Call) and isinstance(x.func, ast.Attribute) and isinstance(x.func.value, ast.Name) \
                    and x.func.attr in ("clear", "update", "setdefault", "pop", "append"):
                cands.add(x.func.value.id)
        locs = local_names(fi.node) - {g for x in ast.walk(fi.node) if isinstance(x, ast.Global) for g in x.names}
        for g in sorted(cands):
            if g in locs or g not in mod.globals or (mod.name, g) in seen:
                continue
            seen.add((mod.name, g))
            try:
                r = classify(project, mod.name, g)
            except Exception:
                r = None
            if r is None:
                continue
            n += 1
            if r["verdict"] == "refuted":
                rep.refuted(rule, r["fi"], r["node"], r["why"] + " — what the analysed function returns depends on the calls made before",
                            construct=f"{r['fi'].qualname}: cache {g}")
            elif r["verdict"] == "ok":
                rep.discharged(rule, r["fi"], r["node"], r["why"], nontrivial=False)
    # class-level tables of the classes whose methods the analysed code reaches
    mods = {fi.module.name for fi in fns}
    reached = {fi.cls.qualname for fi in fns if fi.cls is not None} | {
        cq for cq, c_ in project.classes.items() if cq.rsplit(".", 1)[0] in mods}   # (a class may be reached through a factory value)
    for r in class_level_memos(project, reached):
        n += 1
        if r["verdict"] == "refuted":
            rep.refuted(rule, r["fi"], r["node"], r["why"] + " — what the analysed function returns depends on the calls made before",
                        construct=f"{r['fi'].qualname}: class-level cache {r['table']}")
        else:
            rep.discharged(rule, r["fi"], r["node"], r["why"], nontrivial=False)
    for r in constructor_snapshots(project, reached):
        n += 1
        rep.refuted(rule, r["fi"], r["node"], r["why"], construct=f"{r['cls'].qualname}: constructor snapshot {r['attr']}")
    for r in setter_bypasses(project, reached):
        n += 1
        rep.refuted(rule, r["fi"], r["node"], r["why"], construct=f"{r['fi'].qualname}: setter of {r['prop']} bypassed")
    for r in broadcasting_equalities(project, reached):
        n += 1
        rep.refuted("ST-EQ", r["fi"], r["node"], r["why"], construct=f"{r['fi'].qualname}: array_equiv in __eq__")
    for r in shallow_copy_writes(project, reached):
        n += 1
        rep.refuted("ST-ALIAS", r["fi"], r["node"], r["why"], construct=f"{r['fi'].qualname}: in-place write into shared {r['attr']}")
    for r in stale_cached_properties(project, reached):
        n += 1
        rep.refuted(rule, r["fi"], r["node"], r["why"], construct=f"{r['fi'].qualname}: cached_property over {r['attr']}")
    return n
