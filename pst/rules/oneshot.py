"""IT-ONCE — typestate of one-shot iterators.

A generator object (the result of calling a generator function, a generator expression) or a lazy built-in iterator
(`map`, `zip`, `filter`, `reversed`, `enumerate`, itertools objects) can be walked once.  A local name that holds one and
is consumed at two places of one path gives the second consumer an exhausted iterator: it sees no items, whatever the
data.  The evaluator of this package reads generators eagerly (as the sequence of what they yield), so for such code its
reading differs from what Python does; this analysis finds those places from the source:

  candidates   `g = <iterator-valued expression>` where g is bound exactly once in the function (not a parameter);
  uses         every read of g, classified by what encloses it
                 total    for-loop without break/return, comprehension, list/tuple/sorted/sum/min/max/set/dict/
                          frozenset/str.join/np.fromiter/starred argument/`yield from`, a package function whose
                          parameter is consumed totally (followed through the callee, generator callees only when their
                          own result is consumed totally at the call site)
                 partial  next(), any/all (short-circuit), a for-loop that may leave early
                 none     `g is None` tests, `del g`
                 unknown  anything else (stored, returned, passed to code that is not followed)
  pairs        (u1, u2) with a control-flow path from u1 to u2 (or u1 = u2 inside a loop that does not re-bind g)
  definite     u1 total and (u1 dominates u2, or u2 post-dominates u1): whenever one of them runs so does the other, and
               the later one gets nothing.  Everything else with a total or unknown first use is `possible`.

`iter(x)` objects are left alone: consuming one in several steps (`next(it)` then `for x in it`) is what they are for.
"""
from __future__ import annotations

import ast
from typing import Dict, List, Optional

from ..core.cfg import CFG
from ..core.loader import FunctionInfo, Project
from .common import local_names

LAZY_BUILTINS = {"builtins.map", "builtins.zip", "builtins.filter", "builtins.reversed", "builtins.enumerate",
                 "itertools.chain", "itertools.chain.from_iterable", "itertools.starmap", "itertools.islice",
                 "itertools.accumulate", "itertools.product", "itertools.combinations", "itertools.permutations",
                 "itertools.zip_longest", "itertools.takewhile", "itertools.dropwhile", "itertools.groupby",
                 "itertools.compress", "itertools.filterfalse", "itertools.pairwise", "itertools.cycle",
                 "itertools.combinations_with_replacement", "itertools.repeat"}
TOTAL_BUILTINS = {"builtins.list", "builtins.tuple", "builtins.sorted", "builtins.sum", "builtins.max", "builtins.min",
                  "builtins.set", "builtins.frozenset", "builtins.dict", "numpy.fromiter", "collections.deque",
                  "collections.Counter", "functools.reduce", "builtins.len", "numpy.sum", "numpy.array", "numpy.asarray",
                  "numpy.vstack", "numpy.hstack", "numpy.concatenate", "numpy.stack", "statistics.mean", "math.fsum",
                  "collections.OrderedDict", "builtins.bytes", "builtins.bytearray"}
PARTIAL_BUILTINS = {"builtins.next", "builtins.any", "builtins.all"}


def _own_walk(fnode):
    """nodes of a function body, nested function bodies included (a closure that reads the iterator consumes it too)"""
    return ast.walk(fnode)


def is_generator_function(fnode) -> bool:
    if not isinstance(fnode, (ast.FunctionDef, ast.AsyncFunctionDef)):
        return False
    stack = list(fnode.body)
    while stack:
        n = stack.pop()
        if isinstance(n, (ast.Yield, ast.YieldFrom)):
            return True
        if isinstance(n, (ast.FunctionDef, ast.AsyncFunctionDef, ast.Lambda, ast.ClassDef)):
            continue
        stack.extend(ast.iter_child_nodes(n))
    return False


class _Fn:
    def __init__(self, project: Project, fi: FunctionInfo):
        self.p, self.fi, self.f = project, fi, fi.node
        self.locs = local_names(self.f) if isinstance(self.f, (ast.FunctionDef, ast.AsyncFunctionDef)) else set()
        self.parents: Dict[int, ast.AST] = {}
        for n in ast.walk(self.f):
            for c in ast.iter_child_nodes(n):
                self.parents[id(c)] = n

    def resolve(self, fn) -> Optional[str]:
        t = self.p.resolve(self.fi.module, fn, self.locs)
        if t is None and isinstance(fn, ast.Name) and fn.id in ("map", "zip", "filter", "reversed", "enumerate", "list", "tuple",
                                                                "sorted", "sum", "max", "min", "set", "frozenset", "dict", "next",
                                                                "any", "all", "len", "iter") and fn.id not in self.locs:
            t = "builtins." + fn.id
        if t is None and isinstance(fn, ast.Attribute) and isinstance(fn.value, ast.Name) and fn.value.id in ("self", "cls") \
                and self.fi.cls is not None:
            m = self.fi.cls.lookup(fn.attr, self.p)
            t = m.qualname if m is not None else None
        return t

    def iterator_valued(self, e) -> Optional[str]:
        if isinstance(e, ast.GeneratorExp):
            return "a generator expression"
        if isinstance(e, ast.Call):
            t = self.resolve(e.func)
            if t in LAZY_BUILTINS:
                return f"a `{t.split('.', 1)[1]}` object"
            g = self.p.functions.get(t) if t else None
            if g is not None and is_generator_function(g.node):
                return f"the generator `{g.name}(...)`"
        return None

    def stmt_of(self, n):
        while n is not None and not isinstance(n, ast.stmt):
            n = self.parents.get(id(n))
        return n

    # ------------------------------------------------------------------ what a use does with the iterator
    def consumption(self, node, depth=0) -> str:
        """'total' | 'partial' | 'none' | 'unknown' for an expression node that evaluates to the one-shot iterator"""
        par = self.parents.get(id(node))
        if par is None or depth > 4:
            return "unknown"
        if isinstance(par, ast.For) and par.iter is node:
            leaves = any(isinstance(x, (ast.Break, ast.Return)) for st in par.body for x in ast.walk(st))
            return "partial" if leaves else "total"
        if isinstance(par, ast.comprehension) and par.iter is node:
            comp = self.parents.get(id(par))
            if isinstance(comp, ast.GeneratorExp):
                # a generator over it is lazy itself: what happens to that generator decides
                return self.consumption(comp, depth + 1)
            return "total"
        if isinstance(par, ast.Starred):
            return "total"
        if isinstance(par, ast.YieldFrom):
            return "total"
        if isinstance(par, ast.Compare) and all(isinstance(o, (ast.Is, ast.IsNot)) for o in par.ops):
            return "none"
        if isinstance(par, ast.Delete):
            return "none"
        if isinstance(par, ast.Call) and (node in par.args or any(k.value is node for k in par.keywords)):
            t = self.resolve(par.func)
            if isinstance(par.func, ast.Attribute) and par.func.attr == "join" and t is None:
                return "total"
            if isinstance(par.func, ast.Attribute) and par.func.attr in ("extend", "update") and t is None:
                return "total"
            if t in PARTIAL_BUILTINS:
                return "partial"
            if t in TOTAL_BUILTINS:
                return "total"
            if t in LAZY_BUILTINS:
                return self.consumption(par, depth + 1)   # wrapped in another lazy iterator
            if t == "builtins.iter":
                return "unknown"
            g = self.p.functions.get(t) if t else None
            if g is not None and isinstance(g.node, (ast.FunctionDef, ast.AsyncFunctionDef)):
                pname = self._param_for(g, par, node)
                if pname is None:
                    return "unknown"
                inner = _param_consumption(self.p, g, pname, depth + 1)
                if is_generator_function(g.node):
                    # nothing runs until the callee's own result is consumed
                    outer = self.consumption(par, depth + 1)
                    order = ["none", "unknown", "partial", "total"]
                    return inner if outer == "total" else (outer if order.index(outer) < order.index(inner) else inner) \
                        if outer != "unknown" else "unknown"
                return inner
            return "unknown"
        return "unknown"

    def _param_for(self, g: FunctionInfo, call: ast.Call, arg) -> Optional[str]:
        a = g.node.args
        names = [x.arg for x in a.posonlyargs + a.args]
        if g.cls is not None and g.kind != "staticmethod" and names and isinstance(call.func, ast.Attribute):
            names = names[1:]
        if any(isinstance(x, ast.Starred) for x in call.args):
            return None
        for k, x in enumerate(call.args):
            if x is arg:
                return names[k] if k < len(names) else None
        for kw in call.keywords:
            if kw.value is arg:
                return kw.arg
        return None


_PARAM_CACHE: Dict[tuple, str] = {}


def _param_consumption(project: Project, g: FunctionInfo, pname: str, depth: int) -> str:
    key = (id(project), g.qualname, pname)
    if key in _PARAM_CACHE:
        return _PARAM_CACHE[key]
    _PARAM_CACHE[key] = "unknown"   # recursion guard
    fn = _Fn(project, g)
    stores = [n for n in ast.walk(g.node) if isinstance(n, ast.Name) and n.id == pname and isinstance(n.ctx, ast.Store)]
    uses = [n for n in ast.walk(g.node) if isinstance(n, ast.Name) and n.id == pname and isinstance(n.ctx, ast.Load)]
    if stores or not uses:
        out = "unknown" if stores else "none"
    else:
        kinds = [fn.consumption(u, depth) for u in uses]
        if "total" in kinds:
            out = "total"
        elif all(k == "none" for k in kinds):
            out = "none"
        elif "unknown" in kinds:
            out = "unknown"
        else:
            out = "partial"
    _PARAM_CACHE[key] = out
    return out


def analyse(project: Project, fi: FunctionInfo) -> List[dict]:
    f = fi.node
    if not isinstance(f, (ast.FunctionDef, ast.AsyncFunctionDef)):
        return []
    fn = _Fn(project, fi)
    a = f.args
    params = {x.arg for x in a.posonlyargs + a.args + a.kwonlyargs} | ({a.vararg.arg} if a.vararg else set()) | \
        ({a.kwarg.arg} if a.kwarg else set())
    store_count: Dict[str, int] = {}
    for n in ast.walk(f):
        if isinstance(n, ast.Name) and isinstance(n.ctx, (ast.Store, ast.Del)):
            store_count[n.id] = store_count.get(n.id, 0) + 1
    cands = []
    for n in ast.walk(f):
        if isinstance(n, ast.Assign) and len(n.targets) == 1 and isinstance(n.targets[0], ast.Name):
            g = n.targets[0].id
            what = fn.iterator_valued(n.value)
            if what and g not in params and store_count.get(g) == 1 and fn.stmt_of(n) is n \
                    and isinstance(fn.parents.get(id(n)), (ast.FunctionDef, ast.AsyncFunctionDef, ast.If, ast.For, ast.While,
                                                           ast.With, ast.Try)):
                cands.append((g, n, what))
    if not cands:
        return []
    try:
        cfg = CFG(f)
    except Exception:
        return []
    dom = cfg.dominators()
    out = []
    for g, asg, what in cands:
        uses = [n for n in ast.walk(f) if isinstance(n, ast.Name) and n.id == g and isinstance(n.ctx, ast.Load)]
        info = []
        for u in uses:
            st = fn.stmt_of(u)
            # the CFG knows simple statements and the tests of compound ones; a use in a `for` header belongs to the loop node
            node = cfg.node_of(st) if st is not None else None
            if node is None:
                continue
            info.append((u, st, node, fn.consumption(u)))
        asg_node = cfg.node_of(asg)
        loops_of = lambda st: _enclosing_loops(fn, st)
        for i, (u1, s1, n1, k1) in enumerate(info):
            if k1 == "partial" and isinstance(s1, (ast.For, ast.AsyncFor)) and s1.iter is u1:
                # a scan `for x in g: ... break` nested in a loop that does not make g anew: a round that stopped early leaves the
                # rest, and the next round does not scan from the start but from behind the item it stopped at (or gets nothing)
                again = [lp for lp in _enclosing_loops(fn, s1) if lp not in _enclosing_loops(fn, asg) and lp is not s1]
                if again:
                    out.append(dict(name=g, first=u1, second=u1, what=what, definite=True, kind=(k1, k1), assign=asg,
                                    why=f"`{g}` ({what}, made once at line {asg.lineno}) is scanned at line {u1.lineno} by a loop that may "
                                        f"stop early, inside a loop that does not make it anew: every round after the first continues "
                                        f"behind the item the previous round stopped at instead of scanning all items"))
            if k1 in ("none", "partial"):
                continue
            for j, (u2, s2, n2, k2) in enumerate(info):
                if k2 == "none":
                    continue
                if u1 is u2:
                    # the same read runs again in a loop that does not re-create the iterator
                    again = [lp for lp in loops_of(s1) if lp not in loops_of(asg) and lp is not s1]
                    if not again:
                        continue
                    definite = k1 == "total"
                    out.append(dict(name=g, first=u1, second=u2, what=what, definite=definite, kind=(k1, k2), assign=asg,
                                    why=f"`{g}` ({what}, made once at line {asg.lineno}) is consumed at line {u1.lineno} inside a loop: "
                                        f"from the second round on it is exhausted"))
                    continue
                if n1.id == n2.id:
                    if not (u1.lineno, u1.col_offset) < (u2.lineno, u2.col_offset):
                        continue
                    reach = True
                else:
                    reach = n2.id in cfg.reachable_from(n1.id)
                    if reach and n1.id in cfg.reachable_from(n2.id) and (u2.lineno, u2.col_offset) < (u1.lineno, u1.col_offset):
                        continue   # both in one loop: reported once, in source order
                if not reach:
                    continue
                definite = k1 == "total" and (n1.id in dom.get(n2.id, set()) or _postdominates(cfg, n2.id, n1.id))
                out.append(dict(name=g, first=u1, second=u2, what=what, definite=definite, kind=(k1, k2), assign=asg,
                                why=f"`{g}` ({what}, made at line {asg.lineno}) is consumed at line {u1.lineno} and read again at line "
                                    f"{u2.lineno}: a one-shot iterator is exhausted by then, so the second reader sees no items"))
    # one report per (name, second use)
    seen, uniq = set(), []
    for h in sorted(out, key=lambda h: (not h["definite"], h["second"].lineno, h["first"].lineno)):
        k = (h["name"], id(h["second"]))
        if k not in seen:
            seen.add(k)
            uniq.append(h)
    return uniq


def _enclosing_loops(fn: _Fn, st) -> list:
    out = []
    n = fn.parents.get(id(st))
    while n is not None:
        if isinstance(n, (ast.For, ast.While)):
            out.append(n)
        if isinstance(n, (ast.FunctionDef, ast.AsyncFunctionDef, ast.Lambda)):
            break
        n = fn.parents.get(id(n))
    return out


def _postdominates(cfg: CFG, b: int, a: int) -> bool:
    """every path from a to the exit passes through b"""
    if a == b:
        return True
    seen = set()
    stack = [a]
    while stack:
        x = stack.pop()
        if x in seen or x == b:
            continue
        seen.add(x)
        if x == cfg.exit.id:
            return False
        for t, _ in cfg.nodes[x].succ:
            stack.append(t)
    return True


def reachable_functions(project: Project, roots: List[str], limit: int = 60) -> List[FunctionInfo]:
    """the analysed functions and the package functions they call (transitively)"""
    out, todo = {}, list(roots)
    while todo and len(out) < limit:
        q = todo.pop()
        fi = project.functions.get(q)
        if fi is None or q in out or not isinstance(fi.node, (ast.FunctionDef, ast.AsyncFunctionDef)):
            continue
        out[q] = fi
        fn = _Fn(project, fi)
        for c in ast.walk(fi.node):
            if isinstance(c, ast.Call):
                t = fn.resolve(c.func)
                if t in project.functions and t not in out:
                    todo.append(t)
                elif t in project.classes:
                    init = project.classes[t].lookup("__init__", project)
                    if init is not None and init.qualname not in out:
                        todo.append(init.qualname)
    return list(out.values())


def positive_examples() -> dict:
    """the rule expects zero findings on a healthy tree, so its examples must be found (and their clean twins left alone)
    on every run"""
    import os
    from ..core.loader import AnalysisError
    here = os.path.join(os.path.dirname(os.path.dirname(os.path.abspath(__file__))), "selftest", "positive")
    pp = Project(here, pkg="pospkg")
    got = {}
    for q, fi in pp.functions.items():
        if q.startswith("pospkg.iterators."):
            got[fi.name] = [h["definite"] for h in analyse(pp, fi)]
    want_definite = {"consumed_twice", "consumed_twice_in_loop", "scan_resumed_in_outer_loop"}
    want_silent = {"materialised_first", "exclusive_branches", "stepwise_iterator", "peek_then_walk", "_pairs", "_table", "_total",
                   "scan_restarted_in_outer_loop"}
    for nme in want_definite:
        if not any(got.get(nme, [])):
            raise AnalysisError(f"IT-ONCE positive example `{nme}` was not found (the rule is not working)")
    for nme in want_silent:
        if any(got.get(nme, [])):
            raise AnalysisError(f"IT-ONCE clean example `{nme}` was flagged")
    return {k: len(v) for k, v in got.items()}


def check(project: Project, rep, rule: str = "IT-ONCE"):
    """run on everything the report says was analysed (and what that code calls): a definite double consumption is a
    refutation — the function does not compute what its text, read with sequences in place of iterators, says —, a
    possible one makes the evaluator's reading of that function inexact (the evaluator records that itself)."""
    rep.extra["oneshot_positive_examples"] = positive_examples()
    fns = reachable_functions(project, sorted(rep.functions_analysed))
    n_c = 0
    for fi in fns:
        for h in analyse(project, fi):
            n_c += 1
            if h["definite"]:
                rep.refuted(rule, fi, h["second"], h["why"] + " (the values computed from it are those of an empty sequence, "
                                                              "whatever the input)",
                            construct=f"{fi.qualname}: second consumption of `{h['name']}`")
    rep.discharged(rule, None, None, f"{len(fns)} function(s) reachable from the analysed code: no one-shot iterator is consumed "
                                     f"twice on a path where the second consumption always follows the first", nontrivial=False) \
        if not any(o["rule"] == rule and o["verdict"] != "DISCHARGED" for o in rep.obligations) else None
    return len(fns)
