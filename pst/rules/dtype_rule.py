"""DT-INHERIT — representation independence of stores: an array whose dtype is inherited from the caller's data
(a parameter, or a copy / view / `*_like` / `np.array(...)` of one, without an explicit dtype) must not receive
floating-point values by element/slice store: for integer input (a list of int pairs, an int ndarray — ordinary ways to
write a diagram) numpy silently truncates the stored values, so the same diagram gives different results as int and as
float data.

Per function, flow-insensitive over singly- or multiply-assigned locals (a name is `inherited` if ANY of its definitions
is, `float-typed` only if ALL of them are):
  inherited(e):  a parameter | np.copy/np.array/np.asarray/np.atleast_*d/np.sort/np.squeeze/np.ravel(e') without dtype=
                 | np.zeros_like/ones_like/full_like/empty_like(e') without dtype= | e'.copy()/.T/.reshape()/.flatten()
                 | e'[...]  — for inherited e'
  float(e):      a true division | a non-integral float literal, np.inf, np.nan, np.pi | a call of a float-valued numpy
                 function (sqrt, exp, log, mean, linspace, ...) | a parameter whose default is a float literal
                 | an arithmetic expression with a float operand | a name all of whose definitions are float
A store `A[...] = rhs` (or `np.full_like(A, rhs)` fill value) with inherited A and float rhs is reported.
"""
from __future__ import annotations

import ast
from typing import Dict, List, Set

from ..core.loader import FunctionInfo, Project
from .common import local_names

KEEP_DTYPE_FUNCS = {"numpy.copy", "numpy.array", "numpy.asarray", "numpy.asanyarray", "numpy.asarray_chkfinite", "numpy.atleast_1d", "numpy.atleast_2d",
                    "numpy.sort", "numpy.squeeze", "numpy.ravel", "numpy.ascontiguousarray", "numpy.transpose",
                    "numpy.reshape", "numpy.unique", "numpy.flip", "numpy.concatenate", "numpy.vstack", "numpy.hstack"}
LIKE_FUNCS = {"numpy.zeros_like", "numpy.ones_like", "numpy.full_like", "numpy.empty_like"}
CREATE_FUNCS = {"numpy.empty", "numpy.zeros", "numpy.ones", "numpy.full", "numpy.array", "numpy.asarray", "numpy.asarray_chkfinite", "numpy.ndarray"}
KEEP_DTYPE_METHODS = {"copy", "reshape", "flatten", "ravel", "squeeze", "transpose", "view"}
FLOAT_FUNCS = {"numpy.sqrt", "numpy.exp", "numpy.log", "numpy.mean", "numpy.average", "numpy.linspace", "numpy.sin", "numpy.cos",
               "numpy.arcsin", "numpy.divide", "numpy.true_divide", "numpy.std", "numpy.var", "numpy.median", "numpy.interp",
               "numpy.hypot", "numpy.log2", "numpy.log10", "numpy.power", "numpy.float64", "numpy.float32", "builtins.float",
               "math.sqrt", "math.exp", "math.log", "scipy.special.erfc", "numpy.random.rand", "numpy.random.random"}
FLOAT_PRESERVING = {"numpy.sum", "numpy.max", "numpy.min", "numpy.amax", "numpy.amin", "numpy.abs", "numpy.absolute", "numpy.maximum",
                    "numpy.minimum", "numpy.multiply", "numpy.add", "numpy.subtract", "numpy.dot", "numpy.prod", "numpy.cumsum",
                    "numpy.negative", "numpy.square", "builtins.sum", "builtins.max", "builtins.min", "builtins.abs",
                    "numpy.nansum", "numpy.inner", "numpy.outer"}
FLOAT_ATTRS = {"numpy.inf", "numpy.nan", "numpy.pi", "numpy.e", "math.pi", "math.inf"}


def _has_dtype(call: ast.Call) -> bool:
    return any(k.arg == "dtype" for k in call.keywords)


def analyse(project: Project, fi: FunctionInfo) -> List[dict]:
    """findings on the function as written and on its helper-inlined view (an array typed by the caller's data may be made in
    one private helper and filled from the result of another)"""
    only = _caller_typed_params(project, fi, ())
    out = _analyse(project, fi, fi.node, only=only)
    try:
        from .common import fn_view
        view = fn_view(project, fi)
    except Exception:
        view = None
    if view is not None and view is not fi.node:
        seen = {ast.unparse(h["node"]) for h in out}
        for h in _analyse(project, fi, view, only=only):
            if ast.unparse(h["node"]) not in seen:
                out.append(h)
    return out


def _call_sites(project: Project, fi: FunctionInfo):
    """(caller, call) for every call in the package that resolves to the private function `fi`"""
    cache = getattr(project, "_dt_sites", None)
    if cache is None:
        cache = {}
        for g in project.functions.values():
            if not isinstance(g.node, (ast.FunctionDef, ast.AsyncFunctionDef)):
                continue
            locs = local_names(g.node)
            for c in ast.walk(g.node):
                if not isinstance(c, ast.Call):
                    continue
                t = project.resolve(g.module, c.func, locs)
                if t is None and isinstance(c.func, ast.Attribute) and isinstance(c.func.value, ast.Name) \
                        and c.func.value.id in ("self", "cls") and g.cls is not None:
                    m = g.cls.lookup(c.func.attr, project)
                    t = m.qualname if m is not None else None
                if t is not None:
                    cache.setdefault(t, []).append((g, c))
        project._dt_sites = cache
    return cache.get(fi.qualname, [])


def _caller_typed_params(project: Project, fi: FunctionInfo, stack):
    """For a private helper all of whose uses are calls inside the package: the parameters that receive, at some call site, an
    array whose dtype is the caller's data.  A parameter that only ever receives arrays the package made itself (a block of the
    float cost matrix, a table of float literals) is not `the caller's data` although it is a parameter.  None = no
    restriction (public function, no call site found, a cycle, an argument list that cannot be matched)."""
    if not fi.name.startswith("_") or fi.name.startswith("__") or not isinstance(fi.node, (ast.FunctionDef, ast.AsyncFunctionDef)):
        return None
    if fi.qualname in stack or len(stack) > 6:
        return None
    sites = _call_sites(project, fi)
    if not sites:
        return None
    # a helper that is also passed around as a value may be called with anything
    for g in project.functions.values():
        for n in ast.walk(g.node):
            if isinstance(n, ast.Name) and n.id == fi.name and isinstance(n.ctx, ast.Load):
                par = [c for c in ast.walk(g.node) if isinstance(c, ast.Call) and c.func is n]
                if not par:
                    return None
    a = fi.node.args
    names = [x.arg for x in a.posonlyargs + a.args]
    if fi.cls is not None and fi.kind not in ("staticmethod",) and names:
        names = names[1:]
    typed = set()
    for g, c in sites:
        if any(isinstance(x, ast.Starred) for x in c.args) or any(k.arg is None for k in c.keywords):
            return None
        pairs = list(zip(names, c.args)) + [(k.arg, k.value) for k in c.keywords]
        g_only = _caller_typed_params(project, g, stack + (fi.qualname,)) if g is not fi else None
        flags = _analyse(project, g, g.node, only=g_only, probe=[e for _, e in pairs])
        for (nme, _), fl in zip(pairs, flags):
            if fl:
                typed.add(nme)
    return typed


_SELF_ATTR: Dict[tuple, bool] = {}


def _self_attr_from_caller(project: Project, cls, attr: str) -> bool:
    """some method of the class (or a base) does `self.<attr> = <a parameter, or a dtype-keeping copy/view of one>`"""
    key = (id(project), cls.qualname, attr)
    if key in _SELF_ATTR:
        return _SELF_ATTR[key]
    _SELF_ATTR[key] = False
    out = False
    for k in cls.mro(project):
        for m in k.methods.values():
            if not isinstance(m.node, (ast.FunctionDef, ast.AsyncFunctionDef)):
                continue
            rhs = [n.value for n in ast.walk(m.node) if isinstance(n, ast.Assign) and any(
                isinstance(t, ast.Attribute) and isinstance(t.value, ast.Name) and t.value.id == "self" and t.attr == attr
                for t in n.targets)]
            if rhs and any(_analyse(project, m, m.node, probe=rhs)):
                out = True
                break
        if out:
            break
    _SELF_ATTR[key] = out
    return out


def _analyse(project: Project, fi: FunctionInfo, f, only=None, probe=None) -> List[dict]:
    if not isinstance(f, (ast.FunctionDef, ast.AsyncFunctionDef)):
        return [] if probe is None else [True] * len(probe)
    locs = local_names(f)
    a = f.args
    params = [x.arg for x in a.posonlyargs + a.args + a.kwonlyargs]
    pos = a.posonlyargs + a.args
    defaults = dict(zip([x.arg for x in pos[len(pos) - len(a.defaults):]], a.defaults))
    defaults.update({x.arg: d for x, d in zip(a.kwonlyargs, a.kw_defaults) if d is not None})
    float_params = {p for p, d in defaults.items() if isinstance(d, ast.Constant) and isinstance(d.value, float)}
    array_params = {p for p in params if p not in ("self", "cls") and p not in float_params
                    and not (p in defaults and isinstance(defaults[p], ast.Constant)
                             and isinstance(defaults[p].value, (int, str, bool)) and defaults[p].value is not None)}
    if only is not None:
        array_params &= set(only)
    defs: Dict[str, List[ast.expr]] = {}
    unpacked: Dict[str, List[ast.expr]] = {}
    for n in ast.walk(f):
        if isinstance(n, ast.Assign) and len(n.targets) == 1:
            t, v = n.targets[0], n.value
            if isinstance(t, ast.Name):
                defs.setdefault(t.id, []).append(v)
            elif isinstance(t, (ast.Tuple, ast.List)) and isinstance(v, (ast.Tuple, ast.List)) and len(t.elts) == len(v.elts):
                for tt, vv in zip(t.elts, v.elts):
                    if isinstance(tt, ast.Name):
                        defs.setdefault(tt.id, []).append(vv)
            elif isinstance(t, (ast.Tuple, ast.List)):
                for tt in t.elts:
                    if isinstance(tt, ast.Name):
                        defs.setdefault(tt.id, []).append(None)  # unknown
                        unpacked.setdefault(tt.id, []).append(v)   # ... but it derives from what the right-hand side reads
        elif isinstance(n, (ast.For, ast.comprehension)):
            for tt in ast.walk(n.target):
                if isinstance(tt, ast.Name):
                    defs.setdefault(tt.id, []).append(None)
        elif isinstance(n, ast.AugAssign) and isinstance(n.target, ast.Name):
            defs.setdefault(n.target.id, []).append(ast.BinOp(ast.Name(n.target.id, ast.Load()), n.op, n.value))

    res = lambda fn: project.resolve(fi.module, fn, locs)
    inherited: Set[str] = set(array_params)
    floaty: Set[str] = set(float_params)

    def is_intlike(e, depth=0) -> bool:
        """an integer by construction: it keeps an integer-typed operand integer-typed"""
        if e is None or depth > 5:
            return False
        if isinstance(e, ast.Constant):
            return isinstance(e.value, int) and not isinstance(e.value, bool)
        if isinstance(e, ast.UnaryOp):
            return is_intlike(e.operand, depth + 1)
        if isinstance(e, ast.Name):
            vs = defs.get(e.id)
            return bool(vs) and e.id not in params and all(v is not None and is_intlike(v, depth + 1) for v in vs)
        if isinstance(e, ast.Subscript) and isinstance(e.value, ast.Attribute) and e.value.attr == "shape":
            return True
        if isinstance(e, ast.Attribute) and e.attr in ("size", "ndim"):
            return True
        if isinstance(e, ast.BinOp) and isinstance(e.op, (ast.Add, ast.Sub, ast.Mult, ast.FloorDiv, ast.Mod)):
            return is_intlike(e.left, depth + 1) and is_intlike(e.right, depth + 1)
        if isinstance(e, ast.Call):
            t = res(e.func)
            if t in ("builtins.int", "builtins.len", "builtins.round") and len(e.args) == 1:
                return True
            g = project.functions.get(t) if t else None
            if g is not None and isinstance(g.node, (ast.FunctionDef, ast.AsyncFunctionDef)):
                rets = [r for r in ast.walk(g.node) if isinstance(r, ast.Return) and r.value is not None]
                return bool(rets) and all(isinstance(r.value, ast.Call) and isinstance(r.value.func, ast.Name)
                                          and r.value.func.id in ("int", "len") for r in rets)
        return False

    def is_inherited(e, depth=0) -> bool:
        if e is None or depth > 6:
            return False
        if isinstance(e, ast.Name):
            return e.id in inherited
        if isinstance(e, ast.BinOp) and isinstance(e.op, (ast.Add, ast.Sub, ast.Mult, ast.FloorDiv, ast.Mod)):
            # integer-preserving arithmetic on the caller's numbers keeps their dtype (int − int is int)
            li, ri = is_inherited(e.left, depth + 1), is_inherited(e.right, depth + 1)
            return (li or ri) and (li or is_intlike(e.left)) and (ri or is_intlike(e.right))
        if isinstance(e, ast.UnaryOp) and isinstance(e.op, (ast.USub, ast.UAdd)):
            return is_inherited(e.operand, depth + 1)
        if isinstance(e, (ast.List, ast.Tuple)) and e.elts:
            fl = [is_inherited(x, depth + 1) for x in e.elts]
            return any(fl) and all(a_ or is_intlike(x) for a_, x in zip(fl, e.elts))
        if isinstance(e, ast.Subscript):
            return is_inherited(e.value, depth + 1)
        if isinstance(e, ast.Attribute) and e.attr == "T":
            return is_inherited(e.value, depth + 1)
        if isinstance(e, ast.Attribute) and isinstance(e.value, ast.Name) and e.value.id in array_params \
                and e.attr not in ("shape", "size", "ndim", "dtype"):
            # an array held by an object the caller passed (`pl.values`): its dtype is the caller's as well
            return True
        if isinstance(e, ast.Attribute) and isinstance(e.value, ast.Name) and e.value.id == "self" and fi.cls is not None \
                and e.attr not in ("shape", "size", "ndim", "dtype") and probe is None:
            # an array the object holds: the caller's when some method stores a parameter there as it came
            return _self_attr_from_caller(project, fi.cls, e.attr)
        if isinstance(e, ast.Call):
            t = res(e.func)
            if t in KEEP_DTYPE_FUNCS | LIKE_FUNCS and e.args and not _has_dtype(e):
                return is_inherited(e.args[0], depth + 1)
            if t in CREATE_FUNCS and _has_dtype(e):
                # np.empty(shape, dtype=x.dtype): the dtype of the caller's data, asked for by name
                dt = [k.value for k in e.keywords if k.arg == "dtype"][0]
                if isinstance(dt, ast.Attribute) and dt.attr == "dtype":
                    return is_inherited(dt.value, depth + 1)
                if isinstance(dt, ast.Name) and dt.id in defs and any(
                        isinstance(v, ast.Attribute) and v.attr == "dtype" and is_inherited(v.value, depth + 1) for v in defs[dt.id]):
                    return True
            if isinstance(e.func, ast.Attribute) and e.func.attr in KEEP_DTYPE_METHODS and t is None:
                return is_inherited(e.func.value, depth + 1)
        return False

    def is_float(e, depth=0) -> bool:
        if e is None or depth > 8:
            return False
        if isinstance(e, ast.Constant):
            return isinstance(e.value, float) and not float(e.value).is_integer()
        if isinstance(e, ast.Name):
            if e.id in floaty:
                return True
            if e.id not in locs and e.id not in params and e.id in fi.module.globals:
                # a module-level table: floating-point when its defining expression is (`_R = np.array([[np.cos(..), ..]])`)
                return is_float(fi.module.globals[e.id], depth + 1)
            return False
        if isinstance(e, (ast.List, ast.Tuple)) and e.elts:
            return any(is_float(x, depth + 1) for x in e.elts)
        if isinstance(e, ast.Attribute) and e.attr == "T":
            return is_float(e.value, depth + 1)
        if isinstance(e, ast.Attribute):
            return res(e) in FLOAT_ATTRS
        if isinstance(e, ast.UnaryOp):
            return is_float(e.operand, depth + 1)
        if isinstance(e, ast.BinOp):
            if isinstance(e.op, ast.Div):
                return True
            if isinstance(e.op, (ast.Add, ast.Sub, ast.Mult, ast.Pow, ast.Mod, ast.MatMult)):
                return is_float(e.left, depth + 1) or is_float(e.right, depth + 1)
            return False
        if isinstance(e, ast.Call):
            t = res(e.func)
            if t in FLOAT_FUNCS:
                return True
            if t in FLOAT_PRESERVING and e.args:
                # a reduction / element-wise combination of floating-point values is floating-point
                return any(is_float(a_, depth + 1) for a_ in e.args[:2])
            if t in ("numpy.array", "numpy.asarray") and e.args and not _has_dtype(e):
                return is_float(e.args[0], depth + 1)
            if t in ("numpy.matmul",) and len(e.args) >= 2:
                return any(is_float(a_, depth + 1) for a_ in e.args[:2])
            if t is None and isinstance(e.func, ast.Attribute) and e.func.attr == "dot" and e.args:
                # x.dot(y): floating-point as soon as one factor is
                return is_float(e.func.value, depth + 1) or is_float(e.args[0], depth + 1)
            return False
        if isinstance(e, ast.IfExp):
            return is_float(e.body, depth + 1) and is_float(e.orelse, depth + 1)
        if isinstance(e, ast.Subscript):
            # a part of a floating-point array
            return is_float(e.value, depth + 1)
        return False

    changed = True
    rounds = 0
    while changed and rounds < 10:
        changed = False
        rounds += 1
        for nme, vs in defs.items():
            if nme in params:
                # a re-bound parameter: inherited/float status follows its new definitions as well
                pass
            if nme not in inherited and any(is_inherited(v) for v in vs):
                inherited.add(nme)
                changed = True
            if nme not in inherited and any(isinstance(v, ast.Call) and any(is_inherited(a_) for a_ in v.args)
                                            and (res(v.func) or "").startswith("persim.") for v in unpacked.get(nme, [])):
                # one of several values handed back by a helper of the package that was given caller data (`S, M =
                # _as_diagram(dgm1, ...)`): it may be that data in its own dtype
                inherited.add(nme)
                changed = True
            if nme not in floaty and vs and nme not in array_params and all(v is not None for v in vs):
                # `x = np.linspace(...); x = x[:n]`: a definition in terms of the name itself keeps what the others give
                selfref = [v for v in vs if any(isinstance(y, ast.Name) and y.id == nme for y in ast.walk(v))]
                base = [v for v in vs if v not in selfref]
                if base and all(is_float(v) for v in base):
                    floaty.add(nme)
                    if all(is_float(v) for v in selfref):
                        changed = True
                    else:
                        floaty.discard(nme)
    # a name that is re-bound to something of explicit dtype everywhere is not inherited (e.g. x = x.astype(float))
    for nme, vs in defs.items():
        if nme in inherited and nme not in array_params and not any(is_inherited(v) for v in vs) and nme not in unpacked:
            inherited.discard(nme)
    if probe is not None:
        return [is_inherited(e) for e in probe]
    hits = []
    # a cast of one piece of caller data to the dtype of ANOTHER piece of caller data: `T.astype(S.dtype)`,
    # `np.asarray(T, dtype=S.dtype)` — when S is integer-typed and T is not, T is truncated
    for n in ast.walk(f):
        if not isinstance(n, ast.Call):
            continue
        src = dt = None
        if isinstance(n.func, ast.Attribute) and n.func.attr == "astype" and n.args:
            src, dt = n.func.value, n.args[0]
        elif res(n.func) in CREATE_FUNCS and n.args and _has_dtype(n):
            src, dt = n.args[0], [k.value for k in n.keywords if k.arg == "dtype"][0]
        if src is None or not (isinstance(dt, ast.Attribute) and dt.attr == "dtype"):
            continue
        if is_inherited(src) and is_inherited(dt.value) and ast.unparse(src) != ast.unparse(dt.value):
            # the same array under another name (a view / copy / reduction of it) is no second array: compare the parameters the
            # two expressions derive from
            def sources(e, depth=0):
                out = set()
                for x in ast.walk(e):
                    if isinstance(x, ast.Name) and isinstance(x.ctx, ast.Load):
                        if x.id in array_params:
                            out.add(x.id)
                        elif x.id in defs and depth < 5:
                            for v in defs[x.id] + unpacked.get(x.id, []):
                                if v is not None and not any(y is n for y in ast.walk(v)):   # not through the cast itself
                                    out |= sources(v, depth + 1)
                    elif isinstance(x, ast.Attribute) and isinstance(x.value, ast.Name) and x.value.id == "self":
                        out.add("self." + x.attr)
                return out
            s1, s2 = sources(src), sources(dt.value)
            # a parameter used as a number (an operand of arithmetic, a dimension) is a scalar setting, not a second array
            scalar_like = {x.id for b_ in ast.walk(f) if isinstance(b_, ast.BinOp) for x in (b_.left, b_.right)
                           if isinstance(x, ast.Name) and x.id in s2}
            if s1 and s2 and not (s1 & s2) and not (s2 & scalar_like):
                hits.append(dict(node=n, array=ast.unparse(src),
                                 why=f"`{ast.unparse(n)[:90]}` casts `{ast.unparse(src)[:30]}` to the dtype of `{ast.unparse(dt.value)[:30]}`, "
                                     f"another array of the caller: when that one is integer-typed and this one is not, its coordinates "
                                     f"are truncated"))
    for n in ast.walk(f):
        if isinstance(n, ast.Assign) and len(n.targets) == 1 and isinstance(n.targets[0], ast.Subscript):
            base = n.targets[0].value
            if isinstance(base, ast.Name) and base.id in inherited and is_float(n.value):
                # a parameter that is re-bound to an explicit float array before the store is fine
                if base.id in defs and not any(is_inherited(v) for v in defs[base.id]):
                    continue
                hits.append(dict(node=n, array=base.id, why=f"`{ast.unparse(n)[:90]}` stores floating-point values into `{base.id}`, "
                                                             f"whose dtype is that of the caller's data"))
        elif isinstance(n, ast.Call) and res(n.func) == "numpy.full_like" and len(n.args) >= 2 and not _has_dtype(n) \
                and is_inherited(n.args[0]) and is_float(n.args[1]):
            hits.append(dict(node=n, array=ast.unparse(n.args[0]), why=f"`{ast.unparse(n)[:90]}` fills an array of the caller's dtype with "
                                                                       f"a floating-point value"))
    return hits


def run_on(project: Project, rep, rule: str, functions: List[FunctionInfo], floor: int = 1):
    n = 0
    for fi in functions:
        n += 1
        for h in analyse(project, fi):
            rep.refuted(rule, fi, h["node"],
                        h["why"] + ": for integer input (a diagram written with ints) numpy truncates what is stored, so the "
                                   "result depends on whether the same numbers are given as int or float",
                        construct=f"{fi.qualname}: {ast.unparse(h['node'])[:100]}")
    rep.discharged(rule, functions[0] if functions else None, functions[0].node if functions else None,
                   f"{n} functions inspected: no floating-point store into an array whose dtype is inherited from the caller") \
        if functions else None
    # ... and no arithmetic between quantities that still have the caller's (possibly narrow or unsigned) integer dtype
    from . import intarith_rule
    for fi in functions:
        if fi.parent is not None or not isinstance(fi.node, (ast.FunctionDef, ast.AsyncFunctionDef)):
            continue
        ap = intarith_rule.array_params_of(project, fi)
        hs = intarith_rule.analyse(project, fi)
        if not ap and not hs:
            continue
        for h in hs:
            rep.refuted(rule, fi, h["node"], h["why"] + " — the same numbers given as floats or as nested lists give another result",
                        construct=f"{fi.qualname}: {ast.unparse(h['node'])[:100]}")
        if not hs:
            rep.discharged(rule, fi, fi.node, f"array parameters {sorted(ap)}: no difference of two caller arrays, product, power or "
                                              f"sum is formed while the operands still have the caller's dtype")
    return n
