"""C09 — landscape arithmetic is pointwise and leaves operands untouched (landscapes/*.py).

Decided: AR-EFFECT (the transitive attribute write-set of every operator/tool on its operands is a subset of the
lazy-compute cache, written only in compute_landscape), AR-LAZY (those cache stores are dominated by the 'cache
empty' test — the idempotent uncomputed→computed transition), AR-OWN (no in-place write through an operand's
arrays/lists), AR-GUARD (degree / grid mismatch guards dominate the construction of a sum; __sub__ reaches
__add__; linear combinations re-sample first), AR-UNARY (negation, scalar product and quotient are the affine
pointwise maps (t, −y), (t, c·y), (t, y/c); quotient by 0 raises; __rmul__ ≡ __mul__; averaging weights 1/n),
AR-PAD (the shallower operand is zero-padded along the depth axis, after its existing depths), AR-SNAP (each
depth is re-sampled with np.interp(new grid, own old grid, own values); result carries the new grid and the
input's degree).
Declined: correctness of the slope-merge of exact landscapes for coincident abscissae / sign changes.
"""
from __future__ import annotations

import ast

from ..core import sym, symeval
from ..core.absint import Config, Interp
from ..core.cfg import CFG
from ..core.loader import AnalysisError, Project
from ..core.values import Arr, ObjV, Sc, Seq, fix, fresh, rows
from .common import bind_call, canon_text, enclosing_iterations, expand_locals, fn_view, local_names, own_analysis
from .distances import unmodelled_in

EX = "persim.landscapes.exact.PersLandscapeExact"
AP = "persim.landscapes.approximate.PersLandscapeApprox"
LAZY = {EX: {"critical_pairs", "max_depth"}, AP: {"values", "max_depth"}}
OPS = ["__add__", "__sub__", "__neg__", "__mul__", "__rmul__", "__truediv__", "__getitem__", "p_norm", "sup_norm",
       "values_to_pairs", "compute_landscape_by_depth"]
TOOLS = ["persim.landscapes.tools.snap_pl", "persim.landscapes.tools.lc_approx", "persim.landscapes.tools.average_approx",
         "persim.landscapes.tools.vectorize", "persim.landscapes.auxiliary.union_crit_pairs",
         "persim.landscapes.auxiliary.union_vals", "persim.landscapes.visuals.plot_landscape",
         "persim.landscapes.visuals.plot_landscape_simple", "persim.landscapes.visuals.plot_landscape_exact",
         "persim.landscapes.visuals.plot_landscape_exact_simple", "persim.landscapes.visuals.plot_landscape_approx",
         "persim.landscapes.visuals.plot_landscape_approx_simple"]
ALL_LAZY = set().union(*LAZY.values())


def _memo_slot(project, ev) -> bool:
    """the store fills or clears a private memo slot of the operand: `_x` is only ever assigned None, in __init__, or under a
    test that reads `_x` itself (`if self._x is None or self._x[0] != key: self._x = (key, build(...))`).  Whether the key is
    complete is the memo rule's question (ST-CACHE); filling a memo does not change what the operand stands for."""
    owner = project.functions.get(ev.func)
    return _memo_slot_attr(project, getattr(owner, "cls", None), ev.attr)


def _memo_slot_attr(project, cls, attr) -> bool:
    if not attr.startswith("_") or attr.startswith("__"):
        return False
    if cls is None:
        return False
    n_guarded = 0
    for k in cls.mro(project):
        for m in k.methods.values():
            if not isinstance(m.node, ast.FunctionDef) or not m.node.args.args:
                continue
            me = m.node.args.args[0].arg
            parents = {id(c): p_ for p_ in ast.walk(m.node) for c in ast.iter_child_nodes(p_)}
            for st in ast.walk(m.node):
                if not (isinstance(st, ast.Assign) and any(isinstance(t, ast.Attribute) and t.attr == attr for t in st.targets)):
                    continue
                if isinstance(st.value, ast.Constant) and st.value.value is None:
                    continue
                if m.name == "__init__":
                    continue
                x, guarded = st, False
                while id(x) in parents:
                    x = parents[id(x)]
                    if isinstance(x, ast.If) and any(isinstance(a_, ast.Attribute) and a_.attr == attr and isinstance(a_.value, ast.Name)
                                                     and a_.value.id == me for a_ in ast.walk(x.test)):
                        guarded = True
                        break
                if not guarded:
                    return False
                n_guarded += 1
    return True


def check_effects(project: Project, rep):
    oa = own_analysis(project)
    targets = []
    for cq in (EX, AP):
        c = project.cls(cq)
        for m in OPS:
            fi = c.methods.get(m)
            if fi is not None:
                targets.append(fi)
    for q in TOOLS:
        if q in project.functions:
            targets.append(project.functions[q])
        else:
            raise AnalysisError(f"AR-EFFECT: {q} not found")
    # AR-FLAGS: an operator may protect its operands' arrays while it reads them, but gives them back as they were
    from .c19 import check_pu_flags
    check_pu_flags(project, oa, rep, targets, rule="AR-FLAGS", include_self=True)
    n = 0
    for fi in targets:
        rep.analysed(fi)
        s = oa.summary(fi.qualname)
        bad_attr, bad_write = [], []
        for ev in s.events:
            if not ev.origin.is_arg:
                continue
            if ev.kind == "attrstore":
                in_compute = ev.func.endswith(".compute_landscape") or any("compute_landscape" in c_.split("→")[-1] for c_ in ev.chain)
                lazy_name = ev.attr in ALL_LAZY or (ev.attr.startswith("_") and ev.attr[1:] in ALL_LAZY)   # a property's backing field
                if lazy_name and in_compute:
                    continue
                if _memo_slot(project, ev):
                    continue
                bad_attr.append(ev)
            elif ev.kind == "write":
                bad_write.append(ev)
        for ev in bad_attr:
            owner = project.functions.get(ev.func) or fi
            rep.refuted("AR-EFFECT", owner, ev.node,
                        f"{fi.qualname} rebinds `{ev.attr}` of its operand `{ev.origin}` (outside the lazy-compute cache): the "
                        f"operand is observably changed by the operation" + (f" [via {' -> '.join(ev.chain)}]" if ev.chain else ""),
                        construct=f"{fi.qualname}: {ast.unparse(ev.node)}")
        for ev in bad_write:
            owner = project.functions.get(ev.func) or fi
            rep.refuted("AR-OWN", owner, ev.node,
                        f"{fi.qualname} mutates in place an object reachable from its operand `{ev.origin}` ({ev.how}): the "
                        f"operand's function changes under the operation" + (f" [via {' -> '.join(ev.chain)}]" if ev.chain else ""),
                        construct=f"{fi.qualname}: {ast.unparse(ev.node)}")
        if not bad_attr:
            lazy = sorted({(str(ev.origin), ev.attr) for ev in s.events if ev.kind == "attrstore" and ev.origin.is_arg})
            rep.discharged("AR-EFFECT", fi, fi.node, f"attribute write-set on operands ⊆ lazy cache: {lazy if lazy else '∅'}")
            n += 1
        if not bad_write:
            rep.discharged("AR-OWN", fi, fi.node, "no in-place write reaches an array/list of an operand",
                           nontrivial=bool(s.events or s.repo_calls))
    return n


def check_lazy(project: Project, rep):
    for cq in (EX, AP):
        c = project.cls(cq)
        fi = c.methods["compute_landscape"]
        f = fn_view(project, fi)
        cfg = CFG(f)
        stores = [n for n in ast.walk(f) if isinstance(n, ast.Assign) and isinstance(n.targets[0], ast.Attribute)
                  and isinstance(n.targets[0].value, ast.Name) and n.targets[0].value.id == "self"]
        tests = [n for n in ast.walk(f) if isinstance(n, ast.If) and any(
            isinstance(x, ast.Attribute) and isinstance(x.value, ast.Name) and x.value.id == "self" and x.attr in LAZY[cq]
            for x in ast.walk(n.test)) and any(isinstance(s, ast.Return) for s in n.body)]
        if not tests:
            # the 'already computed' exit may have been factored into a decorator of the package: its wrapper returns early on
            # the stored data and only otherwise calls the method — then every store of the body happens with an empty cache
            from .common import decorator_wrappers
            deco_ok = False
            for g_, w_, fname_ in decorator_wrappers(project, fi):
                me_ = w_.args.args[0].arg if w_.args.args else None
                cfg_w = CFG(w_)
                for n_ in ast.walk(w_):
                    if isinstance(n_, ast.If) and any(isinstance(x, ast.Attribute) and isinstance(x.value, ast.Name) and x.value.id == me_
                                                      and x.attr in LAZY[cq] for x in ast.walk(n_.test)) \
                            and any(isinstance(s_, ast.Return) for s_ in n_.body):
                        tn_ = cfg_w.node_of(n_)
                        calls_ = [cfg_w.node_of(c_) for c_ in ast.walk(w_) if isinstance(c_, ast.Call) and isinstance(c_.func, ast.Name)
                                  and c_.func.id == fname_]
                        if tn_ is not None and calls_ and all(c_ is not None and cfg_w.dominated_by_branch(c_.id, tn_.id, False)
                                                             for c_ in calls_):
                            deco_ok = True
            bad_store = [st for st in stores if st.targets[0].attr not in LAZY[cq]]
            if deco_ok and not bad_store:
                rep.discharged("AR-LAZY", fi, f, f"{cq.rsplit('.', 1)[1]}.compute_landscape: the 'already computed' exit is taken by its "
                                                 f"decorator, the body runs only when the cache is empty")
                for st in stores:
                    rep.discharged("AR-LAZY", fi, st, f"store to self.{st.targets[0].attr} happens only when the cache was empty (the "
                                                      f"decorator returns the stored data otherwise)")
                continue
            rep.refuted("AR-LAZY", fi, f, f"{cq.rsplit('.', 1)[1]}.compute_landscape has no 'already computed' early return: calling "
                                          f"an operator recomputes and overwrites the stored landscape",
                        construct=f"{fi.qualname}: cache test")
            continue
        t = tests[0]
        tn = cfg.node_of(t)
        for st in stores:
            sn = cfg.node_of(st)
            if st.targets[0].attr not in LAZY[cq]:
                if _memo_slot_attr(project, c, st.targets[0].attr):
                    rep.discharged("AR-LAZY", fi, st, f"`{st.targets[0].attr}` is a private memo slot (filled under a test on itself)",
                                   nontrivial=False)
                    continue
                rep.refuted("AR-LAZY", fi, st, f"compute_landscape writes `{st.targets[0].attr}`, which is not part of the lazy cache")
                continue
            if sn is not None and tn is not None and cfg.dominated_by_branch(sn.id, tn.id, False):
                rep.discharged("AR-LAZY", fi, st, f"store to self.{st.targets[0].attr} happens only when the cache was empty "
                                                  f"(dominated by the negative edge of `{ast.unparse(t.test)}`)")
            else:
                rep.refuted("AR-LAZY", fi, st, f"store to self.{st.targets[0].attr} is reachable when the landscape was already "
                                               f"computed: an operator overwrites its operand's data")


def _operand(I, cq, tag):
    if cq == AP:
        d, g = fresh(), fresh()
        vals = Arr([(rows("D" + tag), d), (rows("G"), g)], sym.In("vals" + tag, ((d, 0), (g, 0))))
        return I.construct(AP, [], {"start": Sc(sym.Sym("start_" + tag)), "stop": Sc(sym.Sym("stop_" + tag)),
                                    "num_steps": Sc(sym.Sym("num_steps_" + tag)), "hom_deg": Sc(sym.Sym("hom_deg_" + tag)),
                                    "values": vals}, None)
    d, k, c = fresh(), fresh(), fresh()
    cp = Arr([(rows("D" + tag), d), (rows("K" + tag), k), (fix(2), c)],
             sym.Sel(c, (sym.In("cp" + tag, ((d, 0), (k, 0), 0)), sym.In("cp" + tag, ((d, 0), (k, 0), 1)))), "list")
    return I.construct(EX, [], {"hom_deg": Sc(sym.Sym("hom_deg_" + tag)), "critical_pairs": cp}, None)


def _eval_cond(cond, values):
    import random
    pt = symeval.Point(random.Random(7), nrows=3)
    pt.syms.update(values)
    return bool(symeval.ev(cond, pt))


def check_guards(project: Project, rep):
    """AR-GUARD, decided on the path condition of the statement that returns the sum: `__add__` is executed symbolically
    on two landscapes whose degree / grid attributes are independent symbols; whatever form the guards take (inline
    tests, a helper method, the base class), the facts known at the `return` must exclude a mismatch in every one of the
    attributes and admit operands that agree in all of them."""
    oa = own_analysis(project)
    for cq, needed in ((EX, ["hom_deg"]), (AP, ["hom_deg", "start", "stop", "num_steps"])):
        c = project.cls(cq)
        add = c.methods["__add__"]
        nm = cq.rsplit(".", 1)[1]
        I = Interp(project, Config(nonempty={("rows", "Da"), ("rows", "Db"), ("rows", "Ka"), ("rows", "Kb"), ("rows", "G")},
                                   finite_inputs={"cpa", "cpb", "valsa", "valsb"}))
        x, y = _operand(I, cq, "a"), _operand(I, cq, "b")
        try:
            I.call_function(add, [x, y], {}, None)
        except Exception as ex:  # the operands' data path is irrelevant here; the guards come first
            rep.note(f"{nm}.__add__: symbolic execution stopped after the guards ({type(ex).__name__})")
        rets = [ev for ev in I.log if ev["kind"] == "return" and ev["fi"] is add]
        if not rets:
            rep.unmodelled("AR-GUARD", add, add.node, f"{nm}.__add__: no return reached in symbolic execution")
            continue
        base = {}
        for k, a in enumerate(needed):
            base[f"{a}_a"] = base[f"{a}_b"] = 2.0 + k
        for a in needed:
            verdicts = []
            try:
                for ev in rets:
                    cond = sym.And(*ev["path"]) if ev["path"] else sym.TRUE
                    mism = False
                    # degrees and step counts are integers (and may be compared through int()); grid ends are reals
                    for delta in ((1.0, -1.0) if a in ("hom_deg", "num_steps") else (0.5, -0.5)):
                        vals = dict(base)
                        vals[f"{a}_b"] = vals[f"{a}_a"] + delta
                        mism = mism or _eval_cond(cond, vals)
                    verdicts.append((mism, _eval_cond(cond, base), ev))
            except symeval.NotEvaluable as ex:
                rep.unmodelled("AR-GUARD", add, add.node, f"{nm}.__add__: path condition of the sum not evaluable ({ex})")
                continue
            leak = [ev for mism, _, ev in verdicts if mism]
            # only what is lost while the guards run matters (the operator itself, the base class, private guard helpers) —
            # not what happens inside the constructor of the result, which is evaluated in the return statement
            def _guard_frame(fi_):
                return fi_ is not None and (fi_.name == "__add__" or (fi_.name.startswith("_") and not fi_.name.startswith("__")))
            if leak and any(l["pos"] <= I.log.index(ev) and _guard_frame(l["fi"]) for ev in leak for l in I.lossy):
                rep.unmodelled("AR-GUARD", add, leak[0]["node"], f"{nm}.__add__: the guards could not be followed exactly "
                                                                 f"({I.lossy[0]['why']})")
            elif leak:
                rep.refuted("AR-GUARD", add, leak[0]["node"],
                            f"{nm}.__add__ builds a sum without rejecting operands whose `{a}` differ (facts known at the "
                            f"return: {sym.show(sym.And(*leak[0]['path']) if leak[0]['path'] else sym.TRUE)[:160]})",
                            construct=f"{add.qualname}: guard on {a}")
            elif not any(eq for _, eq, _ in verdicts):
                rep.refuted("AR-GUARD", add, add.node, f"{nm}.__add__ rejects operands that agree in degree and grid: no sum is "
                                                       f"ever built", construct=f"{add.qualname}: over-strict guard")
            else:
                rep.discharged("AR-GUARD", add, verdicts[0][2]["node"],
                               f"{nm}.__add__: the sum is returned only on paths where `{a}` of both operands agree "
                               f"(mismatch raises first)")
        sub = c.methods["__sub__"]
        s = oa.summary(sub.qualname)
        callees = {t for t, _ in s.repo_calls}
        negs = {f"{cq}.__neg__", f"{cq}.__mul__", f"{cq}.__rmul__"}
        if add.qualname in callees and (callees & negs):
            rep.discharged("AR-GUARD", sub, sub.node, "__sub__ is __add__ of the negation (same guards apply)")
        else:
            rep.unmodelled("AR-GUARD", sub, sub.node, f"__sub__ does not go through __add__ and a negation (calls "
                                                      f"{sorted(callees)}): the difference is computed some other way, which is "
                                                      f"not decided here")
    snap = "persim.landscapes.tools.snap_pl"
    for q in ("persim.landscapes.tools.lc_approx", "persim.landscapes.tools.average_approx"):
        fi = project.function(q)
        seen, stack = set(), [q]
        while stack:
            x = stack.pop()
            if x in seen:
                continue
            seen.add(x)
            for t, _ in oa.summary(x).repo_calls:
                if t in project.functions:
                    stack.append(t)
        if snap in seen:
            rep.discharged("AR-GUARD", fi, fi.node, f"{q.rsplit('.', 1)[1]} re-samples its inputs onto a common grid (snap_pl) "
                                                    f"before combining them")
        else:
            rep.refuted("AR-GUARD", fi, fi.node, f"{q.rsplit('.', 1)[1]} combines landscapes without re-sampling them onto a common "
                                                 f"grid")


def _exact_obj(I):
    d, k, c = fresh(), fresh(), fresh()
    cp = Arr([(rows("D"), d), (rows("K"), k), (fix(2), c)],
             sym.Sel(c, (sym.In("cp", ((d, 0), (k, 0), 0)), sym.In("cp", ((d, 0), (k, 0), 1)))), "list")
    return I.construct(EX, [], {"hom_deg": Sc(sym.Sym("deg")), "critical_pairs": cp}, None)


def _approx_obj(I):
    d, g = fresh(), fresh()
    vals = Arr([(rows("D"), d), (rows("G"), g)], sym.In("vals", ((d, 0), (g, 0))))
    return I.construct(AP, [], {"start": Sc(sym.Sym("t0")), "stop": Sc(sym.Sym("t1")), "num_steps": Sc(sym.Size(("rows", "G"))),
                                "hom_deg": Sc(sym.Sym("deg")), "values": vals}, None)


def check_unary(project: Project, rep):
    cfg = Config(nonempty={("rows", "D"), ("rows", "K"), ("rows", "G")}, finite_inputs={"cp", "vals"},
                 assume_true=[sym.Expr(("cmp", ">=", sym.Sym("deg"), sym.ZERO))])
    c = sym.Sym("c")
    specs = {"__neg__": lambda y: sym.neg(y), "__mul__": lambda y: sym.mul(y, c), "__rmul__": lambda y: sym.mul(y, c),
             "__truediv__": lambda y: sym.div(y, c)}
    for cq, mk, attr in ((EX, _exact_obj, "critical_pairs"), (AP, _approx_obj, "values")):
        cls = project.cls(cq)
        for m, spec in specs.items():
            fi = cls.methods.get(m)
            if fi is None:
                rep.refuted("AR-UNARY", cls.methods["__add__"], cls.node, f"{cq} lacks {m}", construct=f"{cq}: {m} missing")
                continue
            I = Interp(project, cfg)
            I.cfg.assume_true.append(sym.Expr(("cmp", "!=", c, sym.ZERO)))
            obj = mk(I)
            before = {k: v for k, v in obj.attrs.items()}
            args = [] if m == "__neg__" else [Sc(c)]
            r = I.call_function(fi, [obj] + args, {}, None)
            if not isinstance(r, ObjV) or r.cls != cq or not isinstance(r.attrs.get(attr), Arr):
                rep.unmodelled("AR-UNARY", fi, fi.node, f"result of {m} not modelled: {r!r}"[:160])
                continue
            out = r.attrs[attr]
            src = before[attr]
            if cq == EX:
                (d0, i0), (k0, j0), (c0, l0) = out.axes
                t_out = sym.subst_ivar(out.elem, l0, 0)
                y_out = sym.subst_ivar(out.elem, l0, 1)
                t_in = sym.In("cp", ((i0, 0), (j0, 0), 0))
                y_in = sym.In("cp", ((i0, 0), (j0, 0), 1))
                ok_t = symeval.equivalent(t_out, t_in)[0] is True
            else:
                (d0, i0), (g0, j0) = out.axes
                y_out = out.elem
                y_in = sym.In("vals", ((i0, 0), (j0, 0)))
                ok_t = True
            ok_y, w = symeval.equivalent(y_out, spec(y_in), trials=30)
            nm = cq.rsplit(".", 1)[1]
            if ok_t and ok_y is True:
                rep.discharged("AR-UNARY", fi, fi.node, f"{nm}.{m}: values ↦ {sym.show(spec(sym.Sym('y')))}, abscissae unchanged, at "
                                                        f"every depth", derived=sym.show(y_out)[:120])
            elif ok_y is False or not ok_t:
                rep.refuted("AR-UNARY", fi, fi.node, f"{nm}.{m} maps y to {sym.show(y_out)[:100]}" +
                            ("" if ok_t else f" and t to {sym.show(t_out)[:60]}") + f" instead of (t, {sym.show(spec(sym.Sym('y')))})")
            else:
                rep.unmodelled("AR-UNARY", fi, fi.node, f"cannot evaluate result of {m}")
            # the result carries the operand's degree and grid
            keep = ["hom_deg"] + (["start", "stop", "num_steps"] if cq == AP else [])
            for a in keep:
                va, vb = r.attrs.get(a), before.get(a)
                if isinstance(va, Sc) and isinstance(vb, Sc) and va.e == vb.e:
                    continue
                rep.refuted("AR-UNARY", fi, fi.node, f"{nm}.{m}: the result's `{a}` is {va!r}, not the operand's {vb!r}")
            # operand unchanged
            for a, v0 in before.items():
                if obj.attrs.get(a) is not v0 and a not in LAZY[cq]:
                    rep.refuted("AR-EFFECT", fi, fi.node, f"{nm}.{m} rebinds its operand's `{a}`")
        # division by zero raises
        fi = cls.methods.get("__truediv__")
        if fi is not None:
            I = Interp(project, Config(nonempty=cfg.nonempty, finite_inputs=cfg.finite_inputs))
            obj = mk(I)
            I.call_function(fi, [obj, Sc(sym.ZERO)], {}, None)
            top = [ev for ev in I.log if ev["kind"] == "return" and ev["fi"] is fi]
            raised = [ev for ev in I.log if ev["kind"] == "raise"]
            if raised and not top:
                rep.discharged("AR-UNARY", fi, fi.node, f"{cq.rsplit('.', 1)[1]}: division by zero raises")
            else:
                rep.refuted("AR-UNARY", fi, fi.node, f"{cq.rsplit('.', 1)[1]}: division by zero does not raise")
    # average weights
    av = project.function("persim.landscapes.tools.average_approx")
    lc = project.function("persim.landscapes.tools.lc_approx")
    f = fn_view(project, av)
    locs = local_names(f)
    calls = [n for n in ast.walk(f) if isinstance(n, ast.Call) and project.resolve(av.module, n.func, locs) == lc.qualname]
    lands = av.params[0]
    if len(calls) != 1 or len(lc.params) < 2:
        rep.unmodelled("AR-UNARY", av, av.node, "average_approx does not delegate to lc_approx in one call")
    else:
        b_ = bind_call(lc.node, calls[0])
        cexpr = b_.get(lc.params[1])
        lexpr = b_.get(lc.params[0])
        if cexpr is None or lexpr is None or canon_text(f, lexpr) != lands:
            rep.unmodelled("AR-UNARY", av, av.node, "averaging coefficients not found")
        else:
            e = expand_locals(f, cexpr)
            txt = ast.unparse(e).replace(" ", "")
            inv = {f"1.0/len({lands})", f"1/len({lands})", f"1.0/float(len({lands}))"}
            verdict = None
            if isinstance(e, ast.ListComp) and len(e.generators) == 1 and not e.generators[0].ifs:
                elt = ast.unparse(expand_locals(f, e.elt)).replace(" ", "")
                it = ast.unparse(e.generators[0].iter).replace(" ", "")
                per_item = it in (lands, f"range(len({lands}))")
                if elt in inv and per_item:
                    verdict = True
                elif per_item and not any(isinstance(x, ast.Name) and x.id not in (lands, "len", "float")
                                          for x in ast.walk(e.elt)):
                    verdict = False  # one constant weight per landscape, but not 1/n
            elif isinstance(e, ast.BinOp) and isinstance(e.op, ast.Mult):
                l_, r_ = ast.unparse(e.left).replace(" ", ""), ast.unparse(e.right).replace(" ", "")
                for x, y in ((l_, r_), (r_, l_)):
                    if x.startswith("[") and x.endswith("]") and x[1:-1] in inv and y == f"len({lands})":
                        verdict = True
            if verdict is True:
                rep.discharged("AR-UNARY", av, cexpr, "average = linear combination with weights 1/n, one per landscape")
            elif verdict is False:
                rep.refuted("AR-UNARY", av, cexpr, f"average uses coefficients {txt[:80]} instead of 1/n per landscape")
            else:
                rep.unmodelled("AR-UNARY", av, av.node, f"averaging coefficients `{txt[:80]}` not recognised")


def check_pad_snap(project: Project, rep):
    from .merge import check_pad_semantic, check_snap_semantic
    sem = check_pad_semantic(project, rep)
    from ..core.report import Report
    pre_snap = Report("C09-snap")
    sem["snap"] = check_snap_semantic(project, pre_snap)
    if sem["snap"] != "unmodelled":
        check_snap_semantic(project, rep)
    uv = project.function("persim.landscapes.auxiliary.union_vals")
    rep.analysed(uv)
    uvn = fn_view(project, uv)
    pads = [n for n in ast.walk(uvn) if isinstance(n, ast.Call) and project.resolve(uv.module, n.func, local_names(uvn)) == "numpy.pad"]
    if len(pads) < 2 and sem.get("vals") not in ("ok", "refuted"):
        rep.unmodelled("AR-PAD", uv, uv.node, "padding calls not found")
    for pnode in pads:
        target = ast.unparse(pnode.args[0]) if pnode.args else None
        pw = [k.value for k in pnode.keywords if k.arg == "pad_width"] or (pnode.args[1:2])
        mode = [k.value for k in pnode.keywords if k.arg in ("mode", "constant_values")]
        ok = False
        if pw and isinstance(pw[0], ast.Tuple) and len(pw[0].elts) == 2 and all(isinstance(e, ast.Tuple) and len(e.elts) == 2 for e in pw[0].elts):
            (a0, a1), (b0, b1) = [e.elts for e in pw[0].elts]
            zero = lambda x: isinstance(x, ast.Constant) and x.value == 0
            ok = zero(a0) and not zero(a1) and zero(b0) and zero(b1)
        # which operand: the one with fewer depths, according to the enclosing branch
        if ok and not mode:
            rep.discharged("AR-PAD", uv, pnode, f"`{target}` is zero-padded along the depth axis, after its existing depths")
        elif mode:
            rep.refuted("AR-PAD", uv, pnode, f"`{target}` is padded with a non-default mode/value: missing depths are not the zero "
                                             f"function")
        else:
            rep.refuted("AR-PAD", uv, pnode, f"`{target}` is padded with pad_width={ast.unparse(pw[0]) if pw else '?'}: padding must "
                                             f"be ((0, k), (0, 0)) — new zero depths after the existing ones, grid axis untouched")
    # the branch pads the operand with fewer rows
    for n in ast.walk(uvn):
        if isinstance(n, ast.If) and isinstance(n.test, ast.Compare) and isinstance(n.test.left, ast.Name):
            pass
    diff = [n for n in ast.walk(uvn) if isinstance(n, ast.Assign) and isinstance(n.value, ast.BinOp) and isinstance(n.value.op, ast.Sub)
            and "shape[0]" in ast.unparse(n.value)]
    if diff:
        d = diff[0]
        first = ast.unparse(d.value.left).split(".")[0]
        second = ast.unparse(d.value.right).split(".")[0]
        dn = d.targets[0].id
        for n in ast.walk(uvn):
            if isinstance(n, ast.If) and isinstance(n.test, ast.Compare) and isinstance(n.test.left, ast.Name) and n.test.left.id == dn:
                op = n.test.ops[0]
                padded = [ast.unparse(c.args[0]) for s in n.body for c in ast.walk(s) if isinstance(c, ast.Call)
                          and isinstance(c.func, ast.Attribute) and c.func.attr == "pad" and c.args]
                if not padded:
                    continue
                want = first if isinstance(op, (ast.Lt, ast.LtE)) else second
                if padded[0] == want:
                    rep.discharged("AR-PAD", uv, n, f"when `{ast.unparse(n.test)}` the shallower operand `{want}` is the one padded")
                else:
                    rep.refuted("AR-PAD", uv, n, f"when `{ast.unparse(n.test)}` the deeper operand `{padded[0]}` is padded instead "
                                                 f"of `{want}`")
    # union_crit_pairs: deeper operand's depth taken unchanged when the other has none
    uc = project.function("persim.landscapes.auxiliary.union_crit_pairs")
    rep.analysed(uc)
    ucn = fn_view(project, uc)
    loops = [n for n in ast.walk(ucn) if isinstance(n, ast.For) and "zip_longest" in ast.unparse(n.iter)]
    if loops:
        lp = loops[0]
        if isinstance(lp.target, ast.Tuple) and len(lp.target.elts) == 2:
            a, b = (e.id for e in lp.target.elts)
            good = True
            for n in ast.walk(lp):
                if isinstance(n, ast.If) and isinstance(n.test, ast.Compare) and isinstance(n.test.ops[0], ast.Is) \
                        and isinstance(n.test.left, ast.Name):
                    missing = n.test.left.id
                    other = b if missing == a else a
                    apps = [c for s in n.body for c in ast.walk(s) if isinstance(c, ast.Call) and isinstance(c.func, ast.Attribute)
                            and c.func.attr == "append"]
                    def _plain(e):
                        # a copy of the depth is the depth: deepcopy(x), copy(x), list(x), x.copy(), x[:]
                        while True:
                            if isinstance(e, ast.Call) and len(e.args) == 1 and not e.keywords and isinstance(e.func, (ast.Name, ast.Attribute)) \
                                    and (e.func.attr if isinstance(e.func, ast.Attribute) else e.func.id) in ("deepcopy", "copy", "list"):
                                e = e.args[0]
                            elif isinstance(e, ast.Call) and not e.args and isinstance(e.func, ast.Attribute) and e.func.attr == "copy":
                                e = e.func.value
                            elif isinstance(e, ast.Subscript) and isinstance(e.slice, ast.Slice) and e.slice.lower is None \
                                    and e.slice.upper is None and e.slice.step is None:
                                e = e.value
                            else:
                                return ast.unparse(e)
                    if apps and _plain(apps[0].args[0]) == other:
                        rep.discharged("AR-PAD", uc, n, f"when `{missing}` has no such depth the other operand's depth `{other}` is "
                                                        f"taken unchanged (missing depth = zero function)")
                    elif apps and sem.get("crit") == "ok":
                        rep.discharged("AR-PAD", uc, n, f"when `{missing}` has no such depth `{ast.unparse(apps[0].args[0])[:40]}` is taken: "
                                                        f"decided on the evaluated result (the other operand's depth, unchanged)",
                                       nontrivial=False)
                    elif apps:
                        good = False
                        rep.refuted("AR-PAD", uc, n, f"when `{missing}` is missing, `{ast.unparse(apps[0].args[0])}` is appended instead "
                                                     f"of `{other}`")
    elif sem.get("crit") != "ok":
        rep.unmodelled("AR-PAD", uc, uc.node, "depth pairing loop (zip_longest) not found")
    # AR-SNAP: decided on the followed constructor calls (merge.check_snap_semantic); the site rule below is the fall-back
    if sem.get("snap") != "unmodelled":
        return
    sp = project.function("persim.landscapes.tools.snap_pl")
    rep.analysed(sp)
    f = fn_view(project, sp)
    locs = local_names(f)
    if len(sp.params) < 4:
        rep.unmodelled("AR-SNAP", sp, sp.node, f"unexpected signature {sp.params}")
        return
    P_PLS, P_START, P_STOP, P_NUM = sp.params[:4]
    interps = [n for n in ast.walk(f) if isinstance(n, ast.Call) and project.resolve(sp.module, n.func, locs) == "numpy.interp"]
    if len(interps) != 1 or len(interps[0].args) < 3:
        rep.unmodelled("AR-SNAP", sp, sp.node, "interpolation call not found")
        return
    c = interps[0]
    its = enclosing_iterations(f, c)
    pl_var = inner_var = None
    for tgt, it in its:
        if isinstance(tgt, ast.Name) and ast.unparse(expand_locals(f, it)) == P_PLS:
            pl_var = tgt.id
    for tgt, it in its:
        if isinstance(tgt, ast.Name) and pl_var is not None and ast.unparse(expand_locals(f, it)) in (pl_var, f"{pl_var}.values"):
            inner_var = tgt.id

    def lin(e):
        """(a, b, n) texts if e is np.linspace(a, b, n)"""
        e = expand_locals(f, e)
        if isinstance(e, ast.Call) and project.resolve(sp.module, e.func, locs) == "numpy.linspace" and not e.keywords \
                and len(e.args) == 3:
            return tuple(ast.unparse(a_) for a_ in e.args)
        if isinstance(e, ast.Call) and project.resolve(sp.module, e.func, locs) in ("numpy.array", "numpy.asarray") and e.args:
            return lin(e.args[0])
        return None
    x, xp = lin(c.args[0]), lin(c.args[1])
    fp = ast.unparse(expand_locals(f, c.args[2]))
    if pl_var is None or inner_var is None or x is None or xp is None:
        rep.unmodelled("AR-SNAP", sp, c, f"re-sampling np.interp({ast.unparse(c.args[0])}, {ast.unparse(c.args[1])}, "
                                         f"{ast.unparse(c.args[2])}) not in a recognised form")
    else:
        ok_x = x == (P_START, P_STOP, P_NUM)
        ok_xp = xp == (f"{pl_var}.start", f"{pl_var}.stop", f"{pl_var}.num_steps")
        ok_fp = fp == inner_var
        if ok_x and ok_xp and ok_fp:
            rep.discharged("AR-SNAP", sp, c, "each depth is np.interp(new grid, the landscape's own grid, that depth's values)")
        else:
            rep.refuted("AR-SNAP", sp, c, f"re-sampling is np.interp(linspace{x}, linspace{xp}, {fp}): " +
                        ("the target is not the requested grid; " if not ok_x else "") +
                        ("the source abscissae are not the landscape's own grid; " if not ok_xp else "") +
                        ("the ordinates are not that depth's values" if not ok_fp else ""))
    ctor = [n for n in ast.walk(f) if isinstance(n, ast.Call) and project.resolve(sp.module, n.func, locs) == AP]
    if ctor and pl_var is not None:
        init = project.cls(AP).methods["__init__"]
        kws = {k: ast.unparse(expand_locals(f, v)) for k, v in bind_call(init.node, ctor[0], receiver=True).items()}
        want = {"start": P_START, "stop": P_STOP, "num_steps": P_NUM, "hom_deg": f"{pl_var}.hom_deg"}
        bad = {k: v for k, v in want.items() if kws.get(k) != v}
        if not bad:
            rep.discharged("AR-SNAP", sp, ctor[0], "the re-sampled landscape carries the new grid and the input's degree")
        else:
            rep.refuted("AR-SNAP", sp, ctor[0], f"the re-sampled landscape is built with {{{', '.join(f'{k}={kws.get(k)}' for k in bad)}}} "
                                                f"(expected {bad})")
    else:
        rep.unmodelled("AR-SNAP", sp, sp.node, "construction of the re-sampled landscape not found")


def check_arm_consistency(project: Project, rep):
    """AR-SIGN (sibling-arm agreement, Engler et al.): in the depth-pairing loops of the merge helpers, a numeric parameter
    with a neutral default (e.g. sign=1) that transforms one operand's depth in one arm of an if/elif/else chain must be
    applied in every other arm that passes that operand's depth on — otherwise the operation is pointwise only where both
    operands have that depth (a missing depth counts as the zero function, so the other operand's depth must still be
    transformed)."""
    n_fn = 0
    for q in ("persim.landscapes.auxiliary.union_crit_pairs", "persim.landscapes.auxiliary.union_vals",
              "persim.landscapes.auxiliary.sum_slopes"):
        fi = project.functions.get(q)
        if fi is None:
            continue
        n_fn += 1
        f = fn_view(project, fi)
        a = f.args
        pos = a.posonlyargs + a.args
        defaults = dict(zip([x.arg for x in pos[len(pos) - len(a.defaults):]], a.defaults))
        defaults.update({x.arg: d for x, d in zip(a.kwonlyargs, a.kw_defaults) if d is not None})
        nums = {p_ for p_, d in defaults.items() if isinstance(d, (ast.Constant, ast.UnaryOp))
                and isinstance(getattr(d, "value", getattr(getattr(d, "operand", None), "value", None)), (int, float))
                and not isinstance(getattr(d, "value", None), bool)}
        if not nums:
            continue
        for lp in [n for n in ast.walk(f) if isinstance(n, ast.For)]:
            lvars = {x.id for x in ast.walk(lp.target) if isinstance(x, ast.Name)}
            # arms of the if-chains directly in the loop body
            for st in lp.body:
                if not isinstance(st, ast.If):
                    continue
                arms, cur = [], st
                while True:
                    arms.append(cur.body)
                    if len(cur.orelse) == 1 and isinstance(cur.orelse[0], ast.If):
                        cur = cur.orelse[0]
                    else:
                        if cur.orelse:
                            arms.append(cur.orelse)
                        break
                for p_ in sorted(nums):
                    scaled = set()
                    for arm in arms:
                        for stmt in arm:
                            parents = {}
                            for node in ast.walk(stmt):
                                for ch in ast.iter_child_nodes(node):
                                    parents[id(ch)] = node
                            for node in ast.walk(stmt):
                                if isinstance(node, ast.Name) and node.id == p_ and isinstance(node.ctx, ast.Load):
                                    up = node
                                    while id(up) in parents:
                                        up = parents[id(up)]
                                        hit = {x.id for x in ast.walk(up) if isinstance(x, ast.Name) and x.id in lvars}
                                        if hit:
                                            scaled |= hit
                                            break
                    for v in sorted(scaled):
                        for arm in arms:
                            uses_v = any(isinstance(x, ast.Name) and x.id == v and isinstance(x.ctx, ast.Load)
                                         for stmt in arm for x in ast.walk(stmt))
                            uses_p = any(isinstance(x, ast.Name) and x.id == p_ for stmt in arm for x in ast.walk(stmt))
                            if uses_v and not uses_p:
                                rep.refuted("AR-SIGN", fi, arm[0],
                                            f"`{p_}` transforms the depth `{v}` where both operands have that depth, but the arm "
                                            f"`{ast.unparse(arm[0])[:70]}` passes `{v}` on untouched: with {p_} != {ast.unparse(defaults[p_])} "
                                            f"the result is not pointwise at depths only one operand has (e.g. A − B with B deeper "
                                            f"gives +B_k instead of −B_k there)",
                                            construct=f"{q}: arm without {p_}")
    if not any(o["rule"] == "AR-SIGN" for o in rep.obligations):
        rep.discharged("AR-SIGN", None, None, f"{n_fn} merge helpers: no parameter is applied to an operand's depth in one arm "
                                              f"of the depth pairing and omitted in another", nontrivial=False)


def check_lincomb(project: Project, rep):
    """AR-LC: a linear combination is Σ coeff·landscape through the landscape operators (so zero padding of missing
    depths and the mismatch guards apply), or, when it works on raw value arrays, aligns depths by zero padding"""
    fi = project.function("persim.landscapes.tools.lc_approx")
    f = fn_view(project, fi)
    locs = local_names(f)
    P_COEFFS = fi.params[1] if len(fi.params) > 1 else "coeffs"
    uses_values = [n for n in ast.walk(f) if isinstance(n, ast.Attribute) and n.attr == "values"]
    rets = [n for n in ast.walk(f) if isinstance(n, ast.Return) and n.value is not None]
    if not uses_values:
        ok = False
        for r in rets:
            v = expand_locals(f, r.value)
            # np.sum(np.array(coeffs) * np.array(pl))  /  sum(c * p for ...)
            if isinstance(v, ast.Call) and project.resolve(fi.module, v.func, locs) in ("numpy.sum", "builtins.sum") and v.args:
                prod = [x for x in ast.walk(v.args[0]) if isinstance(x, ast.BinOp) and isinstance(x.op, ast.Mult)]
                if prod and any(isinstance(x, ast.Name) and x.id == P_COEFFS for x in ast.walk(v.args[0])):
                    ok = True
                    # what is combined must be the landscapes RE-SAMPLED onto the common grid (the result of snap_pl), not the
                    # operands as they came: on different grids the operators refuse them, and a requested start / stop /
                    # num_steps would be ignored
                    P_LANDS = fi.params[0]
                    other = [side for b_ in prod for side in (b_.left, b_.right)
                             if not any(isinstance(x, ast.Name) and x.id == P_COEFFS for x in ast.walk(side))]
                    snaps = [c_ for c_ in ast.walk(f) if isinstance(c_, ast.Call)
                             and (project.resolve(fi.module, c_.func, locs) or "").endswith(".snap_pl")]
                    if other and snaps:
                        uses_snap = any(any(isinstance(x, ast.Call) and (project.resolve(fi.module, x.func, locs) or "").endswith(".snap_pl")
                                            for x in ast.walk(side)) for side in other)
                        raw = [side for side in other if any(isinstance(x, ast.Name) and x.id == P_LANDS for x in ast.walk(side))
                               and not any(isinstance(x, ast.Call) and (project.resolve(fi.module, x.func, locs) or "").endswith(".snap_pl")
                                           for x in ast.walk(side))]
                        if raw and not uses_snap:
                            rep.refuted("AR-LC", fi, r, f"the coefficients multiply `{ast.unparse(raw[0])[:50]}`, the landscapes as they were "
                                                        f"passed in; the landscapes re-sampled by snap_pl (line {snaps[0].lineno}) are computed "
                                                        f"and dropped: operands on different grids are refused, a requested grid is ignored",
                                        construct=f"{fi.qualname}: combination of un-snapped landscapes")
                            return
        if ok:
            rep.discharged("AR-LC", fi, rets[0], "linear combination = Σ coeff·landscape through the landscape operators (their zero "
                                                 "padding and guards apply)")
        else:
            rep.unmodelled("AR-LC", fi, f, "form of the linear combination not recognised")
        return
    bad = [n for n in ast.walk(f) if isinstance(n, ast.Call) and (
        project.resolve(fi.module, n.func, locs) in ("numpy.resize", "numpy.tile", "numpy.repeat")
        or (isinstance(n.func, ast.Attribute) and n.func.attr in ("resize", "repeat")))]
    if bad:
        rep.refuted("AR-LC", fi, bad[0],
                    f"`{ast.unparse(bad[0])[:80]}` brings a shallower landscape to the common depth by repeating its existing depths: "
                    f"a missing depth must count as the zero function (linear combinations of landscapes with different numbers "
                    f"of depths are wrong)")
        return
    pads = [n for n in ast.walk(f) if isinstance(n, ast.Call) and project.resolve(fi.module, n.func, locs) in ("numpy.pad", "numpy.zeros")]
    if pads:
        rep.discharged("AR-LC", fi, pads[0], "raw value arrays are aligned to a common depth with zeros")
    else:
        rep.unmodelled("AR-LC", fi, f, "linear combination works on raw value arrays; how depths are aligned was not recognised")


def check_call_styles(project: Project, rep):
    """AR-STYLE — the grid a caller asks the landscape tools for is honoured however it is spelled.  `average_approx`, `lc_approx`
    and `snap_pl` are executed with the grid given by keyword and by position (the documented order), with the tool each of
    them hands the work to observed instead of executed: the grid that reaches it must be the same in both spellings, and it
    must be the one asked for."""
    from ..core.absint import Config, Interp
    from ..core.values import ObjV, Sc, Seq, NoneV
    from ..core import sym as _sym
    T = "persim.landscapes.tools."
    AP_ = "persim.landscapes.approximate.PersLandscapeApprox"
    grid = {"start": Sc(_sym.Sym("g_start")), "stop": Sc(_sym.Sym("g_stop")), "num_steps": Sc(_sym.Sym("g_steps"))}

    def lands():
        return Seq([ObjV(AP_, {"start": Sc(_sym.Sym(f"s{k}")), "stop": Sc(_sym.Sym(f"t{k}")), "num_steps": Sc(_sym.Sym(f"n{k}")),
                               "hom_deg": Sc(_sym.ZERO), "values": Seq([], "list"), "dgms": Seq([], "list")}) for k in range(2)], "list")
    coeffs = Seq([Sc(_sym.Sym("c0")), Sc(_sym.Sym("c1"))], "list")
    plans = [(T + "average_approx", T + "lc_approx", lambda L: [L], {}),
             (T + "lc_approx", T + "snap_pl", lambda L: [L, coeffs], {})]
    for q, inner, lead, _ in plans:
        fi = project.functions.get(q)
        if fi is None or inner not in project.functions:
            continue
        seen = {}
        for style in ("keyword", "positional"):
            calls = []

            state = {}

            def stub(I_, bound, n_, calls=calls, state=state):
                calls.append(dict(bound))
                if len(calls) == 1:   # what happens after the hand-over is not this rule's business
                    state["um"] = [u for u in I_.unmodelled if not str(u["tag"]).startswith("prim:warnings")]
                    state["lossy"] = list(I_.lossy)
                return ObjV(AP_, {}, tag="result")
            I = Interp(project, Config(flags={"stub_func": {inner: stub}}))
            L = lands()
            pos = lead(L) + ([grid["start"], grid["stop"], grid["num_steps"]] if style == "positional" else [])
            kw = dict(grid) if style == "keyword" else {}
            try:
                I.call_function(fi, pos, kw, None)
            except Exception as ex:
                if not calls:
                    seen[style] = ("error", f"{type(ex).__name__}: {ex}"[:120])
                    continue
            if not calls:
                um = [u for u in I.unmodelled if not str(u["tag"]).startswith("prim:warnings")]
                seen[style] = ("inexact", "the work is not handed to " + inner.rsplit(".", 1)[1] + (f" ({um[0]['tag']})" if um else ""))
                continue
            um = state.get("um") or []
            if um or state.get("lossy"):
                seen[style] = ("inexact", str(um[0]["tag"] if um else state["lossy"][0]["why"])[:120])
                continue
            calls = calls[:1]
            if len(calls) != 1:
                seen[style] = ("inexact", f"{len(calls)} calls of {inner.rsplit('.', 1)[1]} observed")
                continue
            got = tuple(_sym.show(calls[0][k].e) if isinstance(calls[0].get(k), Sc) and calls[0][k].e is not None
                        else ("None" if isinstance(calls[0].get(k), NoneV) or calls[0].get(k) is None else "?")
                        for k in ("start", "stop", "num_steps"))
            seen[style] = ("ok", got)
        want = tuple(_sym.show(grid[k].e) for k in ("start", "stop", "num_steps"))
        name = q.rsplit(".", 1)[1]
        for style, (st, val) in seen.items():
            if st == "ok" and val == want:
                rep.discharged("AR-STYLE", fi, fi.node, f"{name}: the grid given by {style} reaches {inner.rsplit('.', 1)[1]} as asked",
                               nontrivial=(style == "positional"))
            elif st == "ok" and "?" not in val:
                rep.refuted("AR-STYLE", fi, fi.node,
                            f"{name}: a grid given by {style} as (start, stop, num_steps) reaches {inner.rsplit('.', 1)[1]} as {list(val)}: "
                            f"the result is not sampled on the grid that was asked for"
                            + (" (the keyword spelling is honoured)" if seen.get("keyword", ("", None))[1] == want and style != "keyword" else ""),
                            construct=f"{q}: grid passed by {style}")
            elif st == "error" and style == "positional":
                rep.discharged("AR-STYLE", fi, fi.node, f"{name}: the positional spelling is not accepted ({val}); nothing to compare",
                               nontrivial=False)
            else:
                rep.unmodelled("AR-STYLE", fi, fi.node, f"{name}: grid given by {style}: {val}")


def check_lazy_operands(project: Project, rep):
    """AR-LAZYREAD: an arithmetic operator of either landscape class reads the lazily computed data (whatever
    compute_landscape stores: self.values / self.critical_pairs / self.max_depth, and the other operand's) only behind a call
    that always computes it: a landscape built with compute=False is a legitimate operand (rule text: lazy_rule)"""
    from . import lazy_rule
    lazy_rule.positive_examples()
    ops = ("__add__", "__sub__", "__neg__", "__mul__", "__rmul__", "__truediv__")
    for cq in (lazy_rule.EXACT, lazy_rule.APPROX):
        lazy_rule.check_class(project, rep, cq, "AR-LAZYREAD", methods=ops, others_for=ops,
                              why=", so the operation raises (or combines empty data) instead of giving the pointwise result")


def run(project: Project, rep, tier: str):
    rep.explain(
        "C09 (clauses decided): AR-EFFECT / AR-OWN from the inter-procedural effect/ownership analysis over 22 methods and 12 "
        "functions: the only attribute writes on operands are the lazy cache {critical_pairs|values, max_depth} inside "
        "compute_landscape, and no in-place write reaches an operand's data. AR-LAZY: CFG dominance — those stores are "
        "reachable only through the negative edge of the 'already computed' test. AR-GUARD: mismatch guards precede the sum. "
        "AR-UNARY: negation / scalar product / quotient of both classes are executed symbolically on a landscape with generic "
        "critical points / values and compared with (t, −y), (t, c·y), (t, y/c); result keeps degree and grid; quotient by 0 "
        "raises. AR-PAD, AR-SNAP: site rules. AR-MERGE (bounded): the slope merge of two depths is followed for every ordering "
        "class of the breakpoints with up to 3 (thorough: 4) breakpoints per operand and compared with f_A + f_B at every "
        "breakpoint of the union. Declined: the merge for longer operands.")
    rep.assume("landscape operands are instances of the two landscape classes (duck-typed by the attributes they use)")
    check_effects(project, rep)
    check_lazy(project, rep)
    check_guards(project, rep)
    check_unary(project, rep)
    check_pad_snap(project, rep)
    check_lincomb(project, rep)
    check_arm_consistency(project, rep)
    from .merge import check_merge
    check_merge(project, rep, max_len=4 if tier == "thorough" else 3)
    check_lazy_operands(project, rep)
    check_call_styles(project, rep)
    # AR-DEFAULT: the grid a re-sampling is asked for — `None` means "derive it from the inputs"; a truth test would also
    # replace an explicit 0
    from .common import none_vs_truthiness
    bad, n_keys = none_vs_truthiness(project, "persim.landscapes.tools.")
    for (owner, name), none_sites, truthy_sites in bad:
        fi_, node_ = truthy_sites[0]
        rep.refuted("AR-DEFAULT", fi_, node_,
                    f"`{name}` uses None as 'not given' but is truth-tested (`{ast.unparse(node_)}`): a requested grid bound 0 is "
                    f"replaced by the tightest value of the inputs, so landscapes are re-sampled onto a grid other than the one "
                    f"requested", construct=f"{owner}: truth test of {name}")
    if not bad:
        rep.discharged("AR-DEFAULT", None, None, f"{n_keys} grid parameters of the landscape tools use None as the 'not given' "
                                                 f"marker; none is truth-tested", nontrivial=False)
    # AR-DTYPE: re-sampled / combined values are floating-point results (np.interp, scaled sums); a buffer that takes its
    # dtype from an operand's `values` truncates them when that operand was given integer values
    from . import dtype_rule
    fns = [fi_ for q_, fi_ in sorted(project.functions.items())
           if q_.startswith(("persim.landscapes.tools.", "persim.landscapes.approximate.", "persim.landscapes.auxiliary."))
           and isinstance(fi_.node, (ast.FunctionDef, ast.AsyncFunctionDef))]
    if fns:
        dtype_rule.run_on(project, rep, "AR-DTYPE", fns)
    # AR-RETVAL: an operator that takes the operand's data from the *return value* of compute_landscape() gets None when the
    # operand was built with compute=False and is computed by that very call (rules/retval_rule.py)
    from . import retval_rule
    from .oneshot import reachable_functions
    ops = [q_ for q_, fi_ in project.functions.items()
           if q_.startswith(("persim.landscapes.exact.", "persim.landscapes.approximate.", "persim.landscapes.tools.",
                             "persim.landscapes.auxiliary.", "persim.landscapes.base."))
           and (fi_.name in ("__add__", "__sub__", "__neg__", "__mul__", "__rmul__", "__truediv__") or fi_.cls is None)]
    chain = [fi_ for fi_ in reachable_functions(project, ops, limit=120) if fi_.name != "compute_landscape_by_depth"]
    rv = retval_rule.analyse(project, chain)
    for h in rv:
        rep.refuted("AR-RETVAL", h["fi"], h["node"], h["why"] + ": the operation fails on a lazily built operand and succeeds once "
                    "it has been computed", construct=f"{h['fi'].qualname}: {ast.unparse(h['node'])[:60]}")
    if not rv:
        rep.discharged("AR-RETVAL", None, None, f"{len(chain)} operator / tool functions: none uses the value of a call that can "
                                                f"return nothing", nontrivial=False)
    rep.floor("AR-STYLE", 2)
    for rn, n in (("AR-EFFECT", 30), ("AR-OWN", 30), ("AR-LAZY", 4), ("AR-LAZYREAD", 12), ("AR-GUARD", 9), ("AR-UNARY", 11), ("AR-PAD", 4), ("AR-SNAP", 2), ("AR-LC", 1), ("AR-MERGE", 1), ("AR-DTYPE", 1)):
        rep.floor(rn, n)
    for t in ("numpy.pad", "numpy.interp", "itertools.zip_longest"):
        rep.trust(t)
