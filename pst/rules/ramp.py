"""GL-RAMP — the per-bar sampling of the approximate landscape, derived from the code and compared with the tent function.

`PersLandscapeApprox.compute_landscape` is evaluated by the symbolic interpreter on a generic diagram P with symbolic
start/stop/num_steps. Every `buckets[position].append(height)` inside the per-bar loop is recorded with its position and
height expressions, the loops it sits in (their index variable and trip count) and the conditions it is under. Loop
counters (`j += 1`) are replaced by their closed form init + step·(trip number) (induction-variable substitution).
With NB(r), ND(r) the nearest grid nodes of the birth and death of bar r (built here from the statement, not taken from
the code), the derived site expressions must satisfy, for every bar r:

  (sound)    every appended (position k, height h) has NB < k < ND and h = step · min(k − NB, ND − k);
  (complete) the sites append ND − NB − 1 samples in total (0 if ND ≤ NB + 1) at pairwise different positions.

Together: each node strictly between the snapped end-points receives exactly the tent value of the bar, and nothing else —
the part of "within half a step of the true landscape" that is the code's own doing (the other half is the snapping,
GL-SNAP). The two conditions are closed formulas over (P, start, stop, num_steps, r); they are decided by identity
testing of the derived expressions on random small grids and diagrams (ties and all parities of ND − NB occur).
"""
from __future__ import annotations

import math
import random

from ..core import sym, symeval
from ..core.absint import Config, Interp
from ..core.loader import AnalysisError, Project
from ..core.values import Arr, ObjV, Sc, fix, fresh
from .distances import dgm_input

AP = "persim.landscapes.approximate.PersLandscapeApprox"


def run_compute(project: Project):
    q = f"{AP}.compute_landscape"
    I = Interp(project, Config(nonempty={("rows", "P")}, finite_inputs={"P"}))
    self_ = ObjV(AP, {"dgms": dgm_input("P"), "start": Sc(sym.Sym("start")), "stop": Sc(sym.Sym("stop")),
                      "num_steps": Sc(sym.Sym("num_steps")), "hom_deg": Sc(sym.Num(0)),
                      "values": Arr([(fix(0), fresh())], sym.Opq("empty", ()), "nd"), "max_depth": Sc(sym.ZERO)})
    fi = project.function(q)
    args = {"self": self_}
    for p in fi.params[1:]:
        args[p] = Sc(sym.FALSE)
    I.run(q, args)
    return fi, I, self_


def _closed_form(e, loops):
    """replace 'value of a counter at the start of an iteration' placeholders by init + increment · trip number"""
    out = e
    for _ in range(4):
        phs = [x for x in sym.walk(out) if x[0] == "opq" and x[1] == "carry"]
        if not phs:
            return out, None
        changed = False
        for ph in phs:
            rec = None
            for lp in loops:
                for name, c in lp["carried"].items():
                    if c.get("placeholder") == ph:
                        rec = (lp, name, c)
            if rec is None:
                return None, f"counter placeholder {sym.show(ph)[:60]} belongs to no enclosing loop"
            lp, name, c = rec
            if c.get("kind") != "fold" or lp["ivar"] is None or not isinstance(c.get("init"), Sc) or not isinstance(c.get("update"), Sc):
                return None, f"`{name}` is not a plain counter of its loop ({c.get('kind')})"
            inc = sym.sub(c["update"].e, ph)
            if ph in set(sym.walk(inc)) or lp["ivar"] in sym.free_ivars(inc):
                return None, f"`{name}` is not advanced by a loop-invariant amount"
            out = sym.subst(out, {ph: sym.add(c["init"].e, sym.mul(inc, sym.IV(lp["ivar"])))})
            changed = True
        if not changed:
            break
    return out, None


def _nearest_node(r, col):
    k = "$k"
    g = sym.add(sym.Sym("start"), sym.mul(sym.IV(k), sym.div(sym.sub(sym.Sym("stop"), sym.Sym("start")),
                                                             sym.sub(sym.Sym("num_steps"), sym.ONE))))
    return sym.Red("argmin", k, ("range", sym.Sym("num_steps")), sym.fn("abs", sym.sub(sym.In("P", ((r, 0), col)), g)))


_RUNS = {}


def _cached_run(project):
    if id(project) not in _RUNS:
        _RUNS.clear()
        _RUNS[id(project)] = run_compute(project)
    return _RUNS[id(project)]


def check_pack(project: Project, rep):
    """GL-PACK — row k of `values` holds, over every node, the (k+1)-st largest sample of that node and 0 where the node has
    fewer samples; the number of rows is the largest number of samples on a node. Read off the interpreter's events: the
    per-node lists are put in descending order at every node, the array starts as zeros of shape (max count, num_steps),
    and cell (k, node) receives item k of the node's list for exactly the k below the list's length."""
    from ..core.values import bucket_root, is_bucket_family
    try:
        fi, I, self_ = _cached_run(project)
    except AnalysisError as ex:
        cl = project.function(f"{AP}.compute_landscape")
        rep.unmodelled("GL-PACK", cl, cl.node, f"compute_landscape could not be evaluated: {ex}"[:200])
        return
    appends = [ev for ev in I.log if ev["kind"] == "bucket-append"]
    if not appends:
        rep.unmodelled("GL-PACK", fi, fi.node, "no per-node lists of samples found")
        return
    root = bucket_root(appends[0]["base"])
    ns = sym.Sym("num_steps")
    stores = []
    for ev in I.log:
        if ev["kind"] != "store" or not isinstance(ev["base"], Arr) or is_bucket_family(ev["base"]):
            continue
        v = ev["value"]
        items = [x for x in sym.walk(v.e)] if isinstance(v, Sc) and v.e is not None else []
        if any(x[0] == "opq" and x[1].startswith("bucket-item") for x in items) or (isinstance(v, ObjV) and v.tag == "bucket"):
            stores.append(ev)
    by_node = {}
    for ev in stores:
        by_node[id(ev["node"])] = ev
    stores = list(by_node.values())
    if len(stores) != 1:
        rep.unmodelled("GL-PACK", fi, fi.node, f"expected one place where the per-node samples are written into the value array, "
                                               f"found {len(stores)}")
        return
    ev = stores[0]
    L = ev["base"]
    idx = ev["idx"]
    v = ev["value"]
    loops = ev["loops"]
    if L.ndim != 2 or len(idx) != 2:
        rep.unmodelled("GL-PACK", fi, ev["node"], "the value array is not written as a 2-d array [depth, node]")
        return
    # --- shape: (max count, num_steps)
    lens = {x for a in L.axes for x in sym.walk(a[0].size) if x[0] == "opq" and x[1] == "bucket-len"}
    d0, d1 = L.axes[0][0].size, L.axes[1][0].size
    kk = "$n"
    want_depth = sym.Red("max", kk, ("range", ns), sym.Opq("bucket-len", (sym.IV(kk),), root.uid or id(root)))
    def _same_depth(e):
        if e[0] != "red" or e[1] != "max":
            return False
        body = sym.subst_ivar(e[4], e[2], (kk, 0))
        return body == want_depth[4] and e[3] == want_depth[3]
    if _same_depth(d0) and sym.equal(d1, ns):
        rep.discharged("GL-PACK", fi, ev["node"], "the value array has one row per rank up to the largest number of samples on a "
                                                  "node, and one column per grid node")
    elif _same_depth(d1) and sym.equal(d0, ns):
        rep.refuted("GL-PACK", fi, ev["node"], "the value array is laid out (node × depth) instead of (depth × node)")
        return
    else:
        # more rows than needed would only add all-zero depths (harmless for the statement); fewer would not hold the samples
        rep.unmodelled("GL-PACK", fi, ev["node"], f"the value array has shape ({sym.show(d0)[:80]}, {sym.show(d1)[:80]}); whether "
                                                  f"that many rows hold every node's samples is not decided")
        return
    # --- what is written where
    def scalar_index(it):
        return it[1] if it[0] == "expr" else sym.Num(it[1]) if it[0] == "int" else None
    node_e = scalar_index(idx[1])
    if node_e is None:
        rep.unmodelled("GL-PACK", fi, ev["node"], "the column written is not a single node")
        return
    node_loop = [lp for lp in loops if lp["ivar"] is not None and sym.IV(lp["ivar"]) == node_e]
    if not node_loop or not node_loop[0]["space"].same_size(root.axes[0][0]) or not sym.equal(node_loop[0]["space"].size, ns):
        rep.refuted("GL-PACK", fi, ev["node"], "the packing loop does not visit every grid node once")
        return
    if isinstance(v, Sc):
        its = [x for x in sym.walk(v.e) if x[0] == "opq" and x[1].startswith("bucket-item")]
        if v.e not in its:
            rep.refuted("GL-PACK", fi, ev["node"], f"the value written is {sym.show(v.e)[:100]}, not the sample itself")
            return
        item = v.e
        order = item[1].split(":", 1)[1]
        src_node, rank = item[2]
        k_e = scalar_index(idx[0])
        rank_loop = [lp for lp in loops if lp["ivar"] is not None and k_e is not None and sym.IV(lp["ivar"]) == k_e]
        covers = False
        if rank_loop:
            key = rank_loop[0]["space"].key
            covers = isinstance(key, tuple) and key[0] == "range" and isinstance(key[1], sym.Expr) \
                and key[1] == sym.Opq("bucket-len", (node_e,), root.uid or id(root))
        if src_node != node_e or rank != k_e:
            rep.refuted("GL-PACK", fi, ev["node"], f"cell [{sym.show(k_e)[:30] if k_e is not None else '?'}, {sym.show(node_e)[:30]}] "
                                                   f"receives item {sym.show(rank)[:30]} of node {sym.show(src_node)[:30]}'s list")
            return
        if not covers:
            rep.refuted("GL-PACK", fi, ev["node"], "the ranks written for a node are not exactly 0 … (number of samples on the "
                                                   "node) − 1: samples are dropped or cells are read past the end of the list")
            return
    elif isinstance(v, ObjV) and v.tag == "bucket":
        order = str(v.attrs.get("order"))
        it0 = idx[0]
        ok_slice = it0[0] == "slice" and (it0[1] is None or it0[1] == sym.ZERO) and it0[3] is None \
            and it0[2] == sym.Opq("bucket-len", (node_e,), root.uid or id(root))
        if v.attrs["index"] != node_e or v.attrs["root"] is not root:
            rep.refuted("GL-PACK", fi, ev["node"], "a node's column receives another node's samples")
            return
        if not ok_slice:
            rep.refuted("GL-PACK", fi, ev["node"], "the rows written for a node are not exactly the first (number of samples on "
                                                   "the node) rows")
            return
    else:
        rep.unmodelled("GL-PACK", fi, ev["node"], "value written into the array not recognised")
        return
    if order == "desc":
        rep.discharged("GL-PACK", fi, ev["node"], "cell (k, node) receives the (k+1)-st largest sample of the node for every k below "
                                                  "the node's sample count; the per-node lists were sorted in descending order at "
                                                  "every node")
    else:
        rep.refuted("GL-PACK", fi, ev["node"],
                    f"the per-node samples are in {'ascending' if order == 'asc' else 'insertion'} order when they are written into "
                    f"the rows: row k is not the (k+1)-st largest value over each node (λ1 would not be the upper envelope)",
                    construct=f"{AP}.compute_landscape: order of per-node samples")
        return
    # --- initial contents and the attribute
    final = self_.attrs.get("values")
    from ..core.values import Alt
    cands = [x for x in (final.vals if isinstance(final, Alt) else [final]) if isinstance(x, Arr) and x.ndim == 2]
    if len(cands) != 1 or cands[0].uid != L.uid:
        rep.unmodelled("GL-PACK", fi, fi.node, "`values` is not (only) the packed array")
        return
    e = cands[0].elem
    alts = set(e[1]) if e[0] == "choice" else {e}
    rest = {a for a in alts if not (a[0] == "opq" and a[1].startswith("bucket-item"))}
    if rest == {sym.ZERO}:
        rep.discharged("GL-PACK", fi, fi.node, "cells that receive no sample keep the initial 0; `values` is the packed array")
    else:
        rep.refuted("GL-PACK", fi, fi.node, f"cells without a sample hold {[sym.show(a)[:40] for a in rest]} instead of 0")


def check_ramp(project: Project, rep):
    try:
        fi, I, self_ = _cached_run(project)
    except AnalysisError as ex:
        cl = project.function(f"{AP}.compute_landscape")
        rep.unmodelled("GL-RAMP", cl, cl.node, f"compute_landscape could not be evaluated: {ex}"[:200])
        return "unmodelled"
    for ev in I.log:
        if ev["kind"] == "zip-misaligned":
            rep.refuted("GL-RAMP", fi, ev["node"],
                        "the per-bar loop zips sequences that went through different row selections (one was filtered by a mask, "
                        "another was not): they are paired by position, so a bar's nodes are combined with another bar's values and "
                        "its ramps get the wrong length", construct=f"{AP}.compute_landscape: zip over differently selected rows")
            return "refuted"
    evs = [ev for ev in I.log if ev["kind"] == "bucket-append"]
    # one record per append site
    sites = {}
    for ev in evs:
        sites[id(ev["node"])] = ev
    sites = list(sites.values())
    if not sites:
        rep.unmodelled("GL-RAMP", fi, fi.node, "no per-node list receives samples inside a per-bar loop (the landscape is "
                                               "sampled in a way this rule does not model)")
        return "unmodelled"
    from ..core.values import bucket_root as _root
    bases = {id(_root(ev["base"])) for ev in sites}
    if len(bases) != 1:
        rep.unmodelled("GL-RAMP", fi, fi.node, "samples are appended to more than one family of per-node lists")
        return "unmodelled"
    base = sites[0]["base"]
    if not sym.equal(base.axes[0][0].size, sym.Sym("num_steps")):
        rep.refuted("GL-RAMP", fi, sites[0]["node"], f"there are {sym.show(base.axes[0][0].size)[:60]} per-node lists, not one per "
                                                      f"grid node (num_steps)")
        return "refuted"
    step = sym.div(sym.sub(sym.Sym("stop"), sym.Sym("start")), sym.sub(sym.Sym("num_steps"), sym.ONE))
    recs = []
    r = None
    for ev in sites:
        loops = [lp for lp in ev["loops"] if lp["fi"] is ev["fi"] or True]
        if len(loops) < 1 or loops[0]["ivar"] is None or loops[0]["space"] is None:
            rep.unmodelled("GL-RAMP", fi, ev["node"], "append site is not inside a loop over the bars")
            return "unmodelled"
        bar = loops[0]
        key = bar["space"].key
        mask = sym.TRUE
        while isinstance(key, tuple) and key and key[0] == "sub":
            m = key[2]
            for v in sorted(sym.free_ivars(m) - {bar["ivar"]}):
                m = sym.subst_ivar(m, v, (bar["ivar"], 0))
            mask = sym.And(mask, m)
            key = key[1]
        if key != ("rows", "P"):
            rep.unmodelled("GL-RAMP", fi, bar["node"], f"the outer loop runs over {key}, not over the bars of the diagram"[:160])
            return "unmodelled"
        inner = loops[1:]
        if any(lp["ivar"] is None or lp["space"] is None or lp["loop_kind"] != "for" for lp in inner):
            rep.unmodelled("GL-RAMP", fi, ev["node"], "an inner loop around the append is not a counted loop")
            return "unmodelled"
        if not isinstance(ev["value"], Sc) or ev["value"].e is None:
            rep.unmodelled("GL-RAMP", fi, ev["node"], "appended height is not a scalar expression")
            return "unmodelled"
        idx, why = _closed_form(ev["index"], loops)
        val, why2 = _closed_form(ev["value"].e, loops) if idx is not None else (None, None)
        if idx is None or val is None:
            rep.unmodelled("GL-RAMP", fi, ev["node"], why or why2)
            return "unmodelled"
        rel = list(ev["path"][len(bar["path"]):])
        cond = sym.And(mask, *rel) if rel else mask
        cond, why3 = _closed_form(cond, loops)
        if cond is None:
            rep.unmodelled("GL-RAMP", fi, ev["node"], why3)
            return "unmodelled"
        bad = [x[1] for e in (idx, val, cond) for x in sym.walk(e) if x[0] == "opq" and x[1].startswith("unmodelled")]
        if bad:
            rep.unmodelled("GL-RAMP", fi, ev["node"], f"append site not fully modelled ({bad[0]})")
            return "unmodelled"
        # rename the bar variable to one name
        bv = "$bar"
        ren = lambda e: sym.subst_ivar(e, bar["ivar"], (bv, 0))
        inner2 = []
        for lp in inner:
            k2 = lp["space"].key
            if not (isinstance(k2, tuple) and len(k2) == 2 and k2[0] == "range"):
                rep.unmodelled("GL-RAMP", fi, lp["node"], f"inner loop runs over {k2}, not over a range"[:160])
                return "unmodelled"
            inner2.append((lp["ivar"], ("range", ren(k2[1])) if isinstance(k2[1], sym.Expr) else k2))
        recs.append(dict(ev=ev, idx=ren(idx), val=ren(val), cond=ren(cond), inner=inner2))
    NB, ND = _nearest_node("$bar", 0), _nearest_node("$bar", 1)

    def forall(inner, body):
        for iv, key in reversed(inner):
            body = sym.Red("all", iv, key, body)
        return body

    def count(inner):
        n = sym.ONE
        for iv, key in inner:
            if iv in {v for _, k in inner for v in (sym.free_ivars(k[1]) if isinstance(k[1], sym.Expr) else ())}:
                return None
            n = sym.mul(n, sym.fn("max", key[1] if isinstance(key[1], sym.Expr) else sym.Num(key[1]), sym.ZERO))
        return n

    def primed(rc):
        """the same site with its inner loop variables renamed (a second, independent trip)"""
        idx, cond, inner = rc["idx"], rc["cond"], []
        for iv, key in rc["inner"]:
            iv2 = iv + "'"
            idx = sym.subst_ivar(idx, iv, (iv2, 0))
            cond = sym.subst_ivar(cond, iv, (iv2, 0))
            key2 = ("range", sym.subst_ivar(key[1], iv, (iv2, 0))) if isinstance(key[1], sym.Expr) else key
            inner = [(a, ("range", sym.subst_ivar(k_[1], iv, (iv2, 0))) if isinstance(k_[1], sym.Expr) else k_) for a, k_ in inner]
            inner.append((iv2, key2))
        return dict(idx=idx, cond=cond, inner=inner)

    obligations = []
    for k, rc in enumerate(recs):
        tent = sym.mul(step, sym.fn("min", sym.sub(rc["idx"], NB), sym.sub(ND, rc["idx"])))
        close = sym.Cmp("<=", sym.fn("abs", sym.sub(rc["val"], tent)),
                        sym.mul(sym.Num(1e-9), sym.add(sym.ONE, sym.fn("abs", tent))))
        inside = sym.And(sym.Cmp("<", NB, rc["idx"]), sym.Cmp("<", rc["idx"], ND))
        obligations.append(("sound-pos", rc, forall(rc["inner"], sym.Or(sym.Not(rc["cond"]), inside))))
        obligations.append(("sound-val", rc, forall(rc["inner"], sym.Or(sym.Not(rc["cond"]), sym.Not(inside), close))))
    total = sym.ZERO
    for rc in recs:
        body = sym.ITE(rc["cond"], sym.ONE, sym.ZERO)
        for iv, key in reversed(rc["inner"]):
            body = sym.Sum(iv, key, body)
        total = sym.add(total, body)
    want = sym.fn("max", sym.sub(sym.sub(ND, NB), sym.ONE), sym.ZERO)
    obligations.append(("count", None, sym.Cmp("==", total, want)))
    for a in range(len(recs)):
        for b in range(a, len(recs)):
            ra, rb = recs[a], primed(recs[b])
            differ = sym.Cmp("!=", ra["idx"], rb["idx"])
            if a == b:
                if not ra["inner"]:
                    continue
                same_trip = sym.And(*[sym.Cmp("==", sym.IV(iv), sym.IV(iv + "'")) for iv, _ in ra["inner"]])
                body = sym.Or(same_trip, sym.Not(sym.And(ra["cond"], rb["cond"])), differ)
                obligations.append(("injective", recs[a], forall(ra["inner"], forall(rb["inner"], body))))
            else:
                body = sym.Or(sym.Not(sym.And(ra["cond"], rb["cond"])), differ)
                obligations.append(("disjoint", recs[a], forall(ra["inner"], forall(rb["inner"], body))))
    verdict = _test(obligations)
    if verdict[0] == "ok":
        rep.discharged("GL-RAMP", fi, recs[0]["ev"]["node"],
                       f"{len(recs)} append site(s): every sample lands on a node strictly between the snapped end-points with "
                       f"height step·min(k−NB, ND−k); together they give each such node exactly one sample "
                       f"({verdict[1]} random grids/diagrams, all parities of ND−NB)",
                       derived="; ".join(f"[{sym.show(rc['idx'])[:90]}] <- {sym.show(rc['val'])[:60]}" for rc in recs)[:400])
        return "ok"
    elif verdict[0] == "fail":
        kind, rc, w = verdict[1:]
        node = rc["ev"]["node"] if rc is not None else recs[0]["ev"]["node"]
        text = {"sound-pos": "a sample is appended at a node that is not strictly between the snapped birth and death nodes",
                "sound-val": "a sample's height is not step·min(k − NB, ND − k), the tent value of the bar at that node",
                "count": "the number of samples appended for a bar is not ND − NB − 1: a node between the snapped end-points gets no "
                         "sample from the bar, or gets two",
                "disjoint": "two append sites put a sample of the same bar on the same node",
                "injective": "consecutive trips of the loop append to the same node"}[kind]
        rep.refuted("GL-RAMP", fi, node, f"{text}; witness {w}", construct=f"{AP}.compute_landscape: per-bar ramps",
                    failing_input=str(w))
        return "refuted"
    else:
        rep.unmodelled("GL-RAMP", fi, recs[0]["ev"]["node"], f"cannot evaluate the derived ramp expressions ({verdict[1]})")
        return "unmodelled"


def _test(obligations, trials=400, seed=11):
    rng = random.Random(seed)
    n_ok = 0
    for t in range(trials):
        pt = symeval.Point(rng, nrows=3)
        pt.eval_ranges = True
        ns = rng.randint(2, 9)
        a = rng.choice([-1, 1]) * rng.uniform(0.0, 3.0)
        width = rng.uniform(0.5, 4.0)
        pt.syms.update({"num_steps": float(ns), "start": a, "stop": a + width})
        h = width / (ns - 1)
        mode = t % 3

        def inp(pt_, name, idx, a=a, width=width, h=h, mode=mode, ns=ns):
            if name != "P":
                return None
            row, col = idx
            if col == 0:
                if mode == 0:   # on the grid
                    return a + h * pt_.rng.randrange(ns)
                return a + pt_.rng.uniform(-0.2, 1.0) * width
            b = pt_.inp(name, (row, 0))
            if mode == 0:
                return b + h * pt_.rng.randrange(ns)
            return b + pt_.rng.uniform(0.0, 1.0) * (a + width - b + 0.3 * width) if pt_.rng.random() < 0.8 else b + pt_.rng.uniform(0, 1.5 * h)
        pt.input_fn = inp
        pt.ivs["$bar"] = rng.randrange(3)
        for kind, rc, e in obligations:
            try:
                v = symeval.ev(e, pt)
            except symeval.NotEvaluable as ex:
                return ("unknown", str(ex))
            if not v:
                w = {"num_steps": ns, "start": round(a, 6), "stop": round(a + width, 6),
                     "bar": [round(pt.inp("P", (pt.ivs["$bar"], 0)), 6), round(pt.inp("P", (pt.ivs["$bar"], 1)), 6)]}
                return ("fail", kind, rc, w)
        n_ok += 1
    return ("ok", n_ok)


def check_vectorize(project: Project, rep):
    """GL-VEC — `vectorize` (exact -> grid): the values handed to the approximate class are, for every depth d and node g,
    np.interp(start + g·(stop − start)/(num_steps − 1), abscissae of depth d's critical pairs, their ordinates) — linear
    interpolation of *that* depth's own breakpoints at the grid nodes, which reproduces the piecewise-linear function at
    every node — with start / stop / num_steps / hom_deg forwarded unchanged, and the defaults of start / stop taken from
    the smallest / largest abscissa of the first depth. Decided on the constructor call observed during a symbolic run."""
    from ..core.values import Seq, rows
    EX = "persim.landscapes.exact.PersLandscapeExact"
    q = "persim.landscapes.tools.vectorize"
    fi = project.functions.get(q)
    if fi is None:
        rep.unmodelled("GL-VEC", None, None, f"{q} not found")
        return
    rep.analysed(fi)

    def run(given: bool):
        def stub(I, bound, n):
            return ObjV(AP, dict(bound))
        I = Interp(project, Config(nonempty={("rows", "D"), ("rows", "K")}, finite_inputs={"cp"},
                                   flags={"stub_ctor": {AP: stub}}))
        d, k, c = fresh(), fresh(), fresh()
        cp = Arr([(rows("D"), d), (rows("K"), k), (fix(2), c)], sym.In("cp", ((d, 0), (k, 0), (c, 0))), "list")
        l = ObjV(EX, {"critical_pairs": cp, "hom_deg": Sc(sym.Sym("hd")), "dgms": Seq([], "list")})
        kw = {"num_steps": Sc(sym.Sym("n"))}
        if given:
            kw.update(start=Sc(sym.Sym("start")), stop=Sc(sym.Sym("stop")))
        I.call_function(fi, [l], kw, None)
        return I

    try:
        I = run(True)
    except Exception as ex:
        rep.unmodelled("GL-VEC", fi, fi.node, f"symbolic execution failed: {type(ex).__name__}: {ex}"[:200])
        return
    cons = [ev for ev in I.log if ev["kind"] == "construct" and ev["cls"] == AP]
    if len(cons) != 1:
        rep.unmodelled("GL-VEC", fi, fi.node, f"expected one approximate landscape to be built, found {len(cons)}")
        return
    args = cons[0]["args"]
    node = cons[0]["node"]
    for name, want in (("start", sym.Sym("start")), ("stop", sym.Sym("stop")), ("num_steps", sym.Sym("n")), ("hom_deg", sym.Sym("hd"))):
        v = args.get(name)
        if isinstance(v, Sc) and v.e == want:
            rep.discharged("GL-VEC", fi, node, f"`{name}` reaches the approximate landscape unchanged")
        elif isinstance(v, Sc) and v.e is not None and not [x for x in sym.walk(v.e) if x[0] == "opq" and x[1].startswith("unmodelled")]:
            rep.refuted("GL-VEC", fi, node, f"the approximate landscape is built with {name} = {sym.show(v.e)[:80]} instead of the "
                                            f"requested {sym.show(want)}: its values are then read on another grid / degree")
        elif v is None:
            rep.refuted("GL-VEC", fi, node, f"`{name}` is not passed on: the approximate landscape falls back to its own default")
        else:
            rep.unmodelled("GL-VEC", fi, node, f"`{name}` passed to the constructor is not modelled")
    vals = args.get("values")
    if not isinstance(vals, Arr) or vals.ndim != 2:
        rep.unmodelled("GL-VEC", fi, node, f"values passed to the constructor are not a 2-d array: {vals!r}"[:200])
        return
    (dsp, div), (gsp, giv) = vals.axes
    e = vals.elem
    if any(x[0] == "opq" and x[1].startswith("unmodelled") for x in sym.walk(e)):
        rep.unmodelled("GL-VEC", fi, node, "values not fully modelled")
        return
    if dsp.key != ("rows", "D") or not sym.equal(gsp.size, sym.Sym("n")):
        rep.refuted("GL-VEC", fi, node, f"values have shape ({sym.show(dsp.size)[:40]}, {sym.show(gsp.size)[:40]}) instead of "
                                        f"(number of depths, num_steps)")
        return
    if not (e[0] == "opq" and e[1] == "interp" and len(e[2]) == 3):
        rep.unmodelled("GL-VEC", fi, node, f"a value is {sym.show(e)[:100]}, not a linear interpolation of the breakpoints")
        return
    x, xp, fp = e[2]
    grid = sym.add(sym.Sym("start"), sym.mul(sym.IV(giv), sym.div(sym.sub(sym.Sym("stop"), sym.Sym("start")),
                                                                    sym.sub(sym.Sym("n"), sym.ONE))))
    ok, w = symeval.equivalent(x, grid, trials=30)
    if ok is True:
        rep.discharged("GL-VEC", fi, node, "sampled at start + g·(stop − start)/(num_steps − 1), g = 0 … num_steps − 1")
    elif ok is False:
        rep.refuted("GL-VEC", fi, node, f"sampled at {sym.show(x)[:100]} instead of the nodes of linspace(start, stop, num_steps); "
                                        f"witness {w}")
    else:
        rep.unmodelled("GL-VEC", fi, node, f"cannot evaluate the sampling abscissa ({w})")

    def col(expr):
        if expr[0] == "in" and expr[1] == "cp" and len(expr[2]) == 3:
            dd, kk, cc = expr[2]
            return (dd[0] if isinstance(dd, tuple) else dd), (kk[0] if isinstance(kk, tuple) else kk), cc
        return None
    cx, cy = col(xp), col(fp)
    if cx is None or cy is None:
        rep.unmodelled("GL-VEC", fi, node, f"breakpoints are {sym.show(xp)[:60]} / {sym.show(fp)[:60]}, not coordinates of the "
                                           f"critical pairs")
        return
    if cx[0] != div or cy[0] != div:
        rep.refuted("GL-VEC", fi, node, "row d of the values is interpolated from another depth's critical pairs")
    elif (cx[2], cy[2]) == (0, 1) and isinstance(cx[1], str) and isinstance(cy[1], str):
        rep.discharged("GL-VEC", fi, node, "row d interpolates depth d's own critical pairs (abscissae → ordinates)")
    elif (cx[2], cy[2]) == (1, 0):
        rep.refuted("GL-VEC", fi, node, "abscissae and ordinates of the critical pairs are exchanged in np.interp")
    else:
        rep.refuted("GL-VEC", fi, node, f"np.interp is given columns {cx[2]} and {cy[2]} of the critical pairs, or a single pair")
    # defaults
    try:
        I2 = run(False)
    except Exception as ex:
        rep.unmodelled("GL-VEC", fi, fi.node, f"symbolic execution without start/stop failed: {type(ex).__name__}"[:200])
        return
    cons2 = [ev for ev in I2.log if ev["kind"] == "construct" and ev["cls"] == AP]
    if len(cons2) != 1:
        rep.unmodelled("GL-VEC", fi, fi.node, "constructor call not found when start/stop are defaulted")
        return
    kk = "$k"
    for name, op in (("start", "min"), ("stop", "max")):
        v = cons2[0]["args"].get(name)
        want = sym.Red(op, kk, ("rows", "K"), sym.In("cp", (0, (kk, 0), 0)))
        if not isinstance(v, Sc) or v.e is None:
            rep.unmodelled("GL-VEC", fi, cons2[0]["node"], f"default of `{name}` not modelled")
            continue
        got = v.e
        if got[0] == "red":
            got = sym.Red(got[1], kk, got[3], sym.subst_ivar(got[4], got[2], (kk, 0)))
        if got == want:
            rep.discharged("GL-VEC", fi, cons2[0]["node"], f"default `{name}` is the {op}imum abscissa of the first depth's "
                                                           f"critical pairs")
        elif got[0] == "opq" and got[1] == "unmodelled:arg-extreme-row":
            rep.refuted("GL-VEC", fi, cons2[0]["node"], f"default `{name}` is the abscissa of the critical pair whose *other* "
                                                        f"coordinate is extreme, not the {op}imum abscissa of the first depth")
        elif any(x[0] == "opq" and x[1].startswith("unmodelled") for x in sym.walk(got)):
            rep.unmodelled("GL-VEC", fi, cons2[0]["node"], f"default of `{name}` not fully modelled")
        else:
            rep.refuted("GL-VEC", fi, cons2[0]["node"], f"default `{name}` is {sym.show(got)[:100]}, not the {op}imum abscissa of "
                                                        f"the first depth (the support of the landscape)")
