"""C13 — Gaussian/uniform kernels are valid, accurate CDFs (images_kernels.py).

Decided: KN-GL (the Gauss–Legendre tables are the true nodes/weights, checked from the literals), KN-REGIME
(regime thresholds 0.3/0.75 → 3/6/10 points; series/expansion split at 0.925), KN-GUARD (every mask that guards an
exp term drops it only where it is negligible or would overflow), KN-AFF (Genz's affine sub-terms (4−hk)/8,
(12−hk)/16; 1−r² as (1−r)(1+r)), KN-UNITS (variance→standard-deviation discipline: every transcendental argument is
dimensionless), KN-NORM (norm_cdf = erfc(−x/√2)/2), KN-SBVN (product of marginals), KN-UNI (uniform box CDF),
KN-DISPATCH (product form iff zero covariance, parameters wired to the right keywords).
Declined: monotonicity, range [0,1], tail limits, 1e-7 agreement for all arguments (numeric).
"""
from __future__ import annotations

import ast
import math

from ..core import facets, sym, symeval
from ..core.absint import Config, Interp
from ..core.cfg import CFG
from ..core.loader import AnalysisError, Project
from ..core.values import Arr, Sc, Seq, fresh, rows
from .common import const_value, local_names
from .distances import unmodelled_in

MOD = "persim.images_kernels"
PUBLISHED_REGIMES = [(0.3, 3), (0.75, 6), (None, 10)]
SPLIT = 0.925
NEGLIGIBLE = -30.0  # exp(-30) < 1e-13


# ----------------------------------------------------------------------------- KN-GL

def _legendre(n, x):
    p0, p1 = 1.0, x
    for k in range(2, n + 1):
        p0, p1 = p1, ((2 * k - 1) * x * p1 - (k - 1) * p0) / k
    dp = n * (x * p1 - p0) / (x * x - 1.0)
    return p1, dp


def _literal_array(project, fi, node):
    if isinstance(node, ast.Call):
        t = project.resolve(fi.module, node.func, local_names(fi.node))
        if t in ("numpy.array", "numpy.asarray") and node.args:
            node = node.args[0]
    try:
        v = ast.literal_eval(node)
    except Exception:
        return None
    if isinstance(v, (list, tuple)) and all(isinstance(x, (int, float)) for x in v):
        return [float(x) for x in v]
    return None


def _float_seq(node):
    try:
        v = ast.literal_eval(node)
    except Exception:
        return None
    if isinstance(v, (list, tuple)) and len(v) >= 2 and all(isinstance(x, (int, float)) and not isinstance(x, bool) for x in v):
        return [float(x) for x in v]
    return None


def _table_records(project, fi, f):
    """quadrature rules kept as data: every tuple/list literal (in the function or in a module constant it reads) that
    holds exactly two equally long sequences of numbers — the record — optionally accompanied, in the same or in the
    enclosing tuple, by one scalar (the upper bound of |r| for the rule). Names of module constants inside such literals
    are looked through."""
    locs = local_names(f)
    glob = fi.module.globals

    def deref(n):
        k = 0
        while isinstance(n, ast.Name) and n.id not in locs and n.id in glob and k < 4:
            n = glob[n.id]
            k += 1
        return n

    def record_of(n):
        n = deref(n)
        if not isinstance(n, (ast.Tuple, ast.List)):
            return None
        elts = [deref(c) for c in n.elts]
        seqs = [(c, _float_seq(c)) for c in elts]
        seqs = [(c, v) for c, v in seqs if v is not None]
        def scalar_of(c):
            v = const_value(c)
            if v is not None:
                return v
            txt = ast.unparse(c).replace(" ", "")
            if txt in ("np.inf", "numpy.inf", "math.inf", "float('inf')", 'float("inf")', "inf"):
                return float("inf")  # 'no upper bound': the last rule
            return None
        scal = [scalar_of(c) for c in elts if scalar_of(c) is not None]
        if len(seqs) == 2 and len(seqs[0][1]) == len(seqs[1][1]) and len(elts) == 2 + len(scal) and len(scal) <= 1:
            thr_ = scal[0] if scal else None
            return (None if thr_ == float("inf") else thr_, seqs[0], seqs[1])
        return None

    roots = [f]
    for n in ast.walk(f):
        if isinstance(n, ast.Name) and isinstance(n.ctx, ast.Load) and n.id not in locs and n.id in glob:
            roots.append(glob[n.id])
    recs, seen = [], set()

    def add(rec, thr=None):
        key = (tuple(rec[1][1]), tuple(rec[2][1]))
        if key in seen:
            # the same table reached again (e.g. once through its name, once through the loop tuple): keep a threshold
            for k_, r_ in enumerate(recs):
                if (tuple(r_[1][1]), tuple(r_[2][1])) == key and r_[0] is None and (thr is not None or rec[0] is not None):
                    recs[k_] = (thr if thr is not None else rec[0], r_[1], r_[2])
            return
        seen.add(key)
        recs.append((thr if thr is not None else rec[0], rec[1], rec[2]))

    for root in roots:
        for n in ast.walk(root):
            if not isinstance(n, (ast.Tuple, ast.List)):
                continue
            r = record_of(n)
            if r is not None:
                add(r)
                continue
            # (bound, <record or name of one>)
            elts = [deref(c) for c in n.elts]
            scal = [const_value(c) for c in elts if const_value(c) is not None]
            subs = [record_of(c) for c in elts]
            subs = [x for x in subs if x is not None]
            if len(scal) == 1 and len(subs) == 1 and len(elts) == 2:
                add(subs[0], scal[0])
    return recs


def _verify_gl_table(lg, w, x):
    """None when (w, x) are the positive nodes / weights of the 2·lg-point Gauss–Legendre rule, else what is wrong"""
    if len(w) != lg or len(x) != lg:
        return f"{len(x)} nodes and {len(w)} weights are returned for a rule declared to have {lg} points"
    n = 2 * lg
    for i, (xi, wi) in enumerate(zip(x, w)):
        if not (0 < xi < 1):
            return f"node {i} = {xi} is outside (0,1)"
        p, dp = _legendre(n, xi)
        if abs(p) > 1e-12:
            return f"node {i} = {xi!r} is not a root of P_{n} (|P_{n}(x)| = {abs(p):.2e})"
        wt = 2.0 / ((1 - xi * xi) * dp * dp)
        if abs(wt - wi) > 1e-12:
            return f"weight {i} = {wi!r} is not 2/((1−x²)P′_{n}(x)²) = {wt!r}"
    if abs(sum(w) - 1.0) > 1e-12:
        return f"weights sum to {sum(w)!r}, not 1"
    if len(set(x)) != len(x):
        return "repeated node"
    return None


_REGIME_PROBES = (0.0, 0.29, 0.2999, 0.3, 0.31, 0.5, 0.74, 0.7499, 0.75, 0.76, 0.99)


def _gl_by_evaluation(project, fi):
    """gauss_legendre_quad evaluated at correlations on both sides of every published bound, both signs:
    {r: (lg, weights, nodes)} when every run is exact and concrete, else None"""
    from ..selftest.conformance.run import NotConcrete, to_python
    out = {}
    for r0 in _REGIME_PROBES:
        for r in ((r0, -r0) if r0 else (r0,)):
            I = Interp(project, Config())
            try:
                v = I.run(fi.qualname, {fi.params[0]: Sc(sym.Num(r))})
                if I.unmodelled or I.lossy or not isinstance(v, Seq) or len(v.items) != 3:
                    return None
                lg, w, x = (to_python(t) for t in v.items)
            except (NotConcrete, AnalysisError, RecursionError, TypeError):
                return None
            if not isinstance(lg, float) or not isinstance(w, list) or not isinstance(x, list) \
                    or not all(isinstance(t, float) for t in w + x):
                return None
            out[r] = (int(lg), w, x)
    return out


def check_gl(project: Project, rep):
    from .common import expand_locals, fn_view
    fi = project.function(f"{MOD}.gauss_legendre_quad")
    rep.analysed(fi)
    f = fn_view(project, fi)
    # first by evaluation — wherever the tables are kept (literals in the arms, a module-level table, a helper), what counts is
    # what the function hands back for a given correlation; the readers of the source shapes below are the fall-back
    ev = _gl_by_evaluation(project, fi) if fi.params else None
    if ev is not None:
        seen = {}
        wrong = []
        for r, (lg, w, x) in sorted(ev.items()):
            want_lg = 3 if abs(r) < 0.3 else 6 if abs(r) < 0.75 else 10
            if lg != want_lg:
                wrong.append((r, lg, want_lg))
            seen.setdefault(lg, (w, x))
        for lg, (w, x) in sorted(seen.items()):
            bad = _verify_gl_table(lg, w, x)
            if bad:
                rep.refuted("KN-GL", fi, f, f"{2 * lg}-point Gauss–Legendre table (lg={lg}): {bad}",
                            construct=f"{fi.qualname}: table lg={lg}")
            else:
                rep.discharged("KN-GL", fi, f, f"lg={lg}: all {lg} positive nodes are roots of P_{2 * lg} and the weights are "
                                               f"2/((1−x²)P′²) (residuals ≤ 1e-12), Σw = 1 (tables as returned by the function)")
        if wrong:
            r, lg, want_lg = wrong[0]
            rep.refuted("KN-REGIME", fi, f, f"for r = {r} the {lg}-point rule is returned, the published regimes (|r| < 0.3 → 3, "
                                            f"< 0.75 → 6, else 10) give {want_lg}" + ("; the regime is chosen by r, not |r|" if r < 0 and ev.get(-r, (None,))[0] == want_lg else ""),
                        construct=f"{fi.qualname}: regime at r={r}")
        else:
            rep.discharged("KN-REGIME", fi, f, f"regimes by |r|: <0.3 → 3 points, <0.75 → 6, else 10 (Genz) — the function evaluated at "
                                               f"{len(ev)} correlations on both sides of each bound, both signs")
            rep.discharged("KN-REGIME", fi, f, "negative correlations get the rule of their absolute value", nontrivial=False)
        return
    ret = [n for n in ast.walk(f) if isinstance(n, ast.Return)]
    branches = []
    if len(ret) == 1 and isinstance(ret[0].value, ast.Tuple) and len(ret[0].value.elts) == 3 \
            and all(isinstance(e, ast.Name) for e in ret[0].value.elts):
        lg_n, w_n, x_n = (e.id for e in ret[0].value.elts)

        def collect(stmts, cond):
            assigns = {}
            for st in stmts:
                if isinstance(st, ast.Assign) and isinstance(st.targets[0], ast.Name):
                    assigns[st.targets[0].id] = st.value
                elif isinstance(st, ast.If):
                    collect(st.body, st.test)
                    if st.orelse:
                        collect(st.orelse, None)
            if lg_n in assigns and w_n in assigns and x_n in assigns:
                branches.append((cond, assigns))

        collect(f.body, None)
    if len(branches) < 3 and len(ret) >= 2 and all(isinstance(r.value, ast.Tuple) and len(r.value.elts) == 3
                                                     and all(isinstance(e, ast.Name) for e in r.value.elts) for r in ret):
        # early-return form: every regime assigns its table and returns it
        branches = []

        def collect_ret(stmts, cond):
            assigns = {}
            for st in stmts:
                if isinstance(st, ast.Assign) and isinstance(st.targets[0], ast.Name):
                    assigns[st.targets[0].id] = st.value
                elif isinstance(st, ast.If):
                    collect_ret(st.body, st.test)
                    if st.orelse:
                        collect_ret(st.orelse, None)
                elif isinstance(st, ast.Return) and isinstance(st.value, ast.Tuple):
                    names = [e.id for e in st.value.elts]
                    if all(nm in assigns for nm in names):
                        branches.append((cond, dict(zip(("lg", "w", "x"), (assigns[nm] for nm in names)))))
        collect_ret(f.body, None)
        lg_n, w_n, x_n = "lg", "w", "x"
    records = []  # (threshold, declared size, weights, nodes, node)
    if len(branches) >= 3:
        for cond, assigns in branches:
            lg = const_value(assigns[lg_n])
            w = _literal_array(project, fi, assigns[w_n])
            x = _literal_array(project, fi, assigns[x_n])
            node = assigns[x_n]
            if lg is None or w is None or x is None:
                rep.unmodelled("KN-GL", fi, node, "quadrature table is not a literal")
                continue
            thr = None
            if cond is not None and isinstance(cond, ast.Compare) and len(cond.comparators) == 1:
                thr = const_value(cond.comparators[0])
            records.append((thr, int(lg), w, x, node))
    else:
        for thr, (n0, s0), (n1, s1) in _table_records(project, fi, f):
            # which of the two sequences holds the weights: the one that sums to 1
            if abs(sum(s0) - 1.0) <= abs(sum(s1) - 1.0):
                w, x, node = s0, s1, n1
            else:
                w, x, node = s1, s0, n0
            records.append((thr, len(x), w, x, node))
    if len(records) < 3:
        rep.unmodelled("KN-GL", fi, f, f"expected three regimes with literal tables, found {len(records)}")
        return
    table = []
    for thr, lg, w, x, node in records:
        table.append((thr, lg))
        if len(w) != lg or len(x) != lg:
            rep.refuted("KN-GL", fi, node, f"regime lg={lg}: {len(x)} nodes and {len(w)} weights are returned for a rule "
                                           f"declared to have {lg} points")
            continue
        n = 2 * lg
        bad = None
        for i, (xi, wi) in enumerate(zip(x, w)):
            if not (0 < xi < 1):
                bad = f"node {i} = {xi} is outside (0,1)"
                break
            p, dp = _legendre(n, xi)
            if abs(p) > 1e-12:
                bad = f"node {i} = {xi!r} is not a root of P_{n} (|P_{n}(x)| = {abs(p):.2e})"
                break
            wt = 2.0 / ((1 - xi * xi) * dp * dp)
            if abs(wt - wi) > 1e-12:
                bad = f"weight {i} = {wi!r} is not 2/((1−x²)P′_{n}(x)²) = {wt!r}"
                break
        if bad is None and abs(sum(w) - 1.0) > 1e-12:
            bad = f"weights sum to {sum(w)!r}, not 1"
        if bad is None and len(set(x)) != len(x):
            bad = "repeated node"
        if bad:
            rep.refuted("KN-GL", fi, node, f"{n}-point Gauss–Legendre table (lg={lg}): {bad}")
        else:
            rep.discharged("KN-GL", fi, node, f"lg={lg}: all {lg} positive nodes are roots of P_{n} and the weights are "
                                              f"2/((1−x²)P′²) (residuals ≤ 1e-12), Σw = 1")
    got = sorted([(t if t is not None else 9.0, l) for t, l in table])
    want = sorted([(t if t is not None else 9.0, l) for t, l in PUBLISHED_REGIMES])
    if sum(1 for t, _ in table if t is None) > 1:
        rep.unmodelled("KN-REGIME", fi, f, f"the |r| bounds of the quadrature rules could not be read ({got})")
    elif got == want:
        rep.discharged("KN-REGIME", fi, f, "regimes by |r|: <0.3 → 3 points, <0.75 → 6, else 10 (Genz)")
    else:
        rep.refuted("KN-REGIME", fi, f, f"regime table {got} differs from the published {want}",
                    construct=f"{fi.qualname}: regime table {got}")
    # the regime test must be on |r|
    rparam = fi.params[0] if fi.params else "r"
    n_abs = 0
    for c_ in ast.walk(f):
        if not (isinstance(c_, ast.Compare) and len(c_.ops) == 1 and isinstance(c_.ops[0], (ast.Lt, ast.LtE))):
            continue
        l = expand_locals(f, c_.left)
        if not any(isinstance(x_, ast.Name) and x_.id == rparam for x_ in ast.walk(l)):
            continue
        is_abs = isinstance(l, ast.Call) and (ast.unparse(l.func) in ("np.abs", "abs", "np.absolute", "numpy.abs", "np.fabs"))
        if is_abs:
            n_abs += 1
        elif isinstance(l, ast.Name):
            rep.refuted("KN-REGIME", fi, c_, "the regime is chosen by r, not |r|: negative correlations get the "
                                             "3-point rule")
    if n_abs:
        rep.discharged("KN-REGIME", fi, f, f"the rule is chosen by comparing |{rparam}| with the regime bounds", nontrivial=False)


# ----------------------------------------------------------------------------- KN-GUARD

def _affine_in(node, X, masks):
    """(a, b): node == a*X + b on the kept entries; None if not affine in X alone"""
    if isinstance(node, ast.Constant) and isinstance(node.value, (int, float)):
        return (0.0, float(node.value))
    if isinstance(node, ast.Name):
        if node.id == X:
            return (1.0, 0.0)
        if node.id in masks:
            return ("mask",)
        return None
    if isinstance(node, ast.Subscript) and isinstance(node.value, ast.Name) and node.value.id == X:
        return (1.0, 0.0)
    if isinstance(node, ast.UnaryOp) and isinstance(node.op, ast.USub):
        r = _affine_in(node.operand, X, masks)
        return None if (r is None or r == ("mask",)) else (-r[0], -r[1])
    if isinstance(node, ast.BinOp):
        l, r = _affine_in(node.left, X, masks), _affine_in(node.right, X, masks)
        return _combine(node.op, l, r)
    if isinstance(node, ast.Call):
        fn = ast.unparse(node.func)
        if fn in ("np.multiply", "numpy.multiply") and len(node.args) == 2:
            return _combine(ast.Mult(), _affine_in(node.args[0], X, masks), _affine_in(node.args[1], X, masks))
        if fn in ("np.divide", "numpy.divide") and len(node.args) == 2:
            return _combine(ast.Div(), _affine_in(node.args[0], X, masks), _affine_in(node.args[1], X, masks))
        if fn in ("np.negative",) and len(node.args) == 1:
            r = _affine_in(node.args[0], X, masks)
            return None if (r is None or r == ("mask",)) else (-r[0], -r[1])
    return None


def _combine(op, l, r):
    if l is None or r is None:
        return None
    if l == ("mask",) and r == ("mask",):
        return None
    if isinstance(op, ast.Mult):
        if l == ("mask",):
            return r
        if r == ("mask",):
            return l
        if l[0] == 0:
            return (l[1] * r[0], l[1] * r[1])
        if r[0] == 0:
            return (r[1] * l[0], r[1] * l[1])
        return None
    if l == ("mask",) or r == ("mask",):
        return None
    if isinstance(op, ast.Add):
        return (l[0] + r[0], l[1] + r[1])
    if isinstance(op, ast.Sub):
        return (l[0] - r[0], l[1] - r[1])
    if isinstance(op, ast.Div) and r[0] == 0 and r[1] != 0:
        return (l[0] / r[1], l[1] / r[1])
    return None


def check_guards(project: Project, rep):
    from .common import fn_view
    fi = project.function(f"{MOD}.bvn_cdf")
    rep.analysed(fi)
    f = fn_view(project, fi)
    cfg = CFG(f)
    cfg.reaching_definitions()
    locs = local_names(f)
    # mask definitions: name = (X op const)
    masks = {}
    for n in ast.walk(f):
        if isinstance(n, ast.Assign) and len(n.targets) == 1 and isinstance(n.targets[0], ast.Name) \
                and isinstance(n.value, ast.Compare) and len(n.value.ops) == 1 and isinstance(n.value.left, ast.Name):
            c = const_value(n.value.comparators[0])
            if c is not None:
                masks.setdefault(n.targets[0].id, []).append((n, n.value.left.id, n.value.ops[0], c))
    n_guard = 0
    for call in ast.walk(f):
        if not isinstance(call, ast.Call):
            continue
        t = project.resolve(fi.module, call.func, locs)
        if t != "numpy.exp" or not call.args:
            continue
        arg = call.args[0]
        used = {x.id for x in ast.walk(arg) if isinstance(x, ast.Name)}
        for mname in sorted(used & set(masks)):
            defs = cfg.defs_reaching(call, mname)
            for dn in defs:
                for (an, X, op, c) in masks[mname]:
                    if dn.ast is not an or X not in used:
                        continue
                    n_guard += 1
                    aff = _affine_in(arg, X, {mname})
                    if aff is None or aff == ("mask",) or aff[0] == 0:
                        rep.unmodelled("KN-GUARD", fi, call, f"exp argument is not affine in the guarded quantity `{X}`")
                        continue
                    a, b = aff
                    g_c = a * c + b
                    keep_above = isinstance(op, (ast.Gt, ast.GtE))
                    keep_below = isinstance(op, (ast.Lt, ast.LtE))
                    if not (keep_above or keep_below):
                        rep.unmodelled("KN-GUARD", fi, an, "guard is not an order comparison")
                        continue
                    # dropped set: X <= c (keep_above) or X >= c (keep_below)
                    dropped_sup = (a > 0) == keep_above  # on the dropped set, g is bounded above by g(c)
                    if dropped_sup:
                        ok = g_c <= NEGLIGIBLE
                        why = f"terms are dropped where exp(·) ≤ e^{g_c:g}"
                    else:
                        ok = g_c >= -NEGLIGIBLE
                        why = f"terms are dropped where exp(·) ≥ e^{g_c:g} (overflow side)"
                    if ok:
                        rep.discharged("KN-GUARD", fi, an,
                                       f"mask `{ast.unparse(an.value)}` guards exp({ast.unparse(arg)[:60]}): {why} — "
                                       f"negligible / overflow protection (Genz's cut-off)")
                    else:
                        rep.refuted("KN-GUARD", fi, an,
                                    f"mask `{ast.unparse(an.value)}` guards exp({ast.unparse(arg)[:60]}) but {why}: it "
                                    f"discards terms that are not negligible (the published cut-off is −100)",
                                    failing_input="bvn_cdf([0.3],[0.1],sigma_xy=0.93): off by 5e-2 with `asr > 100`")
    rep.floor("KN-GUARD", 3)
    # regime split
    splits = []
    from .common import expand_locals as _xl
    for n in ast.walk(f):
        if isinstance(n, ast.If) and isinstance(n.test, ast.Compare) and len(n.test.ops) == 1 and isinstance(n.test.ops[0], ast.Lt):
            left = _xl(f, n.test.left)   # `abs_r < 0.925` with abs_r = abs(r) computed once
            if isinstance(left, ast.Call) and ast.unparse(left.func) in ("abs", "np.abs", "numpy.abs", "np.fabs", "math.fabs"):
                c = const_value(n.test.comparators[0])
                if c is not None and c < 1:
                    splits.append((n, c))
    # KN-SIGNED: the series integrates over arcsin(r) with the *signed* correlation; |r| there evaluates the mirrored
    # distribution for every negative correlation below the split
    asins = [n for n in ast.walk(f) if isinstance(n, ast.Call) and ast.unparse(n.func) in ("np.arcsin", "numpy.arcsin", "math.asin")
             and n.args]
    for a_ in asins:
        arg = _xl(f, a_.args[0])
        if any(isinstance(x, ast.Call) and ast.unparse(x.func) in ("abs", "np.abs", "numpy.abs", "np.fabs", "math.fabs", "np.absolute")
               for x in ast.walk(arg)):
            rep.refuted("KN-SIGNED", fi, a_, f"the series is taken over arcsin({ast.unparse(arg)[:60]}): the sign of the correlation is "
                                             f"lost, so every covariance with −0.925 < r < 0 is evaluated as if r were +|r| (the "
                                             f"mirrored distribution: 1/3 instead of 1/6 at the mean for r = −0.5)",
                        construct=f"{fi.qualname}: arcsin of an absolute value")
        else:
            rep.discharged("KN-SIGNED", fi, a_, "the series is taken over arcsin of the signed correlation")
    if len(splits) == 1 and abs(splits[0][1] - SPLIT) < 1e-15:
        rep.discharged("KN-REGIME", fi, splits[0][0], "series for |r| < 0.925, tail expansion otherwise (Genz)")
    elif splits:
        rep.refuted("KN-REGIME", fi, splits[0][0], f"series/expansion split at |r| < {splits[0][1]} instead of 0.925")
    else:
        rep.unmodelled("KN-REGIME", fi, f, "series/expansion split not found")


def def_deps_of(cfg, d, name):
    for nd in cfg.nodes:
        if nd.id == d:
            for nm, a in cfg.defs_of(nd):
                val = getattr(a, "value", None)
                if nm == name and val is not None:
                    return {x.id for x in ast.walk(val) if isinstance(x, ast.Name)}
    return set()


def check_stale(project: Project, rep):
    """KN-STALE: in bvn_cdf the sign of dk/hk is flipped for negative correlation; every quantity that enters the
    expansion afterwards must be computed from the flipped values. A name defined from hk/dk *before* the flip and used
    *after* it (where the flipped hk/dk are also live) is stale: part of the formula sees +hk, the rest −hk."""
    from .common import fn_view
    fi = project.function(f"{MOD}.bvn_cdf")
    f = fn_view(project, fi)
    cfg = CFG(f)
    rd = cfg.reaching_definitions()
    # the conditionally re-defined names: x = -x
    flips = {}
    for n in ast.walk(f):
        if isinstance(n, ast.Assign) and isinstance(n.targets[0], ast.Name) and isinstance(n.value, ast.UnaryOp) \
                and isinstance(n.value.op, ast.USub) and isinstance(n.value.operand, ast.Name) \
                and n.value.operand.id == n.targets[0].id:
            node = cfg.node_of(n)
            if node is not None:
                flips[n.targets[0].id] = node.id
    # the same reflection written without re-binding: v_s = -v if r < 0 else v  (or np.where(r < 0, -v, v))
    reflected = {}

    def _neg_of(e):
        return e.operand.id if isinstance(e, ast.UnaryOp) and isinstance(e.op, ast.USub) and isinstance(e.operand, ast.Name) else None

    for n in ast.walk(f):
        if not (isinstance(n, ast.Assign) and isinstance(n.targets[0], ast.Name)):
            continue
        v = n.value
        arms = None
        if isinstance(v, ast.IfExp):
            arms = (v.body, v.orelse)
        elif isinstance(v, ast.Call) and ast.unparse(v.func) in ("np.where", "numpy.where") and len(v.args) == 3:
            arms = (v.args[1], v.args[2])
        if arms is None:
            continue
        for a, b in (arms, arms[::-1]):
            src = _neg_of(a)
            if src and isinstance(b, ast.Name) and b.id == src and src != n.targets[0].id:
                node = cfg.node_of(n)
                if node is not None:
                    reflected[src] = (n.targets[0].id, node.id)
    if not flips and not reflected:
        rep.unmodelled("KN-STALE", fi, f, "sign flip of the standardised arguments for negative correlation not found")
        return
    n_refl = 0
    for src, (new, flip_node) in reflected.items():
        after = cfg.reachable_from(flip_node)
        for nd in cfg.nodes:
            a = nd.ast
            if a is None or nd.id == flip_node or nd.id not in after or nd.kind not in ("stmt", "return", "test"):
                continue
            exprs = [a.test] if nd.kind == "test" and hasattr(a, "test") else (
                [a.value] if hasattr(a, "value") and a.value is not None else [])
            for ex in exprs:
                for x in ast.walk(ex):
                    if not (isinstance(x, ast.Name) and isinstance(x.ctx, ast.Load)):
                        continue
                    n_refl += 1
                    stale_direct = x.id == src
                    stale_derived = False
                    if not stale_direct and x.id != new:
                        for d in rd[nd.id].get(x.id, ()):
                            if src in def_deps_of(cfg, d, x.id) and d not in after and d in rd[flip_node].get(x.id, ()):
                                stale_derived = True
                    if stale_direct or stale_derived:
                        rep.refuted("KN-STALE", fi, a,
                                    f"`{x.id}` {'is the un-reflected coordinate' if stale_direct else 'was computed from the un-reflected `' + src + '`'}"
                                    f" but is used after `{new}` (= −{src} for negative correlation) took its place: this term of "
                                    f"the expansion sees `{src}` while the others see `{new}` (wrong CDF for correlations in "
                                    f"(−1, −0.925])",
                                    construct=f"{fi.qualname}: stale {x.id} used after the reflection {new}",
                                    failing_input="gaussian kernel with correlation −0.93")
    if reflected and not flips:
        rep.discharged("KN-STALE", fi, f, f"{n_refl} uses after the reflected coordinate(s) "
                                          f"{sorted(v[0] for v in reflected.values())} were defined: none reads the un-reflected one")
        return
    # direct dependence of each definition on the flipped names (transitively through single assignments)
    def_deps = {}
    for nd in cfg.nodes:
        for name, a in cfg.defs_of(nd):
            val = getattr(a, "value", None)
            if val is None:
                continue
            used = {x.id for x in ast.walk(val) if isinstance(x, ast.Name)}
            def_deps[(nd.id, name)] = used
    n_checked = 0
    # names whose value can reach what the function returns (backward slice over assignments and stores): a stale quantity
    # that only feeds a trace / log / self-check line is no term of the expansion
    relevant = {x.id for r_ in ast.walk(f) if isinstance(r_, ast.Return) and r_.value is not None
                for x in ast.walk(r_.value) if isinstance(x, ast.Name)}
    grew = True
    while grew:
        grew = False
        for st_ in ast.walk(f):
            tg = st_.targets if isinstance(st_, ast.Assign) else [st_.target] if isinstance(st_, (ast.AugAssign, ast.AnnAssign)) else []
            bases = set()
            for t_ in tg:
                for x in ast.walk(t_):
                    if isinstance(x, ast.Name):
                        bases.add(x.id)
            if bases & relevant and getattr(st_, "value", None) is not None:
                new_ = {x.id for x in ast.walk(st_.value) if isinstance(x, ast.Name)} | bases
                if not new_ <= relevant:
                    relevant |= new_
                    grew = True
    for nd in cfg.nodes:
        a = nd.ast
        if a is None or nd.kind not in ("stmt", "return", "test"):
            continue
        exprs = [a.test] if nd.kind == "test" and hasattr(a, "test") else ([a.value] if hasattr(a, "value") and a.value is not None else [])
        if isinstance(a, ast.Expr) and isinstance(a.value, ast.Call):
            # a call made for its effect (a trace / log / self-check line): what it is handed is not a term of the expansion
            continue
        if isinstance(a, (ast.Assign, ast.AugAssign, ast.AnnAssign)):
            tg_ = a.targets if isinstance(a, ast.Assign) else [a.target]
            if not ({x.id for t_ in tg_ for x in ast.walk(t_) if isinstance(x, ast.Name)} & relevant):
                continue   # defines something that never reaches the result
        for ex in exprs:
            for x in ast.walk(ex):
                if not (isinstance(x, ast.Name) and isinstance(x.ctx, ast.Load)):
                    continue
                y = x.id
                for d in rd[nd.id].get(y, ()):  # definitions of y reaching this use
                    deps = def_deps.get((d, y), set())
                    for v, flip_node in flips.items():
                        if v == y or v not in deps:
                            continue
                        n_checked += 1
                        # which definitions of v did y's definition see, and which are live at this use?
                        seen = rd[d].get(v, set())
                        live = rd[nd.id].get(v, set())
                        if y in flips:
                            continue  # the quantity is flipped itself
                        # the definition of y must still be the live one WHEN the flip happens (inside a loop over blocks the
                        # flip of one round is reachable from everything of the round before, through re-definitions)
                        on_path = d in rd[flip_node].get(y, ()) and nd.id in cfg.reachable_from(flip_node)
                        if flip_node in live and flip_node not in seen and d != flip_node and on_path:
                            rep.refuted("KN-STALE", fi, a,
                                        f"`{y}` was computed from `{v}` before the sign flip `{v} = -{v}` for negative correlation but "
                                        f"is used after it: this term of the expansion sees the un-flipped `{v}` while the others see "
                                        f"the flipped one (wrong CDF for correlations in (−1, −0.925])",
                                        construct=f"{fi.qualname}: stale {y} (from {v}) used after the flip",
                                        failing_input="gaussian kernel with correlation −0.93: pixel error 1.2e-2")
    rep.discharged("KN-STALE", fi, f, f"{n_checked} uses of quantities derived from the flipped arguments: none is stale")


# ----------------------------------------------------------------------------- evaluator-based rules

def _S(n):
    return Sc(sym.Sym(n))


DEG = facets.DegDecl(inputs={"gx": 1, "gy": 1, "X": 1, "bg": 1, "pg": 1}, syms={"mx": 1, "my": 1, "sxx": 2, "syy": 2, "sxy": 2, "x": 1, "y": 1,
                                                         "sx": 2, "sy": 2, "w": 1, "h": 1, "m0": 1, "m1": 1, "s": 2, "s1": 2, "s2": 2})


def _in_scope(fi, names) -> bool:
    """the named functions, their private helpers (leading underscore) and functions nested in them"""
    return fi.name in names or (fi.name.startswith("_") and not fi.name.startswith("__")) or fi.parent is not None


def _units(rep, I, fi_names, rule="KN-UNITS"):
    n = 0
    for ev in I.log:
        if ev["kind"] not in ("transcendental", "compare") or not _in_scope(ev["fi"], fi_names):
            continue
        if ev["kind"] == "transcendental":
            v = ev["arg"]
            e = v.e if isinstance(v, Sc) else getattr(v, "elem", None)
            label = f"{ev['fn']}() argument"
            if e is not None:
                e = sym.fn(ev["fn"] if ev["fn"] in ("exp", "sin", "arcsin", "erfc", "log", "cos") else "exp", e)
        else:
            v = ev["result"]
            e = v.e if isinstance(v, Sc) else getattr(v, "elem", None)
            label = "comparison"
        if e is None or unmodelled_in(e):
            continue
        d = facets.degree(e, DEG)
        n += 1
        if facets.is_top(d):
            if d.reason.startswith("unmodelled"):
                continue
            if "are added/compared/joined" not in d.reason:
                # not a clash of two known dimensions (e.g. a symbolic exponent): nothing to say about units here
                continue
            if ev["kind"] == "compare" and e[0] == "cmp" and (e[3] == sym.ZERO or e[2] == sym.ZERO):
                continue  # comparing with zero is meaningful in every unit
            rep.refuted(rule, ev["fi"], ev["node"], f"{label}: with coordinates in length units and covariance entries in "
                                                    f"length², {d.reason} (a variance used where a standard deviation is "
                                                    f"needed, or vice versa)")
        else:
            rep.discharged(rule, ev["fi"], ev["node"], f"{label} is dimensionless")
    return n


def check_norm_uniform_sbvn(project: Project, rep):
    # norm_cdf
    fi = project.function(f"{MOD}.norm_cdf")
    rep.analysed(fi)
    I = Interp(project)
    r = I.run(fi.qualname, {fi.params[0]: _S("t")})
    spec = sym.scale(sym.fn("erfc", sym.scale(sym.Sym("t"), -1.0 / math.sqrt(2.0))), 0.5)
    _cmp(rep, "KN-NORM", fi, r, spec, "norm_cdf(t) = erfc(−t/√2)/2")
    # uniform
    fi = project.function(f"{MOD}.uniform")
    rep.analysed(fi)
    I = Interp(project)
    r = I.run(fi.qualname, {"x": _S("x"), "y": _S("y"), "mu": Seq([_S("m0"), _S("m1")]), "width": _S("w"), "height": _S("h")})
    x, y, m0, m1, w, h = (sym.Sym(n) for n in ("x", "y", "m0", "m1", "w", "h"))
    clip = lambda v, hi: sym.fn("min", sym.fn("max", v, sym.ZERO), hi)
    spec = sym.div(sym.mul(clip(sym.sub(x, sym.sub(m0, sym.scale(w, 0.5))), w), clip(sym.sub(y, sym.sub(m1, sym.scale(h, 0.5))), h)),
                   sym.mul(w, h))
    _cmp(rep, "KN-UNI", fi, r, spec, "uniform = clip(x−(μ0−w/2),0,w)·clip(y−(μ1−h/2),0,h)/(w·h)", pos={"w", "h"})
    # sbvn
    fi = project.function(f"{MOD}.sbvn_cdf")
    rep.analysed(fi)
    I = Interp(project)
    r = I.run(fi.qualname, {"x": _S("x"), "y": _S("y"), "mu_x": _S("mx"), "mu_y": _S("my"), "sigma_x": _S("sx"),
                            "sigma_y": _S("sy")})
    nc = lambda t: sym.scale(sym.fn("erfc", sym.scale(t, -1.0 / math.sqrt(2.0))), 0.5)
    spec = sym.mul(nc(sym.div(sym.sub(x, sym.Sym("mx")), sym.fn("sqrt", sym.Sym("sx")))),
                   nc(sym.div(sym.sub(y, sym.Sym("my")), sym.fn("sqrt", sym.Sym("sy")))))
    _cmp(rep, "KN-SBVN", fi, r, spec, "sbvn_cdf = Φ((x−μx)/√σx)·Φ((y−μy)/√σy) (σ are variances)", pos={"sx", "sy"})
    _units(rep, I, {"sbvn_cdf", "norm_cdf"})


def _cmp(rep, rule, fi, r, spec, what, pos=()):
    if not isinstance(r, Sc) or unmodelled_in(r.e):
        rep.unmodelled(rule, fi, fi.node, f"value not modelled: {r!r}"[:200])
        return
    ok, w = symeval.equivalent(r.e, spec, positive_syms=pos, trials=40)
    if ok is True:
        rep.discharged(rule, fi, fi.node, what, derived=sym.show(r.e)[:200])
    elif ok is False:
        rep.refuted(rule, fi, fi.node, f"computes {sym.show(r.e)[:200]} — not {what}; witness {w}",
                    construct=f"{fi.qualname}: formula", failing_input=str(w))
    else:
        rep.unmodelled(rule, fi, fi.node, f"cannot evaluate ({w})")


def check_bvn_terms(project: Project, rep):
    fi = project.function(f"{MOD}.bvn_cdf")
    I = Interp(project)
    i = fresh()
    xs = Arr([(rows("G"), i)], sym.In("gx", ((i, 0),)))
    ys = Arr([(rows("G"), i)], sym.In("gy", ((i, 0),)))
    I.run(fi.qualname, {"x": xs, "y": ys, "mu_x": _S("mx"), "mu_y": _S("my"), "sigma_xx": _S("sxx"), "sigma_yy": _S("syy"),
                        "sigma_xy": _S("sxy")})
    n = _units(rep, I, {"bvn_cdf"})
    # correlation and standardised arguments
    r_spec = sym.div(sym.Sym("sxy"), sym.fn("sqrt", sym.mul(sym.Sym("sxx"), sym.Sym("syy"))))
    got_r = False
    hk_vals = []
    aff = []
    for ev in I.log:
        if ev["kind"] != "assign" or not _in_scope(ev["fi"], {"bvn_cdf"}):
            continue
        v = ev["value"]
        e = v.e if isinstance(v, Sc) else getattr(v, "elem", None)
        if e is None or unmodelled_in(e):
            continue
        if isinstance(v, Sc) and not got_r and set(x[1] for x in sym.walk(e) if x[0] == "sym") == {"sxy", "sxx", "syy"}:
            ok, w = symeval.equivalent(e, r_spec, positive_syms={"sxx", "syy"})
            if ok is True:
                got_r = True
                rep.discharged("KN-AFF", fi, ev["node"], "correlation r = σxy/√(σxx·σyy)")
            elif ok is False and e[0] == "div":
                got_r = True
                rep.refuted("KN-AFF", fi, ev["node"], f"correlation is computed as {sym.show(e)} instead of σxy/√(σxx·σyy)")
        terms, c = sym.lin_parts(e)
        if len(terms) == 1 and c != 0:
            (t, k), = terms.items()
            if any(x[0] == "in" for x in sym.walk(t)) and t[0] in ("mul", "ite"):
                aff.append((ev, k, c))
    want = {(-1 / 8, 0.5), (-1 / 16, 0.75)}
    wantr = {(round(a, 12), round(b, 12)) for a, b in want}
    got = {(round(k, 12), round(c, 12)) for _, k, c in aff}
    for ev, k, c in aff:
        if (round(k, 12), round(c, 12)) in wantr:
            rep.discharged("KN-AFF", fi, ev["node"], f"affine sub-term {k:g}·hk {c:+g} is Genz's "
                                                     f"{'(4−hk)/8' if abs(c - 0.5) < 1e-12 else '(12−hk)/16'}")
    missing = wantr - got
    if missing:
        # a term of the published expansion is absent: another affine term in hk then stands in its place; when both
        # published terms are present, further affine expressions of the code are none of this rule's business
        # bare numerators (4−hk), (12−hk) divided in a later statement are not a wrong term
        near = [(ev, k, c) for ev, k, c in aff if (round(k, 12), round(c, 12)) not in wantr
                and (round(k, 12), round(c, 12)) not in {(-1.0, 4.0), (-1.0, 12.0)}]
        if near:
            ev, k, c = near[0]
            rep.refuted("KN-AFF", fi, ev["node"], f"affine sub-term {k:g}·hk {c:+g} is neither (4−hk)/8 nor (12−hk)/16 of the "
                                                  f"published expansion")
        else:
            rep.unmodelled("KN-AFF", fi, fi.node, "affine sub-terms of the tail expansion not found")
    if not got_r:
        rep.unmodelled("KN-AFF", fi, fi.node, "correlation not found")


def check_dispatch(project: Project, rep):
    """KN-DISPATCH, decided by executing `gaussian` symbolically on a generic mean (mx, my) and covariance
    [[sxx, sxy], [syx, syy]] while observing (not executing) the calls of the two closed forms: the parameter each value
    reaches, and the condition under which each form is selected."""
    from ..core.values import Seq, Unknown
    fi = project.function(f"{MOD}.gaussian")
    rep.analysed(fi)
    SB, BV = f"{MOD}.sbvn_cdf", f"{MOD}.bvn_cdf"
    seen = []

    def stub(name):
        def h(I, bound, n):
            seen.append((name, bound, n, list(I.path)))
            return Sc(sym.Opq(name, (), name))
        return h
    I = Interp(project, Config(finite_inputs={"x", "y"}, flags={"stub_func": {SB: stub("sbvn_cdf"), BV: stub("bvn_cdf")}}))
    S = lambda nme: Sc(sym.Sym(nme))
    args = {fi.params[0]: Sc(sym.Sym("x")), fi.params[1]: Sc(sym.Sym("y")),
            "mu": Seq([S("mx"), S("my")], "list"),
            "sigma": Seq([Seq([S("sxx"), S("sxy")], "list"), Seq([S("syx"), S("syy")], "list")], "list")}
    try:
        I.run(fi.qualname, args)
    except Exception as ex:
        rep.unmodelled("KN-DISPATCH", fi, fi.node, f"symbolic execution of gaussian failed: {type(ex).__name__}: {ex}"[:200])
        return
    names = {nme for nme, *_ in seen}
    if names != {"sbvn_cdf", "bvn_cdf"}:
        rep.unmodelled("KN-DISPATCH", fi, fi.node, f"expected a product-form call and a correlated-form call; reached {sorted(names)}")
        return
    want = {"sbvn_cdf": {"mu_x": ("mx",), "mu_y": ("my",), "sigma_x": ("sxx",), "sigma_y": ("syy",)},
            "bvn_cdf": {"mu_x": ("mx",), "mu_y": ("my",), "sigma_xx": ("sxx",), "sigma_yy": ("syy",), "sigma_xy": ("sxy", "syx")}}
    conds = {}
    for name, bound, node, path in seen:
        callee = project.function(f"{MOD}.{name}")
        bad, unk = [], []
        w = dict(want[name])
        w[callee.params[0]] = ("x",)
        w[callee.params[1]] = ("y",)
        for p_, ws in w.items():
            v = bound.get(p_)
            if isinstance(v, Sc) and v.e[0] == "sym" and v.e[1] in ws:
                continue
            if isinstance(v, Sc) and v.e[0] == "sym":
                bad.append(f"{p_}={v.e[1]} (should be {ws[0]})")
            elif v is None:
                bad.append(f"{p_} is not passed (should be {ws[0]})")
            else:
                unk.append(p_)
        if bad:
            rep.refuted("KN-DISPATCH", fi, node, f"{name} receives " + "; ".join(bad))
        elif unk:
            rep.unmodelled("KN-DISPATCH", fi, node, f"{name}: arguments {unk} not modelled")
        else:
            rep.discharged("KN-DISPATCH", fi, node, f"{name} receives (birth, pers) and the mean/variance entries on the right "
                                                    f"parameters")
        conds.setdefault(name, []).append(sym.And(*path) if path else sym.TRUE)
    # the product form is used iff the covariance entry is 0
    import random
    verdict = True
    try:
        for sxy in (0.0, 0.37, -1.2, 1e-9, -1e-12, 1e-300):
            pt = symeval.Point(random.Random(3))
            pt.syms.update({"sxy": sxy, "syx": sxy, "sxx": 1.3, "syy": 0.7, "mx": 0.2, "my": -0.4, "x": 0.1, "y": 0.9})
            prod = any(bool(symeval.ev(c, pt)) for c in conds["sbvn_cdf"])
            corr = any(bool(symeval.ev(c, pt)) for c in conds["bvn_cdf"])
            if prod != (sxy == 0.0) or corr != (sxy != 0.0):
                verdict = False
    except symeval.NotEvaluable as ex:
        verdict = None
    node = seen[0][2]
    if verdict is True:
        rep.discharged("KN-DISPATCH", fi, node, "product form is used iff the covariance entry is 0")
    elif verdict is False and I.lossy:
        rep.unmodelled("KN-DISPATCH", fi, fi.node, f"the dispatch could not be followed exactly ({I.lossy[0]['why']})")
    elif verdict is False:
        rep.refuted("KN-DISPATCH", fi, fi.node, "the product form is not selected exactly when the covariance entry is zero "
                                                f"(selected under {sym.show(sym.Or(*conds['sbvn_cdf']))[:120]})",
                    construct=f"{fi.qualname}: dispatch test")
    else:
        rep.unmodelled("KN-DISPATCH", fi, fi.node, "dispatch condition not evaluable")


def run(project: Project, rep, tier: str):
    rep.explain(
        "C13 (clauses decided, not the numeric accuracy): KN-GL validates the literal Gauss–Legendre tables from the "
        "source (roots of P_n, weight formula, Σw=1 to 1e-12). KN-REGIME compares the regime thresholds with Genz's. "
        "KN-GUARD: for every mask `X op c` that guards an exp term whose argument is affine in X (derived from the AST with "
        "reaching definitions binding each mask use to its definition), the dropped terms must be negligible (≤e^-30) or "
        "on the overflow side (≥e^30). KN-AFF/KN-UNITS: `bvn_cdf` is partially evaluated symbolically: the correlation, "
        "Genz's affine sub-terms, and the dimension of every transcendental argument (coordinates: length, covariance "
        "entries: length²). KN-NORM/KN-SBVN/KN-UNI: normal forms of the closed-form kernels. KN-DISPATCH: wiring of "
        "`gaussian`. Declined: monotonicity, range, tails, 1e-7 agreement.")
    rep.assume("positive variances, |correlation| < 1; the algorithm is Genz's bvnl / Drezner–Wesolowsky as cited in the "
               "docstring (its constants are the specification of the guards and regimes)")
    check_gl(project, rep)
    check_guards(project, rep)
    check_stale(project, rep)
    check_norm_uniform_sbvn(project, rep)
    check_bvn_terms(project, rep)
    check_dispatch(project, rep)
    # KN-PURE: a CDF is a function of its arguments — the kernels keep no shared mutable state (module-level objects,
    # tables handed out by a memoised helper and then edited in place): otherwise the second evaluation with the same
    # arguments differs from the first
    from .common import own_analysis
    oa = own_analysis(project)
    n_k = 0
    for q_, f_ in sorted(project.functions.items()):
        if f_.module.name != MOD or f_.parent is not None or not isinstance(f_.node, ast.FunctionDef):
            continue
        n_k += 1
        s_ = oa.summary(q_)
        leaks = [ev for ev in s_.events if ev.kind == "globalstore" or (
            ev.kind == "write" and not ev.origin.is_arg and str(ev.origin).startswith(("global:", "default:")))]
        own_leaks = [ev for ev in leaks if ev.func == q_]
        for ev in own_leaks[:1]:
            rep.refuted("KN-PURE", f_, ev.node,
                        f"{q_} modifies shared state in place ({ev.origin}, {ev.how}): the value returned for the same "
                        f"arguments changes from call to call", construct=f"{q_}: shared state {ev.origin}")
    if not any(o["rule"] == "KN-PURE" for o in rep.obligations):
        rep.discharged("KN-PURE", None, None, f"{n_k} kernel functions: no write to module-level or memoised objects")
    # KN-DTYPE: the kernels are evaluated on pixel coordinates and centres the caller may give as integers: an accumulator
    # typed by them must not receive the (fractional) terms of the expansions
    from . import dtype_rule as _dt
    _kfns = [fi_ for q_, fi_ in sorted(project.functions.items()) if q_.startswith(MOD + ".") and fi_.parent is None
             and isinstance(fi_.node, (ast.FunctionDef, ast.AsyncFunctionDef))]
    if _kfns:
        _dt.run_on(project, rep, "KN-DTYPE", _kfns)
    rep.floor("KN-DTYPE", 1)
    for rn, n in (("KN-PURE", 1), ("KN-GL", 3), ("KN-REGIME", 2), ("KN-AFF", 3), ("KN-UNITS", 6), ("KN-NORM", 1), ("KN-UNI", 1), ("KN-STALE", 1),
                  ("KN-SBVN", 1), ("KN-DISPATCH", 3)):
        rep.floor(rn, n)
    for t in ("scipy.special.erfc", "numpy.exp", "numpy.arcsin", "numpy.sqrt", "numpy.maximum", "numpy.minimum"):
        rep.trust(t)
