"""Symbolic evaluation of persim.images._transform under a chosen (weight, kernel, skew) configuration."""
from __future__ import annotations

import math
from typing import Optional

from ..core import sym
from ..core.absint import Config, Interp
from ..core.loader import Project
from ..core.values import Arr, DictV, FuncV, Sc, Seq, fresh, rows
from .distances import dgm_input

TR = "persim.images._transform"
KMOD = "persim.images_kernels"
WMOD = "persim.images_weights"


def grid(name, space):
    i = fresh()
    return Arr([(rows(space), i)], sym.In(name, ((i, 0),)))


def S(n):
    return sym.Sym(n)


def run_transform(project: Project, weight: str, kernel: str, skew: bool, sigma: str = "scalar"):
    """weight: 'persistence' | 'linear_ramp' | 'opaque'; kernel: 'gaussian' | 'uniform' | 'opaque';
    sigma (gaussian only): 'scalar' | 'iso-matrix' | 'diag'"""
    I = Interp(project, Config(nonempty={("rows", "X"), ("rows", "Bg"), ("rows", "Pg")}, finite_inputs={"X", "bg", "pg"}))
    res = Seq([Sc(sym.add(sym.Size(("rows", "Bg")), sym.Num(-1))), Sc(sym.add(sym.Size(("rows", "Pg")), sym.Num(-1)))], "tuple")
    if weight == "opaque":
        w, wp = FuncV("opaque", "W"), DictV({})
    elif weight == "persistence":
        w, wp = FuncV("repo", f"{WMOD}.persistence"), DictV({"n": Sc(S("n"))})
    else:
        w, wp = FuncV("repo", f"{WMOD}.linear_ramp"), DictV({"low": Sc(S("low")), "high": Sc(S("high")), "start": Sc(S("start")),
                                                              "end": Sc(S("end"))})
    if kernel == "opaque":
        k, kp = FuncV("opaque", "K"), DictV({})
    elif kernel == "uniform":
        k, kp = FuncV("repo", f"{KMOD}.uniform"), DictV({"width": Sc(S("kw")), "height": Sc(S("kh"))})
    else:
        k = FuncV("repo", f"{KMOD}.gaussian")
        if sigma == "scalar":
            kp = DictV({"sigma": Sc(S("s"))})
        elif sigma == "iso-matrix":
            z = Sc(sym.ZERO)
            kp = DictV({"sigma": Seq([Seq([Sc(S("s")), z]), Seq([z, Sc(S("s"))])])})
        else:
            z = Sc(sym.ZERO)
            kp = DictV({"sigma": Seq([Seq([Sc(S("s1")), z]), Seq([z, Sc(S("s2"))])])})
    fi = project.function(TR)
    r = I.run(TR, {"pers_dgm": dgm_input("X"), "skew": Sc(sym.Bool(skew)), "resolution": res, "weight": w, "weight_params": wp,
                   "kernel": k, "kernel_params": kp, "_bpnts": grid("bg", "Bg"), "_ppnts": grid("pg", "Pg")})
    return fi, I, r


def phi(t):
    return sym.scale(sym.fn("erfc", sym.scale(t, -1.0 / math.sqrt(2.0))), 0.5)


def kernel_spec(kernel, sigma, B, P, mb, mp):
    if kernel == "opaque":
        return sym.Opq("K", (B, P, mb, mp), None)
    if kernel == "uniform":
        clip = lambda v, hi: sym.fn("min", sym.fn("max", v, sym.ZERO), hi)
        return sym.div(sym.mul(clip(sym.sub(B, sym.sub(mb, sym.scale(S("kw"), 0.5))), S("kw")),
                               clip(sym.sub(P, sym.sub(mp, sym.scale(S("kh"), 0.5))), S("kh"))), sym.mul(S("kw"), S("kh")))
    s1, s2 = (S("s"), S("s")) if sigma in ("scalar", "iso-matrix") else (S("s1"), S("s2"))
    return sym.mul(phi(sym.div(sym.sub(B, mb), sym.fn("sqrt", s1))), phi(sym.div(sym.sub(P, mp), sym.fn("sqrt", s2))))


def weight_spec(weight, mb, mp):
    if weight == "opaque":
        return sym.Opq("W", (mb, mp), None)
    if weight == "persistence":
        return sym.power(mp, S("n"))
    ramp = sym.add(sym.div(sym.mul(sym.sub(mp, S("start")), sym.sub(S("high"), S("low"))), sym.sub(S("end"), S("start"))), S("low"))
    return sym.ITE(sym.Cmp("<", mp, S("start")), S("low"), sym.ITE(sym.Cmp(">", mp, S("end")), S("high"), ramp))


def pixel_spec(weight, kernel, skew, sigma, iv_b, iv_p):
    """Σ_rows weight(μ) · [K(B_{i+1},P_{j+1};μ) − K(B_i,P_{j+1};μ) − K(B_{i+1},P_j;μ) + K(B_i,P_j;μ)],  μ = (b, d−b) or (b, d)"""
    r = "$row"
    b = sym.In("X", ((r, 0), 0))
    d = sym.In("X", ((r, 0), 1))
    mb, mp = b, (sym.sub(d, b) if skew else d)
    Bk = lambda o: sym.In("bg", ((iv_b, o),))
    Pk = lambda o: sym.In("pg", ((iv_p, o),))
    K = lambda bo, po: kernel_spec(kernel, sigma, Bk(bo), Pk(po), mb, mp)
    mass = sym.add(sym.sub(sym.sub(K(1, 1), K(0, 1)), K(1, 0)), K(0, 0))
    return sym.Sum(r, ("rows", "X"), sym.mul(weight_spec(weight, mb, mp), mass))
