"""C04 — persistence image pixel = Σ weight × kernel mass of the pixel (images.py, images_kernels.py, images_weights.py).

Decided, for every built-in weight/kernel path and for uninterpreted (user) weights and kernels, for every
diagram size and grid: PI-PIXEL — the derived normal form of each pixel is
    Σ_points weight(μ) · [K(B_{i+1},P_{j+1}) − K(B_i,P_{j+1}) − K(B_{i+1},P_j) + K(B_i,P_j)]
with μ = (birth, death−birth) under skew, K the kernel CDF centred at μ, (B, P) the pixel boundaries on the
(birth, persistence) axes — i.e. inclusion–exclusion stencil signs and corners (PI-STENCIL), skew conversion
(PI-SKEW), weight i multiplies contribution i and is computed from (birth, persistence) in that order
(PI-WEIGHT), axis roles (PI-AXIS), variance→std in the isotropic fast path (PI-UNITS);
PI-FAST the fast path is taken exactly for equal variances and zero covariance; PI-REG the name registries agree.
Declined: the values of the CDFs themselves (C13 clauses), numerical-integration accuracy, correlated Gaussians.
"""
from __future__ import annotations

import ast

from ..core import facets, sym, symeval
from ..core.absint import Config, Interp
from ..core.loader import AnalysisError, Project
from ..core.values import Arr, Sc
from .distances import unmodelled_in
from .images_common import KMOD, TR, WMOD, pixel_spec, run_transform

CONFIGS = [
    # (weight, kernel, sigma, label)
    ("opaque", "opaque", None, "user weight, user kernel (general path)"),
    ("persistence", "gaussian", "scalar", "persistence weight, isotropic Gaussian given as a scalar variance (fast path)"),
    ("persistence", "gaussian", "iso-matrix", "isotropic Gaussian given as a matrix (fast path)"),
    ("persistence", "gaussian", "diag", "axis-aligned Gaussian with unequal variances (general path, product form)"),
    ("linear_ramp", "uniform", None, "linear-ramp weight, uniform kernel (general path)"),
]
POS = {"s", "s1", "s2", "kw", "kh", "n"}


def _ramp_syms(pt, name, idx):
    return None


def check_pixel(project: Project, rep, weight, kernel, sigma, skew, label):
    fi, I, r = run_transform(project, weight, kernel, skew, sigma or "scalar")
    rep.analysed(fi)
    tag = f"{label}, skew={skew}"
    for ev in I.log:
        if ev["kind"] == "shape-error" and ev["fi"] is fi and not I.clean_before(ev):
            rep.unmodelled("PI-AXIS", fi, ev["node"], f"{tag}: a shape disagreement is reported after values the run could not "
                                                      f"model: {ev['message']}"[:200])
        elif ev["kind"] == "shape-error" and ev["fi"] is fi:
            rep.refuted("PI-AXIS", fi, ev["node"], f"{tag}: shapes disagree for some grid: {ev['message']}")
        if ev["kind"] == "reshape" and ev.get("verdict") == "scrambled":
            rep.refuted("PI-AXIS", fi, ev["node"],
                        f"{tag}: the flattened (birth, persistence) mesh is reshaped with a different axis order/shape: kernel "
                        f"values land in the wrong pixels (image axes are no longer (birth, persistence))")
    mis = [ev for ev in I.log if ev["kind"] == "zip-misaligned"]
    if mis:
        rep.refuted("PI-PIXEL", fi, mis[0]["node"],
                    f"{tag}: per-point values are paired BY POSITION with a row selection or a block of the rows of the diagram "
                    f"(index spaces {[str(k)[:60] for k in mis[0]['spaces']]}): once a point is filtered out / from the second "
                    f"block on, a point is accumulated with another point's weight, so a pixel is no longer Σ weight × kernel mass",
                    construct=f"{TR}: positional pairing after a one-sided row filter")
        return
    if not isinstance(r, Arr) or r.ndim != 2:
        rep.unmodelled("PI-PIXEL", fi, fi.node, f"{tag}: image is not a 2-d array: {r!r}"[:200])
        return
    um = unmodelled_in(r.elem)
    from .distances import leftover_placeholders
    if not um and (leftover_placeholders(r.elem) or any(x[0] in ("in", "iv") and any(
            isinstance(i_, tuple) and str(i_[0]).startswith("@") for i_ in (x[2] if x[0] == "in" else ((x[1], 0),)))
            for x in sym.walk(r.elem))):
        # a loop-carried placeholder, or an entry read at a position the evaluator could only name (not compute), is left
        # in the pixel value: the loop summary did not close — nothing to compare
        um = ["unmodelled:loop summary left a placeholder / a data-dependent position in the pixel value"]
    if um:
        if any("reshape-scrambles" in u for u in um):
            return
        rep.unmodelled("PI-PIXEL", fi, fi.node, f"{tag}: pixel value not fully modelled ({um})")
        return
    (s0, i0), (s1, i1) = r.axes
    want0 = sym.add(sym.Size(("rows", "Bg")), sym.Num(-1))
    want1 = sym.add(sym.Size(("rows", "Pg")), sym.Num(-1))
    if sym.equal(s0.size, want0) and sym.equal(s1.size, want1):
        rep.discharged("PI-AXIS", fi, fi.node, f"{tag}: image shape = (birth pixels, persistence pixels) = resolution")
    else:
        rep.refuted("PI-AXIS", fi, fi.node, f"{tag}: image shape ({sym.show(s0.size)}, {sym.show(s1.size)}) is not the "
                                            f"resolution (birth pixels, persistence pixels)")
    spec = pixel_spec(weight, kernel, skew, sigma or "scalar", i0, i1)
    worst = None
    for ints in (False, True):
        ok, w = symeval.equivalent(r.elem, spec, trials=30, positive_syms=POS, nrows=3, tol=1e-8, integer_inputs=ints)
        if ok is not True:
            worst = (ok, w)
            break
    if worst is None:
        rep.discharged("PI-PIXEL", fi, fi.node,
                       f"{tag}: pixel (i,j) ≡ Σ weight(μ)·[K(B_i+1,P_j+1)−K(B_i,P_j+1)−K(B_i+1,P_j)+K(B_i,P_j)], "
                       f"μ = (b, {'d−b' if skew else 'd'})", derived=sym.show(r.elem)[:240])
    elif worst[0] is False and not I.clean_before():
        rep.unmodelled("PI-PIXEL", fi, fi.node,
                       f"{tag}: the derived pixel differs from the specification, but the run was not exact ("
                       + ", ".join(sorted({str(u.get('tag')) for u in I.unmodelled} | {str(l.get('why'))[:50] for l in I.lossy}))[:160]
                       + "): no verdict")
    elif worst[0] is False:
        rep.refuted("PI-PIXEL", fi, fi.node,
                    f"{tag}: a pixel is not Σ weight × kernel mass of its rectangle (inclusion–exclusion over its four corners "
                    f"with μ = (b, {'d−b' if skew else 'd'})); witness {str(worst[1])[:400]}",
                    construct=f"{TR}: pixel formula [{label}, skew={skew}]", failing_input=str(worst[1])[:600])
    else:
        rep.unmodelled("PI-PIXEL", fi, fi.node, f"{tag}: cannot evaluate the derived pixel ({worst[1]})")
    if kernel == "gaussian":
        from .c13 import _units
        n_u = _units(rep, I, {"_transform", "norm_cdf", "sbvn_cdf", "gaussian"}, rule="PI-UNITS")
    # which accumulation ran
    acc = [ev for ev in I.log if ev["kind"] == "loop" and ev["fi"] is fi]
    return I


def check_fast_guard(project: Project, rep):
    """PI-FAST, decided by executing `_transform` symbolically with the built-in Gaussian kernel and a generic covariance
    [[sxx, sxy], [syx, syy]] while observing which evaluator is reached: the closed-form isotropic path (norm_cdf on the
    pixel edges) or the general path (the kernel itself). The isotropic path may be taken only when the variances are
    equal and the covariance entry is zero."""
    import random
    from ..core.values import DictV, FuncV, Seq
    from .images_common import S, grid
    from .distances import dgm_input
    fi = project.function(TR)
    seen = {"fast": [], "general": []}

    def stub(kind):
        def h(I, bound, n):
            seen[kind].append((sym.And(*I.path) if I.path else sym.TRUE, n))
            return I.unknown("observed-" + kind, n)
        return h
    I = Interp(project, Config(nonempty={("rows", "X"), ("rows", "Bg"), ("rows", "Pg")}, finite_inputs={"X", "bg", "pg"},
                               flags={"stub_func": {f"{KMOD}.norm_cdf": stub("fast"), f"{KMOD}.gaussian": stub("general")}}))
    res = Seq([Sc(sym.add(sym.Size(("rows", "Bg")), sym.Num(-1))), Sc(sym.add(sym.Size(("rows", "Pg")), sym.Num(-1)))], "tuple")
    sig = Seq([Seq([Sc(S("sxx")), Sc(S("sxy"))]), Seq([Sc(S("syx")), Sc(S("syy"))])])
    try:
        I.run(TR, {"pers_dgm": dgm_input("X"), "skew": Sc(sym.TRUE), "resolution": res,
                   "weight": FuncV("repo", f"{WMOD}.persistence"), "weight_params": DictV({"n": Sc(S("n"))}),
                   "kernel": FuncV("repo", f"{KMOD}.gaussian"), "kernel_params": DictV({"sigma": sig}),
                   "_bpnts": grid("bg", "Bg"), "_ppnts": grid("pg", "Pg")})
    except Exception as ex:
        rep.note(f"PI-FAST: symbolic execution stopped after the dispatch ({type(ex).__name__})")
    if not seen["fast"] or not seen["general"]:
        rep.unmodelled("PI-FAST", fi, fi.node, f"fast-path guard not found (isotropic evaluator reached: {bool(seen['fast'])}, "
                                               f"general evaluator reached: {bool(seen['general'])})")
        return
    cases = [  # (sxx, syy, sxy) -> the fast path is admissible
        ((1.3, 1.3, 0.0), True), ((1.3, 0.7, 0.0), False), ((1.3, 1.3, 0.4), False), ((1.3, 1.3, -0.4), False),
        ((1.3, 1.3, 1e-9), False), ((1.3, 1.3 + 1e-9, 0.0), False), ((0.2, 2.0, 0.1), False)]
    try:
        bad = None
        for (sxx, syy, sxy), admissible in cases:
            pt = symeval.Point(random.Random(5))
            pt.syms.update({"sxx": sxx, "syy": syy, "sxy": sxy, "syx": sxy, "n": 1.0})
            fast = any(bool(symeval.ev(c, pt)) for c, _ in seen["fast"])
            gen = any(bool(symeval.ev(c, pt)) for c, _ in seen["general"])
            if fast and not admissible:
                bad = (sxx, syy, sxy)
                break
            if not fast and not gen:
                rep.unmodelled("PI-FAST", fi, fi.node, f"no evaluator reached for sigma=[[{sxx},{sxy}],[{sxy},{syy}]]")
                return
    except symeval.NotEvaluable as ex:
        rep.unmodelled("PI-FAST", fi, fi.node, f"dispatch condition not evaluable ({ex})")
        return
    node = seen["fast"][0][1]
    if bad is not None and I.lossy:
        rep.unmodelled("PI-FAST", fi, node, f"the dispatch could not be followed exactly ({I.lossy[0]['why']})")
        return
    opaque = sorted({x[1] for c, _ in seen["fast"] for x in sym.walk(c) if x[0] == "opq"})
    if bad is not None and opaque:
        rep.unmodelled("PI-FAST", fi, node, f"the guard of the isotropic path contains a test the evaluator could not read "
                                            f"({', '.join(opaque)[:80]}): no verdict")
        return
    if bad is None:
        rep.discharged("PI-FAST", fi, node, "the isotropic closed form is reached only for equal variances and zero covariance "
                                            "(every other covariance goes to the kernel itself)")
    else:
        sxx, syy, sxy = bad
        rep.refuted("PI-FAST", fi, node,
                    f"the isotropic fast path is taken for sigma=[[{sxx},{sxy}],[{sxy},{syy}]] (guard: "
                    f"{sym.show(sym.Or(*[c for c, _ in seen['fast']]))[:140]}): " +
                    ("a correlated Gaussian" if sxy != 0 else "an axis-aligned Gaussian with unequal variances") +
                    " is imaged as isotropic", construct=f"{TR}: fast-path guard")


def check_registry(project: Project, rep):
    cls = project.cls("persim.images.PersistenceImager")
    ens = cls.methods.get("_ensure_callable")
    val = cls.methods.get("_validate_parameters")
    init = cls.methods.get("__init__")
    if not (ens and val and init):
        raise AnalysisError("PI-REG: registry methods not found")
    tables = {}
    for n in ast.walk(ens.node):
        if isinstance(n, ast.Assign) and isinstance(n.value, ast.Dict) and isinstance(n.targets[0], ast.Name):
            keys = [k.value for k in n.value.keys if isinstance(k, ast.Constant)]
            vals = [project.resolve(ens.module, v, set()) for v in n.value.values]
            tables[n.targets[0].id] = dict(zip(keys, vals))
    lists = {}
    for n in ast.walk(val.node):
        if isinstance(n, ast.Assign) and isinstance(n.value, ast.List) and isinstance(n.targets[0], ast.Name):
            lists[n.targets[0].id] = [e.value for e in n.value.elts if isinstance(e, ast.Constant)]
    for kind, mod in (("weights", WMOD), ("kernels", KMOD)):
        tab = next((v for k, v in tables.items() if kind[:-1] in k), None)
        lst = next((v for k, v in lists.items() if kind[:-1] in k), None)
        if tab is None or lst is None:
            rep.unmodelled("PI-REG", ens, ens.node, f"registry for {kind} not found")
            continue
        if set(tab) == set(lst):
            rep.discharged("PI-REG", ens, ens.node, f"{kind}: accepted names {sorted(lst)} = registered names")
        else:
            rep.refuted("PI-REG", ens, ens.node, f"{kind}: names accepted by validation {sorted(lst)} differ from the names "
                                                 f"registered {sorted(tab)}: an accepted name raises KeyError or a registered "
                                                 f"one is rejected", construct=f"{ens.qualname}: {kind} registry")
        for name, tgt in tab.items():
            if tgt == f"{mod}.{name}" and tgt in project.functions:
                rep.discharged("PI-REG", ens, ens.node, f"'{name}' → {tgt}", nontrivial=False)
            else:
                rep.refuted("PI-REG", ens, ens.node, f"the name '{name}' is bound to {tgt}, not to {mod}.{name}",
                            construct=f"{ens.qualname}: '{name}' binding")
    # defaults: decided by constructing an imager symbolically with no arguments and reading what it stores
    from ..core.values import FuncV
    try:
        I = Interp(project, Config())
        obj = I.construct("persim.images.PersistenceImager", [], {}, None)
    except Exception as ex:
        rep.unmodelled("PI-REG", init, init.node, f"default construction not modelled: {type(ex).__name__}")
        return
    for attr, want in (("weight", "persim.images_weights.persistence"), ("kernel", "persim.images_kernels.gaussian")):
        v = obj.attrs.get(attr)
        if isinstance(v, FuncV) and v.kind == "repo" and v.target in project.functions:
            if v.target == want:
                rep.discharged("PI-REG", init, init.node, f"default {attr} is {v.target}", nontrivial=False)
            else:
                rep.refuted("PI-REG", init, init.node, f"default {attr} is {v.target}, not the documented {want}")
        elif v is None:
            rep.unmodelled("PI-REG", init, init.node, f"default {attr} not stored under that name")
        else:
            rep.refuted("PI-REG", init, init.node, f"default {attr} `{v!r}` is not a built-in function"[:160])


def run(project: Project, rep, tier: str):
    rep.explain(
        "C04 (clauses decided; the CDF values themselves are C13's clauses): `_transform` is evaluated symbolically on a "
        "generic diagram, generic pixel-boundary vectors and symbolic parameters, for each built-in weight/kernel path and "
        "for *uninterpreted* weight and kernel functions (any user callable). The accumulation loop folds to Σ over points; "
        "the flatten/reshape round-trip of the mesh is tracked. PI-PIXEL compares the derived pixel normal form with the "
        "statement's formula (Σ weight × inclusion–exclusion of the kernel CDF over the pixel's four corners, μ in "
        "birth–persistence coordinates) by identity testing of the derived expressions with a witness; this subsumes the "
        "stencil signs/corners, the skew conversion, the weight/point pairing and the axis roles, for every diagram size "
        "and grid. PI-UNITS: units typing of the Gaussian arguments. PI-FAST, PI-REG: site rules. Declined: CDF accuracy, "
        "correlated Gaussian path.")
    rep.assume("user-supplied weight/kernel callables are element-wise functions of their arguments (documented contract); "
               "exact arithmetic")
    skews = (True, False)
    for weight, kernel, sigma, label in CONFIGS:
        for skew in (skews if (tier == "thorough" or kernel == "opaque" or sigma == "scalar") else (True,)):
            check_pixel(project, rep, weight, kernel, sigma, skew, label)
    check_fast_guard(project, rep)
    check_registry(project, rep)
    # the correlated-Gaussian path is not evaluated symbolically; the structural clauses of its CDF that the pixel value
    # depends on are shared with C13 (guards that drop terms, stale quantities across the sign flip, dispatch wiring)
    from .c13 import check_dispatch, check_guards, check_stale
    check_guards(project, rep)
    check_stale(project, rep)
    check_dispatch(project, rep)
    # the weight of a point must not depend on whether the diagram is written with ints or floats: no floating-point
    # store into an array that inherits the caller's dtype (rules/dtype_rule.py) in the image modules
    from . import dtype_rule
    fns = [fi_ for q_, fi_ in sorted(project.functions.items())
           if fi_.module.name in ("persim.images", WMOD, KMOD) and isinstance(fi_.node, ast.FunctionDef)]
    hits = 0
    for fi_ in fns:
        for h in dtype_rule.analyse(project, fi_):
            hits += 1
            rep.refuted("PI-DTYPE", fi_, h["node"],
                        h["why"] + ": for an integer-typed diagram the weights / pixel masses are truncated, so the pixel is no "
                                   "longer weight x kernel mass", construct=f"{fi_.qualname}: {ast.unparse(h['node'])[:100]}")
    if not hits:
        rep.discharged("PI-DTYPE", None, None, f"{len(fns)} functions of the image modules: no floating-point store into an "
                                               f"array whose dtype is inherited from the caller's data")
    for rn, n in (("PI-PIXEL", 6), ("PI-AXIS", 6), ("PI-UNITS", 3), ("PI-FAST", 1), ("PI-REG", 6), ("PI-DTYPE", 1)):
        rep.floor(rn, n)
    for t in ("numpy.meshgrid", "numpy.reshape", "numpy.ndarray.flatten", "scipy.special.erfc", "numpy.zeros"):
        rep.trust(t)
