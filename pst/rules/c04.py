"""C04 — persistence image pixel = Σ weight × kernel mass of the pixel (images.py, images_kernels.py, images_weights.py).

Decided, for every built-in weight/kernel path and for uninterpreted (user) weights and kernels, for every
diagram size and grid: PI-PIXEL — the derived normal form of each pixel is
    Σ_points weight(μ) · [K(B_{i+1},P_{j+1}) − K(B_i,P_{j+1}) − K(B_{i+1},P_j) + K(B_i,P_j)]
with μ = (birth, death−birth) under skew, K the kernel CDF centred at μ, (B, P) the pixel boundaries on the
(birth, persistence) axes — i.e. inclusion–exclusion stencil signs and corners (PI-STENCIL), skew conversion
(PI-SKEW), weight i multiplies contribution i and is computed from (birth, persistence) in that order
(PI-WEIGHT), axis roles (PI-AXIS), variance→std in the isotropic fast path (PI-UNITS);
PI-FAST the fast path is taken exactly for equal variances and zero covariance; PI-REG the name registries agree.
Declined: the values of the CDFs themselves (C13 clauses), numerical-integration accuracy, correlated Gaussians.
"""
from __future__ import annotations

import ast

from ..core import facets, sym, symeval
from ..core.loader import AnalysisError, Project
from ..core.values import Arr, Sc
from .distances import unmodelled_in
from .images_common import KMOD, TR, WMOD, pixel_spec, run_transform

CONFIGS = [
    # (weight, kernel, sigma, label)
    ("opaque", "opaque", None, "user weight, user kernel (general path)"),
    ("persistence", "gaussian", "scalar", "persistence weight, isotropic Gaussian given as a scalar variance (fast path)"),
    ("persistence", "gaussian", "iso-matrix", "isotropic Gaussian given as a matrix (fast path)"),
    ("persistence", "gaussian", "diag", "axis-aligned Gaussian with unequal variances (general path, product form)"),
    ("linear_ramp", "uniform", None, "linear-ramp weight, uniform kernel (general path)"),
]
POS = {"s", "s1", "s2", "kw", "kh", "n"}


def _ramp_syms(pt, name, idx):
    return None


def check_pixel(project: Project, rep, weight, kernel, sigma, skew, label):
    fi, I, r = run_transform(project, weight, kernel, skew, sigma or "scalar")
    rep.analysed(fi)
    tag = f"{label}, skew={skew}"
    for ev in I.log:
        if ev["kind"] == "shape-error" and ev["fi"] is fi:
            rep.refuted("PI-AXIS", fi, ev["node"], f"{tag}: shapes disagree for some grid: {ev['message']}")
        if ev["kind"] == "reshape" and ev.get("verdict") == "scrambled":
            rep.refuted("PI-AXIS", fi, ev["node"],
                        f"{tag}: the flattened (birth, persistence) mesh is reshaped with a different axis order/shape: kernel "
                        f"values land in the wrong pixels (image axes are no longer (birth, persistence))")
    if not isinstance(r, Arr) or r.ndim != 2:
        rep.unmodelled("PI-PIXEL", fi, fi.node, f"{tag}: image is not a 2-d array: {r!r}"[:200])
        return
    um = unmodelled_in(r.elem)
    if um:
        if any("reshape-scrambles" in u for u in um):
            return
        rep.unmodelled("PI-PIXEL", fi, fi.node, f"{tag}: pixel value not fully modelled ({um})")
        return
    (s0, i0), (s1, i1) = r.axes
    want0 = sym.add(sym.Size(("rows", "Bg")), sym.Num(-1))
    want1 = sym.add(sym.Size(("rows", "Pg")), sym.Num(-1))
    if sym.equal(s0.size, want0) and sym.equal(s1.size, want1):
        rep.discharged("PI-AXIS", fi, fi.node, f"{tag}: image shape = (birth pixels, persistence pixels) = resolution")
    else:
        rep.refuted("PI-AXIS", fi, fi.node, f"{tag}: image shape ({sym.show(s0.size)}, {sym.show(s1.size)}) is not the "
                                            f"resolution (birth pixels, persistence pixels)")
    spec = pixel_spec(weight, kernel, skew, sigma or "scalar", i0, i1)
    worst = None
    for ints in (False, True):
        ok, w = symeval.equivalent(r.elem, spec, trials=30, positive_syms=POS, nrows=3, tol=1e-8, integer_inputs=ints)
        if ok is not True:
            worst = (ok, w)
            break
    if worst is None:
        rep.discharged("PI-PIXEL", fi, fi.node,
                       f"{tag}: pixel (i,j) ≡ Σ weight(μ)·[K(B_i+1,P_j+1)−K(B_i,P_j+1)−K(B_i+1,P_j)+K(B_i,P_j)], "
                       f"μ = (b, {'d−b' if skew else 'd'})", derived=sym.show(r.elem)[:240])
    elif worst[0] is False:
        rep.refuted("PI-PIXEL", fi, fi.node,
                    f"{tag}: a pixel is not Σ weight × kernel mass of its rectangle (inclusion–exclusion over its four corners "
                    f"with μ = (b, {'d−b' if skew else 'd'})); witness {str(worst[1])[:400]}",
                    construct=f"{TR}: pixel formula [{label}, skew={skew}]", failing_input=str(worst[1])[:600])
    else:
        rep.unmodelled("PI-PIXEL", fi, fi.node, f"{tag}: cannot evaluate the derived pixel ({worst[1]})")
    if kernel == "gaussian":
        from .c13 import _units
        n_u = _units(rep, I, {"_transform", "norm_cdf", "sbvn_cdf", "gaussian"}, rule="PI-UNITS")
    # which accumulation ran
    acc = [ev for ev in I.log if ev["kind"] == "loop" and ev["fi"] is fi]
    return I


def check_fast_guard(project: Project, rep):
    """the isotropic fast path is guarded by sigma[0][0]==sigma[1][1] and sigma[0][1]==0"""
    fi = project.function(TR)
    f = fi.node
    import re
    conds = []
    for n in ast.walk(f):
        if isinstance(n, ast.If) and "==" in ast.unparse(n.test) and re.search(r"\w+\[\d\]\[\d\]", ast.unparse(n.test)):
            conds.append(n)
    ok = False
    for n in conds:
        parts = [ast.unparse(v).replace(" ", "") for v in (n.test.values if isinstance(n.test, ast.BoolOp) and isinstance(n.test.op, ast.And)
                                                           else [n.test])]
        eq = any(re.fullmatch(r"(\w+)\[0\]\[0\]==\1\[1\]\[1\]|(\w+)\[1\]\[1\]==\2\[0\]\[0\]", p_) for p_ in parts)
        zero = any(re.fullmatch(r"\w+\[(0\]\[1|1\]\[0)\]==0(\.0)?|0(\.0)?==\w+\[(0\]\[1|1\]\[0)\]", p_) for p_ in parts)
        if eq and zero:
            ok = True
            rep.discharged("PI-FAST", fi, n, "fast path requires equal variances and zero covariance")
        elif eq or zero:
            rep.refuted("PI-FAST", fi, n, f"the isotropic fast path is guarded by `{ast.unparse(n.test)}` only: "
                                          + ("a correlated Gaussian with equal variances" if eq else
                                             "an axis-aligned Gaussian with unequal variances") + " takes it and is imaged as "
                                                                                                  "isotropic")
            ok = True
    if not ok:
        rep.unmodelled("PI-FAST", fi, f, "fast-path guard not found")


def check_registry(project: Project, rep):
    cls = project.cls("persim.images.PersistenceImager")
    ens = cls.methods.get("_ensure_callable")
    val = cls.methods.get("_validate_parameters")
    init = cls.methods.get("__init__")
    if not (ens and val and init):
        raise AnalysisError("PI-REG: registry methods not found")
    tables = {}
    for n in ast.walk(ens.node):
        if isinstance(n, ast.Assign) and isinstance(n.value, ast.Dict) and isinstance(n.targets[0], ast.Name):
            keys = [k.value for k in n.value.keys if isinstance(k, ast.Constant)]
            vals = [project.resolve(ens.module, v, set()) for v in n.value.values]
            tables[n.targets[0].id] = dict(zip(keys, vals))
    lists = {}
    for n in ast.walk(val.node):
        if isinstance(n, ast.Assign) and isinstance(n.value, ast.List) and isinstance(n.targets[0], ast.Name):
            lists[n.targets[0].id] = [e.value for e in n.value.elts if isinstance(e, ast.Constant)]
    for kind, mod in (("weights", WMOD), ("kernels", KMOD)):
        tab = next((v for k, v in tables.items() if kind[:-1] in k), None)
        lst = next((v for k, v in lists.items() if kind[:-1] in k), None)
        if tab is None or lst is None:
            rep.unmodelled("PI-REG", ens, ens.node, f"registry for {kind} not found")
            continue
        if set(tab) == set(lst):
            rep.discharged("PI-REG", ens, ens.node, f"{kind}: accepted names {sorted(lst)} = registered names")
        else:
            rep.refuted("PI-REG", ens, ens.node, f"{kind}: names accepted by validation {sorted(lst)} differ from the names "
                                                 f"registered {sorted(tab)}: an accepted name raises KeyError or a registered "
                                                 f"one is rejected", construct=f"{ens.qualname}: {kind} registry")
        for name, tgt in tab.items():
            if tgt == f"{mod}.{name}" and tgt in project.functions:
                rep.discharged("PI-REG", ens, ens.node, f"'{name}' → {tgt}", nontrivial=False)
            else:
                rep.refuted("PI-REG", ens, ens.node, f"the name '{name}' is bound to {tgt}, not to {mod}.{name}",
                            construct=f"{ens.qualname}: '{name}' binding")
    defaults = [n for n in ast.walk(init.node) if isinstance(n, ast.Assign) and isinstance(n.targets[0], ast.Name)
                and n.targets[0].id in ("weight", "kernel")]
    for n in defaults:
        t = project.resolve(init.module, n.value, set())
        if t in project.functions:
            rep.discharged("PI-REG", init, n, f"default {n.targets[0].id} is {t}", nontrivial=False)
        else:
            rep.refuted("PI-REG", init, n, f"default {n.targets[0].id} `{ast.unparse(n.value)}` is not a built-in function")


def run(project: Project, rep, tier: str):
    rep.explain(
        "C04 (clauses decided; the CDF values themselves are C13's clauses): `_transform` is evaluated symbolically on a "
        "generic diagram, generic pixel-boundary vectors and symbolic parameters, for each built-in weight/kernel path and "
        "for *uninterpreted* weight and kernel functions (any user callable). The accumulation loop folds to Σ over points; "
        "the flatten/reshape round-trip of the mesh is tracked. PI-PIXEL compares the derived pixel normal form with the "
        "statement's formula (Σ weight × inclusion–exclusion of the kernel CDF over the pixel's four corners, μ in "
        "birth–persistence coordinates) by identity testing of the derived expressions with a witness; this subsumes the "
        "stencil signs/corners, the skew conversion, the weight/point pairing and the axis roles, for every diagram size "
        "and grid. PI-UNITS: units typing of the Gaussian arguments. PI-FAST, PI-REG: site rules. Declined: CDF accuracy, "
        "correlated Gaussian path.")
    rep.assume("user-supplied weight/kernel callables are element-wise functions of their arguments (documented contract); "
               "exact arithmetic")
    skews = (True, False)
    for weight, kernel, sigma, label in CONFIGS:
        for skew in (skews if (tier == "thorough" or kernel == "opaque" or sigma == "scalar") else (True,)):
            check_pixel(project, rep, weight, kernel, sigma, skew, label)
    check_fast_guard(project, rep)
    check_registry(project, rep)
    # the correlated-Gaussian path is not evaluated symbolically; the structural clauses of its CDF that the pixel value
    # depends on are shared with C13 (guards that drop terms, stale quantities across the sign flip, dispatch wiring)
    from .c13 import check_dispatch, check_guards, check_stale
    check_guards(project, rep)
    check_stale(project, rep)
    check_dispatch(project, rep)
    for rn, n in (("PI-PIXEL", 6), ("PI-AXIS", 6), ("PI-UNITS", 3), ("PI-FAST", 1), ("PI-REG", 6)):
        rep.floor(rn, n)
    for t in ("numpy.meshgrid", "numpy.reshape", "numpy.ndarray.flatten", "scipy.special.erfc", "numpy.zeros"):
        rep.trust(t)
