"""C03 — exact landscape = k-th largest tent (landscapes/exact.py), necessary conditions of the sweep.

Decided: LX-COPY (the worklist and its rows are private copies), LX-SORT (sort key = birth ascending, death
descending), LX-EDGE (every emitted critical point lies on a bar edge: t−y is a birth and t+y a death of the bars
in hand, or y=0 at an end-point; the residual bar pushed back is [birth, death]), LX-NOCOPY (no depth is produced
by copying another depth), LX-ITER (no list is structurally mutated while a `for` iterates it, unless the loop is
left at once), LX-DEG (the requested homological degree selects the diagram; a trailing infinite bar is removed by
testing the death column).
Declined: that cases I/II/III and the ordered re-insertion reproduce the k-th largest tent for every input.
"""
from __future__ import annotations

import ast

from ..core import sym
from ..core.absint import Config, Interp
from ..core.loader import AnalysisError, FunctionInfo, Project
from ..core.values import Sc
from .common import expand_locals, fn_view, local_names, norm_construct, own_analysis

CL = "persim.landscapes.exact.PersLandscapeExact"


def _enclosing_loops(f, node):
    out = []

    def rec(n, stack):
        if n is node:
            out.extend(stack)
            return True
        for ch in ast.iter_child_nodes(n):
            if rec(ch, stack + ([n] if isinstance(n, (ast.For, ast.While)) else [])):
                return True
        return False

    rec(f, [])
    return out


def _loop_header(lp):
    if isinstance(lp, ast.For):
        return f"for {ast.unparse(lp.target)} in {ast.unparse(lp.iter)}"
    return f"while {ast.unparse(lp.test)}"


def _lin_over_names(project, fi, expr, names):
    """normal form of an arithmetic expression over the given names as symbols"""
    I = Interp(project, Config())
    fr_fi = fi
    from ..core.absint import Frame
    I.frames.append(Frame(fr_fi, {}, 0))
    env = {n: Sc(sym.Sym(n)) for n in names}
    v = I.eval(expr, env)
    I.frames.pop()
    return v.e if isinstance(v, Sc) else None


def run(project: Project, rep, tier: str):
    rep.explain(
        "C03 (clauses decided — necessary conditions of the sweep the code implements; its correctness for every input is "
        "declined): LX-COPY from the ownership analysis (no write event reaches the stored diagram). LX-SORT: normal form "
        "of the sort key. LX-EDGE: every [t, y] literal emitted into a depth list is evaluated to an affine form over the "
        "bar symbols in hand (typed birth/death by unpacking position); it must satisfy t−y ∈ births, t+y ∈ deaths, or "
        "y ≡ 0 with t an end-point/±inf — i.e. the point is the meeting of a rising edge of one bar and a falling edge of "
        "another. LX-NOCOPY / LX-ITER: site rules (a depth list built by appending an element of the list of depths to "
        "itself; structural mutation of a list inside a `for` over it that continues iterating). LX-DEG: selection of the "
        "diagram by degree and removal of the trailing infinite bar.")
    rep.assume("bars have positive length; the Bubenik–Dłotko sweep (cases I/II/III) is the algorithm implemented")
    # the sweep itself is followed first (LX-SWEEP, bounded): when it decided the sweep, the readers of the sweep's shape
    # (sort key, emitted literals, iteration idiom, re-insertion) no longer fail the analysis on shapes they do not know
    from ..core.report import Report as _Report
    from .sweep import check_sweep as _check_sweep
    _pre0 = _Report("C03-sweep-pre")
    try:
        _st0 = _check_sweep(project, _pre0, max_bars=2)
    except AnalysisError:
        _st0 = "unmodelled"
    if _st0 == "ok":
        rep.soft_rules = {"LX-SORT", "LX-EDGE", "LX-ITER", "LX-INSERT"}
    cls = project.cls(CL)
    fi = cls.methods.get("compute_landscape")
    init = cls.methods.get("__init__")
    if fi is None or init is None:
        raise AnalysisError("LX: compute_landscape/__init__ not found")
    rep.analysed(fi)
    f = fn_view(project, fi)
    locs = local_names(f)
    # ---------------- LX-COPY
    oa = own_analysis(project)
    s = oa.summary(fi.qualname)
    writes = [ev for ev in s.events if ev.kind == "write"]
    if writes:
        for ev in writes:
            rep.refuted("LX-COPY", fi, ev.node, f"the sweep mutates {ev.origin} in place ({ev.how}): the stored diagram / the "
                                                f"caller's arrays are consumed by computing the landscape")
    else:
        pops = sum(1 for n in ast.walk(f) if isinstance(n, ast.Call) and isinstance(n.func, ast.Attribute)
                   and n.func.attr in ("pop", "insert"))
        rep.discharged("LX-COPY", fi, f, f"{pops} pop/insert operations, all on a private copy of the diagram (no write event "
                                         f"on an object reachable from self)")
    # ---------------- LX-SORT
    sorts = [n for n in ast.walk(f) if isinstance(n, ast.Call) and
             (project.resolve(fi.module, n.func, locs) == "builtins.sorted" or
              (isinstance(n.func, ast.Attribute) and n.func.attr == "sort"))]
    # methods of the same class that the sweep calls (an input-preparation step moved out of compute_landscape) are read too
    self_calls = []
    for n in ast.walk(f):
        if isinstance(n, ast.Call) and isinstance(n.func, ast.Attribute) and isinstance(n.func.value, ast.Name) \
                and n.func.value.id == "self" and cls.lookup(n.func.attr, project) is not None and n.func.attr != "compute_landscape":
            m_ = cls.lookup(n.func.attr, project)
            self_calls.append(m_)
            mv = fn_view(project, m_)
            sorts += [x for x in ast.walk(mv) if isinstance(x, ast.Call) and
                      (project.resolve(m_.module, x.func, local_names(mv)) == "builtins.sorted" or
                       (isinstance(x.func, ast.Attribute) and x.func.attr == "sort"))]
    key_ok = False
    for c in sorts:
        key = [k.value for k in c.keywords if k.arg == "key"]
        rev = [k.value for k in c.keywords if k.arg == "reverse"]
        reverse = bool(rev and isinstance(rev[0], ast.Constant) and rev[0].value is True)
        if key and isinstance(key[0], ast.Name):
            # a named key function of the package: read its returned expression like a lambda's body
            kt = project.resolve(fi.module, key[0], set())
            kf = project.functions.get(kt) if kt else None
            rets = [r for r in ast.walk(kf.node) if isinstance(r, ast.Return)] if kf is not None else []
            if kf is not None and len(rets) == 1 and len(kf.params) == 1 and len(kf.node.body) <= 2:
                lam_ = ast.Lambda(args=kf.node.args, body=rets[0].value)
                ast.copy_location(lam_, key[0])
                key = [lam_]
        if not key or not isinstance(key[0], ast.Lambda):
            continue
        lam = key[0]
        arg = lam.args.args[0].arg
        body = lam.body
        if not isinstance(body, (ast.List, ast.Tuple)) or len(body.elts) != 2:
            rep.refuted("LX-SORT", fi, c, "the bars are not sorted lexicographically by (birth, death): the sweep's 'first term' "
                                          "invariant fails")
            key_ok = True
            continue
        forms = []
        for e in body.elts:
            env_names = {arg}
            # x[0] / -x[1]: evaluate with x a 2-vector of symbols
            I = Interp(project, Config())
            from ..core.absint import Frame
            from ..core.values import Seq
            I.frames.append(Frame(fi, {}, 0))
            v = I.eval(e, {arg: Seq([Sc(sym.Sym("birth")), Sc(sym.Sym("death"))])})
            I.frames.pop()
            forms.append(v.e if isinstance(v, Sc) else None)
        sgn = -1.0 if reverse else 1.0
        t0, _ = sym.lin_parts(forms[0]) if forms[0] is not None else ({}, 0)
        t1, _ = sym.lin_parts(forms[1]) if forms[1] is not None else ({}, 0)
        a = t0.get(sym.Sym("birth"), 0) * sgn if set(t0) == {sym.Sym("birth")} else None
        b = t1.get(sym.Sym("death"), 0) * sgn if set(t1) == {sym.Sym("death")} else None
        key_ok = True
        if a is not None and b is not None and a > 0 and b < 0:
            rep.discharged("LX-SORT", fi, c, "sort key orders bars by birth ascending, then death descending",
                           derived=f"[{sym.show(forms[0])}, {sym.show(forms[1])}]" + (" reversed" if reverse else ""))
        else:
            rep.refuted("LX-SORT", fi, c,
                        f"sort key [{sym.show(forms[0]) if forms[0] is not None else '?'}, "
                        f"{sym.show(forms[1]) if forms[1] is not None else '?'}]" + (" reversed" if reverse else "") +
                        " is not (birth ascending, death descending): among bars with equal birth the longest must come "
                        "first")
    if not key_ok:
        other = [n for n in ast.walk(f) if isinstance(n, ast.Call) and (project.resolve(fi.module, n.func, locs) or "").rsplit(".", 1)[-1]
                 in ("lexsort", "argsort", "sort", "sorted", "heapify", "heappush", "insort", "bisect_left", "bisect_right", "bisect")]
        callees = [n for n in ast.walk(f) if isinstance(n, ast.Call) and (project.resolve(fi.module, n.func, locs) or "") in project.classes]
        # any sort whose key was not read, and any call into the package that was not looked into, may be the ordering step
        other += [c for c in sorts]
        callees += [n for n in ast.walk(f) if isinstance(n, ast.Call) and (
            (project.resolve(fi.module, n.func, locs) or "") in project.functions
            or (isinstance(n.func, ast.Attribute) and isinstance(n.func.value, ast.Name) and n.func.value.id == "self"
                and n.func.attr != "compute_landscape"))]
        if other or callees:
            rep.unmodelled("LX-SORT", fi, (other or callees)[0], "the bars are ordered by a construct this rule does not read "
                           f"(`{ast.unparse((other or callees)[0])[:60]}`); the order is decided by LX-SWEEP when it can follow it")
        else:
            rep.refuted("LX-SORT", fi, f, "the worklist is never sorted by (birth, −death)", construct=f"{fi.qualname}: sort")
    # ---------------- LX-EDGE
    births, deaths = set(), set()
    for n in ast.walk(f):
        if isinstance(n, ast.Assign) and isinstance(n.targets[0], ast.Tuple) and len(n.targets[0].elts) == 2 \
                and all(isinstance(e, ast.Name) for e in n.targets[0].elts):
            v = n.value
            if isinstance(v, ast.Call) and isinstance(v.func, ast.Attribute) and v.func.attr == "pop":
                births.add(n.targets[0].elts[0].id)
                deaths.add(n.targets[0].elts[1].id)
    pops = sorted([n for n in ast.walk(f) if isinstance(n, ast.Assign) and isinstance(n.targets[0], ast.Tuple)
                   and len(n.targets[0].elts) == 2 and isinstance(n.value, ast.Call) and isinstance(n.value.func, ast.Attribute)
                   and n.value.func.attr == "pop"], key=lambda n: n.lineno)
    cur = new_bar = None
    if len(pops) >= 2:
        cur = (pops[0].targets[0].elts[0].id, pops[0].targets[0].elts[1].id)
        new_bar = (pops[1].targets[0].elts[0].id, pops[1].targets[0].elts[1].id)
    allowed_edges = set()
    if cur and new_bar:
        allowed_edges = {(sym.Sym(cur[0]), sym.Sym(cur[1])), (sym.Sym(new_bar[0]), sym.Sym(cur[1])),
                         (sym.Sym(new_bar[0]), sym.Sym(new_bar[1]))}
    # re-bindings such as `b, d = b_prime, d_prime` must keep the typing
    for n in ast.walk(f):
        if isinstance(n, ast.Assign) and isinstance(n.targets[0], ast.Tuple) and isinstance(n.value, ast.Tuple) \
                and len(n.targets[0].elts) == len(n.value.elts) == 2:
            for t, v in zip(n.targets[0].elts, n.value.elts):
                if isinstance(t, ast.Name) and isinstance(v, ast.Name):
                    if (t.id in births and v.id in deaths) or (t.id in deaths and v.id in births):
                        rep.refuted("LX-EDGE", fi, n, f"`{ast.unparse(n)}` assigns a death to a birth variable (or vice versa)")
    if not births or not deaths:
        rep.unmodelled("LX-EDGE", fi, f, "bar unpacking sites not found")
    names = births | deaths
    B = {sym.Sym(n) for n in births}
    Dd = {sym.Sym(n) for n in deaths}
    emitted = 0
    carriers = [c for c in ast.walk(f) if isinstance(c, ast.Call) and isinstance(c.func, ast.Attribute)
                and c.func.attr in ("extend", "append")]
    # a depth list may also start life as a literal list of points: lam = [[-inf, 0], [b, 0], [(b+d)/2, (d-b)/2]]
    carriers += [n.value for n in ast.walk(f) if isinstance(n, ast.Assign) and isinstance(n.value, ast.List) and n.value.elts
                 and all(isinstance(e, ast.List) and len(e.elts) == 2 for e in n.value.elts)]
    seen_pairs = set()
    for c in carriers:
        for pair in ast.walk(c):
            if id(pair) in seen_pairs:
                continue
            if isinstance(pair, ast.List) and len(pair.elts) == 2 and not any(isinstance(e, (ast.List, ast.Tuple)) for e in pair.elts):
                seen_pairs.add(id(pair))
                used = {x.id for x in ast.walk(pair) if isinstance(x, ast.Name)}
                if not (used & names) and not any(isinstance(x, ast.Attribute) and x.attr == "inf" for x in ast.walk(pair)):
                    continue
                t = _lin_over_names(project, fi, pair.elts[0], names)
                y = _lin_over_names(project, fi, pair.elts[1], names)
                if t is None or y is None:
                    rep.unmodelled("LX-EDGE", fi, pair, "emitted point is not an arithmetic expression of the bar end-points")
                    continue
                emitted += 1
                if y == sym.ZERO:
                    if t in B or t in Dd or (t[0] == "num" and t[1] in (float("inf"), float("-inf"))):
                        rep.discharged("LX-EDGE", fi, pair, f"[{sym.show(t)}, 0]: a zero of the landscape at a bar end-point")
                    else:
                        rep.refuted("LX-EDGE", fi, pair, f"[{sym.show(t)}, 0]: the abscissa of a zero is not a birth or a death")
                    continue
                lo, hi = sym.sub(t, y), sym.add(t, y)
                if lo in B and hi in Dd and allowed_edges and (lo, hi) not in allowed_edges:
                    rep.refuted("LX-EDGE", fi, pair,
                                f"critical point [{sym.show(t)}, {sym.show(y)}] pairs the rising edge of the current bar with the "
                                f"falling edge of the next one (t−y = {sym.show(lo)}, t+y = {sym.show(hi)}): that intersection is "
                                f"not on the landscape")
                elif lo in B and hi in Dd:
                    rep.discharged("LX-EDGE", fi, pair, f"[{sym.show(t)}, {sym.show(y)}]: t−y = {sym.show(lo)} (a birth), "
                                                        f"t+y = {sym.show(hi)} (a death): meeting of a rising and a falling edge")
                else:
                    rep.refuted("LX-EDGE", fi, pair,
                                f"critical point [{sym.show(t)}, {sym.show(y)}] does not lie on bar edges: t−y = {sym.show(lo)}, "
                                f"t+y = {sym.show(hi)} (need a birth and a death of the bars in hand)")
    for c in ast.walk(f):
        if isinstance(c, ast.Call) and isinstance(c.func, ast.Attribute) and c.func.attr == "insert" and len(c.args) == 2 \
                and isinstance(c.args[1], ast.List) and len(c.args[1].elts) == 2:
            e0, e1 = c.args[1].elts
            ok = isinstance(e0, ast.Name) and e0.id in births and isinstance(e1, ast.Name) and e1.id in deaths
            if ok and cur and new_bar and (e0.id, e1.id) != (new_bar[0], cur[1]):
                rep.refuted("LX-EDGE", fi, c, f"the residual bar pushed back is [{e0.id}, {e1.id}]; after the next bar takes over, "
                                              f"what remains of the current bar is [{new_bar[0]}, {cur[1]}]")
            elif ok:
                rep.discharged("LX-EDGE", fi, c, f"residual bar [{e0.id}, {e1.id}] pushed back is [birth, death]")
            else:
                rep.refuted("LX-EDGE", fi, c, f"the residual bar pushed back, {ast.unparse(c.args[1])}, is not [birth, death]")
    rep.floor("LX-EDGE", 8)
    # ---------------- LX-INSERT: the residual bar is pushed back in (birth asc, death desc) order — when other bars share
    # its birth, the insert position moves right once per bar WITH THAT BIRTH whose death is larger; counting over any
    # other population (all later bars) puts it behind bars born later and breaks the sweep's sortedness
    from .common import enclosing_iterations
    inserts = [c for c in ast.walk(f) if isinstance(c, ast.Call) and isinstance(c.func, ast.Attribute) and c.func.attr == "insert"
               and len(c.args) == 2 and isinstance(c.args[0], ast.Name)]
    n_ins = 0
    for c in inserts:
        idx_names = {c.args[0].id}
        for _ in range(3):
            for n in ast.walk(f):
                if isinstance(n, ast.Assign) and len(n.targets) == 1 and isinstance(n.targets[0], ast.Name) \
                        and n.targets[0].id in idx_names and isinstance(n.value, ast.Name):
                    idx_names.add(n.value.id)
        incs = [n for n in ast.walk(f) if isinstance(n, ast.AugAssign) and isinstance(n.target, ast.Name)
                and n.target.id in idx_names and isinstance(n.op, ast.Add)]
        for inc in incs:
            conds = []
            # tests of enclosing ifs
            def enclosing_tests(root, node, acc):
                for ch in ast.iter_child_nodes(root):
                    if any(x is node for x in ast.walk(ch)):
                        if isinstance(root, ast.If) and ch in root.body:
                            acc.append(root.test)
                        enclosing_tests(ch, node, acc)
                        return
            enclosing_tests(f, inc, conds)
            pops = [it for _, it in enclosing_iterations(f, inc)]
            gens = [g for g in ast.walk(inc.value) if isinstance(g, ast.comprehension)]
            for g in gens:
                conds += list(g.ifs)
                pops.append(g.iter)
            # only increments governed by a comparison of deaths are tie counts
            def is_death_cmp(t):
                return any(isinstance(x, ast.Compare) and any(isinstance(y, ast.Subscript) and isinstance(y.slice, ast.Constant)
                                                               and y.slice.value == 1 for y in ast.walk(x)) for x in ast.walk(t))
            if not any(is_death_cmp(t) for t in conds):
                continue
            n_ins += 1
            pop_txt = []
            birth_eq = False
            # the element whose death is compared: `X[1]` -> X
            elems = set()
            for t in conds:
                for x in ast.walk(t):
                    if isinstance(x, ast.Compare):
                        for y in [x.left] + x.comparators:
                            if isinstance(y, ast.Subscript) and isinstance(y.slice, ast.Constant) and y.slice.value == 1:
                                elems.add(ast.unparse(y.value))

            def birth_equalities(tests, elem_texts):
                for t in tests:
                    for x in ast.walk(t):
                        if isinstance(x, ast.Compare) and len(x.ops) == 1 and isinstance(x.ops[0], ast.Eq):
                            sides = [x.left, x.comparators[0]]
                            for y in sides:
                                if isinstance(y, ast.Subscript) and isinstance(y.slice, ast.Constant) and y.slice.value == 0 \
                                        and ast.unparse(y.value) in elem_texts and any(isinstance(z, ast.Name) for z in sides):
                                    return True
                return False
            # (a) a test on the same element next to the death comparison
            if birth_equalities(conds, elems):
                birth_eq = True
            for pexp in pops:
                e = expand_locals(f, pexp)
                pop_txt.append(ast.unparse(e)[:60])
                # (b) the population is itself filtered by birth: [x for x in A if x[0] == b']
                for x in ast.walk(e):
                    if isinstance(x, (ast.ListComp, ast.GeneratorExp)) and len(x.generators) == 1 \
                            and isinstance(x.generators[0].target, ast.Name) and ast.unparse(x.elt) == x.generators[0].target.id:
                        if birth_equalities(x.generators[0].ifs, {x.generators[0].target.id}):
                            birth_eq = True
            if birth_eq:
                rep.discharged("LX-INSERT", fi, inc, "the insert position advances only past bars with the same birth and a "
                                                     "larger death: the worklist stays sorted by (birth, −death)")
            elif pops:
                rep.refuted("LX-INSERT", fi, inc,
                            f"the insert position of the residual bar advances past every bar of `{pop_txt[-1]}` with a larger "
                            f"death, whatever its birth: the bar lands behind bars born later, the worklist is no longer sorted "
                            f"by birth and a deeper landscape function starts at the wrong bar",
                            construct=f"{fi.qualname}: tie count over {norm_construct(f, pops[-1])}",
                            failing_input="[(0,2),(1,3),(1,5),(2,3)]: depth 3 is zero on (1,2) instead of a tent of height 0.5")
            else:
                rep.unmodelled("LX-INSERT", fi, inc, "population of the tie count not recognised")
    if inserts and not n_ins:
        rep.unmodelled("LX-INSERT", fi, inserts[0], "how the insert position of the residual bar handles equal births was not "
                                                    "recognised")
    # the scan for the insert position must be able to end at len(list): a bar born after every remaining bar is appended
    for c in inserts:
        lst = ast.unparse(c.func.value)
        idx_names = {c.args[0].id}
        for _ in range(3):
            for n in ast.walk(f):
                if isinstance(n, ast.Assign) and len(n.targets) == 1 and isinstance(n.targets[0], ast.Name) \
                        and n.targets[0].id in idx_names and isinstance(n.value, ast.Name):
                    idx_names.add(n.value.id)
        for wl in [n for n in ast.walk(f) if isinstance(n, ast.While)]:
            steps = [n for n in ast.walk(wl) if isinstance(n, ast.AugAssign) and isinstance(n.target, ast.Name)
                     and n.target.id in idx_names]
            if not steps:
                continue
            tests = wl.test.values if isinstance(wl.test, ast.BoolOp) and isinstance(wl.test.op, ast.And) else [wl.test]
            for t in tests:
                if isinstance(t, ast.Compare) and len(t.ops) == 1 and isinstance(t.ops[0], ast.Lt) and isinstance(t.left, ast.Name) \
                        and t.left.id in idx_names:
                    import re as _re
                    bound = ast.unparse(t.comparators[0]).replace(" ", "")
                    m_ = _re.fullmatch(r"len\((\w+)\)(-\d+)?", bound)
                    if m_ is None and isinstance(t.comparators[0], ast.Name):
                        # n = len(bars) computed before the loop
                        from .common import single_assignments
                        d_ = single_assignments(f).get(t.comparators[0].id)
                        if d_ is not None:
                            bound = ast.unparse(d_).replace(" ", "")
                            m_ = _re.fullmatch(r"len\((\w+)\)(-\d+)?", bound)
                    if m_ and m_.group(2):
                        rep.refuted("LX-INSERT", fi, wl,
                                    f"the scan for the insert position stops at `{bound}`: a residual bar born after every "
                                    f"remaining bar is inserted before the last one instead of being appended, the worklist is "
                                    f"no longer sorted by birth and the next depth starts from the wrong bar",
                                    construct=f"{fi.qualname}: insert scan bound {bound}",
                                    failing_input="[[0,6],[1,3],[4,8]]: depth 2 becomes the tent of (4,6) only")
                    elif m_:
                        rep.discharged("LX-INSERT", fi, wl, f"the scan for the insert position can run to the end of the list "
                                                            f"(`{bound}`)", nontrivial=False)
    # ---------------- LX-SCALE: comparisons between bar end-points are exact (scale-free)
    from ..core import facets
    n_cmp = 0
    for n in ast.walk(f):
        tests = []
        if isinstance(n, (ast.If, ast.While)):
            tests.append(n.test)
        elif isinstance(n, ast.comprehension):
            tests.extend(n.ifs)
        elif isinstance(n, ast.IfExp):
            tests.append(n.test)
        for t in tests:
            used = {x.id for x in ast.walk(t) if isinstance(x, ast.Name)}
            if not (used & names):
                continue
            for sub in ast.walk(t):
                is_close = isinstance(sub, ast.Call) and project.resolve(fi.module, sub.func, locs) in (
                    "numpy.isclose", "numpy.allclose", "math.isclose")
                is_cmp = isinstance(sub, ast.Compare)
                if not (is_close or is_cmp):
                    continue
                if not ({x.id for x in ast.walk(sub) if isinstance(x, ast.Name)} & names):
                    continue
                e = _lin_over_names(project, fi, sub, names)
                if e is None:
                    continue
                n_cmp += 1
                d = facets.degree(e, facets.DegDecl(syms={nm: 1 for nm in names}))
                if facets.is_top(d) and not d.reason.startswith("unmodelled"):
                    rep.refuted("LX-SCALE", fi, sub,
                                f"`{ast.unparse(sub)}` compares bar end-points with an absolute tolerance ({d.reason}): bars that "
                                f"overlap by less than the tolerance are treated as touching, so the landscape is wrong for "
                                f"diagrams at small (or, with the relative part, large) numeric scales",
                                failing_input="[[0,4e-9],[2e-9,6e-9]]")
    if n_cmp:
        rep.discharged("LX-SCALE", fi, f, f"{n_cmp} comparisons between bar end-points inspected: exact and scale-free (those not "
                                          f"reported)", nontrivial=True)
    # ---------------- LX-NOCOPY
    n_app = 0
    for c in ast.walk(f):
        if isinstance(c, ast.Call) and isinstance(c.func, ast.Attribute) and c.func.attr in ("append", "extend", "insert") \
                and isinstance(c.func.value, ast.Name) and c.args:
            n_app += 1
            holder = c.func.value.id
            a = c.args[-1]
            inner = a
            while isinstance(inner, ast.Call) and inner.args and (ast.unparse(inner.func) in ("list", "copy.copy", "copy.deepcopy")
                                                                  or (isinstance(inner.func, ast.Attribute) and inner.func.attr == "copy")):
                inner = inner.args[0] if inner.args else inner.func.value
            if isinstance(inner, ast.Subscript) and isinstance(inner.value, ast.Name) and inner.value.id == holder:
                loops = _enclosing_loops(f, c)
                hdr_nodes = ([loops[-1].target, loops[-1].iter] if loops and isinstance(loops[-1], ast.For) else
                             ([loops[-1].test] if loops else []))
                rep.refuted("LX-NOCOPY", fi, c,
                            "a depth is produced by copying another depth instead of continuing the sweep: for a repeated bar "
                            "the next landscape function is not equal to the previous one in general",
                            construct="loop " + norm_construct(f, *hdr_nodes, c),
                            failing_input="[[1,5],[1,5],[3,6]]: depth 2 is a copy of depth 1; true depth 2 is [[1,0],[3,2],[5,0]]")
    if n_app:
        rep.discharged("LX-NOCOPY", fi, f, f"{n_app} append/extend/insert sites inspected", nontrivial=False)
    # ---------------- LX-ITER
    for lp in ast.walk(f):
        if not isinstance(lp, ast.For):
            continue
        it_names = {x.id for x in ast.walk(lp.iter) if isinstance(x, ast.Name)}
        for st_i, st in enumerate(lp.body):
            for c in ast.walk(st):
                if isinstance(c, ast.Call) and isinstance(c.func, ast.Attribute) and isinstance(c.func.value, ast.Name) \
                        and c.func.value.id in it_names and c.func.attr in ("pop", "insert", "remove", "append", "extend", "clear"):
                    if not _leaves_loop_after(lp, c):
                        rep.refuted("LX-ITER", fi, c,
                                    f"`{c.func.value.id}` is structurally mutated inside a `for` that keeps iterating it: elements "
                                    f"are skipped (every other duplicate survives)",
                                    construct="loop " + norm_construct(f, lp.target, lp.iter, c),
                                    failing_input="[[1,5],[1,5],[1,5],[3,6]]: only one of two extra duplicates is removed")
                    else:
                        rep.discharged("LX-ITER", fi, c, f"mutation of `{c.func.value.id}` inside a loop over it is followed "
                                                         f"by leaving the loop at once")
    # ---------------- LX-DEG
    rep.analysed(init)
    # decided by executing the constructor symbolically (compute=False) on a two-diagram list for degree 0 and 1
    from ..core.values import Arr, Seq
    from .distances import dgm_input
    verdicts = []
    for deg in (0, 1):
        I = Interp(project, Config(nonempty={("rows", "H0"), ("rows", "H1")}, finite_inputs={"H0", "H1"}))
        dg = [dgm_input("H0"), dgm_input("H1")]
        try:
            obj = I.construct(CL, [], {"dgms": Seq(list(dg), "list"), "hom_deg": Sc(sym.Num(deg)), "compute": Sc(sym.FALSE)}, None)
            got = obj.attrs.get("dgms")
        except Exception as ex:
            got = None
        if isinstance(got, Arr) and got.ndim == 2:
            names = {x[1] for x in sym.walk(got.elem) if x[0] == "in"}
            verdicts.append((deg, names == {f"H{deg}"}, names))
        else:
            verdicts.append((deg, None, got))
    stores = [n for n in ast.walk(fn_view(project, init)) if isinstance(n, ast.Assign) and isinstance(n.targets[0], ast.Attribute)
              and n.targets[0].attr == "dgms"]
    node = stores[0] if stores else init.node
    if all(v[1] is True for v in verdicts):
        rep.discharged("LX-DEG", init, node, "the requested homological degree selects the diagram (degrees 0 and 1 of a "
                                             "two-diagram list select H0 and H1)")
    elif any(v[1] is False for v in verdicts):
        d_, _, names = [v for v in verdicts if v[1] is False][0]
        rep.refuted("LX-DEG", init, node, f"for hom_deg={d_} the constructor stores diagram(s) {sorted(names)} instead of H{d_}: "
                                          f"the diagram is not selected by the requested degree",
                    construct=f"{init.qualname}: degree selection")
    else:
        rep.unmodelled("LX-DEG", init, node, f"stored diagram not modelled: {verdicts[0][2]!r}"[:200])
    infs = [n for n in ast.walk(f) if isinstance(n, ast.If) and "inf" in ast.unparse(n.test)]
    for n in infs[:1]:
        t = n.test
        col = None
        if isinstance(t, ast.BoolOp) and isinstance(t.op, ast.And) and isinstance(t.values[-1], ast.Compare):
            t = t.values[-1]   # `A and A[-1][1] == np.inf`: guarded against the empty list
        if isinstance(t, ast.Compare) and isinstance(t.left, ast.Subscript) and isinstance(t.left.value, ast.Subscript) \
                and isinstance(t.left.slice, ast.Constant) and isinstance(t.left.slice.value, int):
            col = t.left.slice.value   # A[-1][1]
        elif isinstance(t, ast.Compare) and isinstance(t.left, ast.Subscript):
            sl = t.left.slice
            last = sl.elts[-1] if isinstance(sl, ast.Tuple) and sl.elts else sl
            col = last.value if isinstance(last, ast.Constant) and isinstance(last.value, int) else None
        # the essential class is the LAST ROW OF THE INPUT (ripser's convention): the test must look at the diagram before it
        # is re-ordered for the sweep — after the sort the last element is the latest-born bar
        sorts = [x for x in ast.walk(f) if (isinstance(x, ast.Call) and ((isinstance(x.func, ast.Name) and x.func.id == "sorted")
                 or (isinstance(x.func, ast.Attribute) and x.func.attr in ("sort", "argsort", "lexsort"))))]
        base = t.left if isinstance(t, ast.Compare) else None
        while isinstance(base, ast.Subscript):
            base = base.value
        late = False
        if col == 1 and isinstance(base, ast.Name) and sorts:
            # the name tested is (re)bound from a sort before the test, on every path to it
            from ..core.cfg import CFG
            try:
                cfg_ = CFG(f)
                nd_ = cfg_.node_of(n.test)
                rd_ = cfg_.reaching_definitions()
                defs_ = rd_.get(nd_.id, {}).get(base.id, set()) if nd_ is not None else set()
                def birth_first(s_):
                    # the sweep's order: the key's leading component is the birth (column 0) — then the last bar is the
                    # latest-born one (a sort on the death would bring an infinite bar to the end on purpose)
                    k_ = [kw.value for kw in s_.keywords if kw.arg == "key"]
                    if not k_ or not isinstance(k_[0], ast.Lambda):
                        return False
                    b_ = k_[0].body
                    lead = b_.elts[0] if isinstance(b_, (ast.List, ast.Tuple)) and b_.elts else b_
                    return isinstance(lead, ast.Subscript) and isinstance(lead.slice, ast.Constant) and lead.slice.value == 0

                def from_sort(d_):
                    a_ = cfg_.nodes[d_].ast
                    return a_ is not None and any(x is s_ and birth_first(s_) for s_ in sorts for x in ast.walk(a_))
                late = bool(defs_) and all(from_sort(d_) for d_ in defs_)
            except Exception:
                late = False
        if col == 1 and late:
            rep.refuted("LX-DEG", fi, n, f"the infinite-bar test `{ast.unparse(n.test)}` looks at the last bar AFTER the bars were sorted "
                                         f"for the sweep: that is the latest-born bar, not the trailing essential class of the input — an "
                                         f"infinite bar that is not the latest-born one stays in and the landscape gets infinite values",
                        construct=f"{fi.qualname}: infinite-bar test after the sort")
        elif col == 1:
            rep.discharged("LX-DEG", fi, n, "trailing infinite bar is detected on the death column")
        elif col == 0:
            rep.refuted("LX-DEG", fi, n, f"the infinite-bar test `{ast.unparse(t)}` does not look at the death column")
        else:
            rep.unmodelled("LX-DEG", fi, n, f"the infinite-bar test `{ast.unparse(t)}`: which column it reads was not recognised")
    # ---------------- LX-SWEEP (bounded): the sweep followed per ordering class of the end-points
    from ..core.report import Report
    from .sweep import check_sweep
    pre = Report("C03-sweep")
    st_sweep = check_sweep(project, pre, max_bars=2)
    if st_sweep == "unmodelled":
        # a sweep written in a way the evaluator cannot follow is left to the site rules above
        rep.note("LX-SWEEP could not follow the sweep: " + (pre.errors[0] if pre.errors else "")[:200])
    else:
        check_sweep(project, rep, max_bars=3, sample3=1500 if tier == "thorough" else 200)
    # LX-DTYPE: the landscape of a diagram is a function of its numbers, not of their numpy dtype — no sum / product / difference
    # of two caller arrays is formed while the operands still have the caller's integer dtype (rules/intarith_rule.py), and no
    # float is stored into an array typed by the diagram (rules/dtype_rule.py), in the module of the exact landscape
    from . import dtype_rule as _dt
    _fns = [f_ for q_, f_ in sorted(project.functions.items()) if q_.startswith("persim.landscapes.exact.") and f_.parent is None
            and isinstance(f_.node, (ast.FunctionDef, ast.AsyncFunctionDef))]
    if _fns:
        _dt.run_on(project, rep, "LX-DTYPE", _fns)
    rep.floor("LX-DTYPE", 1)
    soft = getattr(rep, "soft_rules", set())
    for rn, n in (("LX-COPY", 1), ("LX-SORT", 1), ("LX-ITER", 1), ("LX-DEG", 2), ("LX-NOCOPY", 1), ("LX-INSERT", 1),
                  ("LX-SWEEP", 0 if st_sweep == "unmodelled" else 1)):
        rep.floor(rn, 0 if rn in soft else n)
    if st_sweep == "ok":
        # the emitted points were compared with the landscape itself: how many of them the site rule recognised is no
        # longer a reason to call the analysis broken
        rep.floor("LX-EDGE", 0 if "LX-EDGE" in soft else 1)


def _leaves_loop_after(lp, call) -> bool:
    """the statement containing `call` is followed (in its block) only by statements ending in break/return"""
    def rec(body):
        for k, st in enumerate(body):
            if any(x is call for x in ast.walk(st)):
                if isinstance(st, (ast.If, ast.For, ast.While, ast.With, ast.Try)):
                    for fld in ("body", "orelse", "finalbody"):
                        sub = getattr(st, fld, None)
                        if sub and any(x is call for s in sub for x in ast.walk(s)):
                            r = rec(sub)
                            if r is not None:
                                if r:
                                    return True
                                # falls out of the inner block: look at what follows it here
                                rest = body[k + 1:]
                                return bool(rest) and isinstance(rest[-1], (ast.Break, ast.Return)) if rest else None
                    return None
                rest = body[k + 1:]
                if rest and isinstance(rest[-1], (ast.Break, ast.Return)):
                    return True
                return False if rest or True else None
        return None
    r = rec(lp.body)
    return bool(r)
