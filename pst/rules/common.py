"""Shared helpers for rule modules."""
from __future__ import annotations

import ast
from typing import Dict, Iterable, List, Optional, Tuple

from ..core.loader import AnalysisError, ClassInfo, FunctionInfo, Module, Project
from ..core.own import OwnAnalysis

_OA_CACHE: Dict[int, OwnAnalysis] = {}


def own_analysis(project: Project) -> OwnAnalysis:
    oa = _OA_CACHE.get(id(project))
    if oa is None:
        oa = OwnAnalysis(project)
        oa.all_summaries()
        _OA_CACHE[id(project)] = oa
    return oa


def public_entry_points(project: Project) -> List[FunctionInfo]:
    """Module-level functions and methods a user can reach.

    public = listed in a module's __all__, or a module-level function whose name has no leading
    underscore, or any method (including dunders and property setters) of a class whose own name
    has no leading underscore, except methods named with a single leading underscore.
    """
    out = []
    for q, fi in sorted(project.functions.items()):
        if fi.parent is not None or not isinstance(fi.node, (ast.FunctionDef, ast.AsyncFunctionDef)):
            continue
        if fi.cls is None:
            if not fi.name.startswith("_") or (fi.module.all_names and fi.name in fi.module.all_names):
                out.append(fi)
        else:
            if fi.cls.name.startswith("_"):
                continue
            if fi.name.startswith("_") and not (fi.name.startswith("__") and fi.name.endswith("__")):
                continue
            out.append(fi)
    return out


def calls_in(node: ast.AST) -> Iterable[ast.Call]:
    for n in ast.walk(node):
        if isinstance(n, ast.Call):
            yield n


def dotted(expr: ast.AST) -> Optional[str]:
    parts = []
    n = expr
    while isinstance(n, ast.Attribute):
        parts.append(n.attr)
        n = n.value
    if isinstance(n, ast.Name):
        parts.append(n.id)
        return ".".join(reversed(parts))
    return None


def local_names(fnode: ast.AST) -> set:
    """Names bound inside a function (params, assignments, loop targets, comprehension targets, imports)."""
    names = set()
    if isinstance(fnode, (ast.FunctionDef, ast.AsyncFunctionDef, ast.Lambda)):
        a = fnode.args
        for x in a.posonlyargs + a.args + a.kwonlyargs:
            names.add(x.arg)
        if a.vararg:
            names.add(a.vararg.arg)
        if a.kwarg:
            names.add(a.kwarg.arg)
    for n in ast.walk(fnode):
        if isinstance(n, ast.Name) and isinstance(n.ctx, (ast.Store, ast.Del)):
            names.add(n.id)
        elif isinstance(n, (ast.FunctionDef, ast.AsyncFunctionDef)) and n is not fnode:
            names.add(n.name)
        elif isinstance(n, ast.ExceptHandler) and n.name:
            names.add(n.name)
    return names


def resolve_call(project: Project, fi: FunctionInfo, call: ast.Call, locals_: Optional[set] = None) -> Optional[str]:
    if locals_ is None:
        locals_ = local_names(fi.node)
    return project.resolve(fi.module, call.func, locals_)


def stmts_in_order(fnode: ast.AST) -> List[ast.stmt]:
    out = []

    def rec(body):
        for st in body:
            out.append(st)
            for fld in ("body", "orelse", "finalbody"):
                sub = getattr(st, fld, None)
                if isinstance(sub, list) and sub and isinstance(sub[0], ast.stmt):
                    rec(sub)
            if isinstance(st, ast.Try):
                for h in st.handlers:
                    rec(h.body)
    rec(fnode.body)
    return out


def const_value(node: ast.AST):
    """Fold a numeric constant expression (ints, floats, + - * / **, unary -); None if not constant."""
    if isinstance(node, ast.Constant) and isinstance(node.value, (int, float)) and not isinstance(node.value, bool):
        return node.value
    if isinstance(node, ast.UnaryOp) and isinstance(node.op, (ast.USub, ast.UAdd)):
        v = const_value(node.operand)
        if v is None:
            return None
        return -v if isinstance(node.op, ast.USub) else v
    if isinstance(node, ast.BinOp):
        l, r = const_value(node.left), const_value(node.right)
        if l is None or r is None:
            return None
        try:
            if isinstance(node.op, ast.Add):
                return l + r
            if isinstance(node.op, ast.Sub):
                return l - r
            if isinstance(node.op, ast.Mult):
                return l * r
            if isinstance(node.op, ast.Div):
                return l / r
            if isinstance(node.op, ast.Pow):
                return l ** r
        except Exception:
            return None
    return None


def require(cond, msg):
    if not cond:
        raise AnalysisError(msg)


def norm_construct(fnode: ast.AST, *nodes) -> str:
    """Text of constructs with the function's local variable names replaced by positional placeholders (in order of
    first appearance), so that keys of known findings survive renaming and reformatting."""
    import copy
    locs = local_names(fnode)
    params = set()
    if isinstance(fnode, (ast.FunctionDef, ast.AsyncFunctionDef)):
        a = fnode.args
        params = {x.arg for x in a.posonlyargs + a.args + a.kwonlyargs}
    ren = {}
    out = []
    for nd in nodes:
        c = copy.deepcopy(nd)
        for x in ast.walk(c):
            if isinstance(x, ast.Name) and x.id in locs and x.id not in params:
                if x.id not in ren:
                    ren[x.id] = f"v{len(ren)}"
                x.id = ren[x.id]
        out.append(ast.unparse(c))
    return " :: ".join(out)


# --------------------------------------------------------------------------------------------------------------------
# views of a function that do not depend on how its author split it up or named temporaries
def fn_view(project: Project, fi: FunctionInfo) -> ast.AST:
    """The function's definition with private helpers inlined (see core/inline.py)."""
    from ..core.inline import inlined
    return inlined(project, fi)


def single_assignments(fnode: ast.AST) -> Dict[str, ast.expr]:
    """Local names bound exactly once, by a plain `name = <expr>` (not a parameter, loop target, augmented assignment...)."""
    stores: Dict[str, int] = {}
    rhs: Dict[str, ast.expr] = {}
    params = set()
    if isinstance(fnode, (ast.FunctionDef, ast.AsyncFunctionDef)):
        a = fnode.args
        params = {x.arg for x in a.posonlyargs + a.args + a.kwonlyargs}
        if a.vararg:
            params.add(a.vararg.arg)
        if a.kwarg:
            params.add(a.kwarg.arg)
    for n in ast.walk(fnode):
        if isinstance(n, ast.Name) and isinstance(n.ctx, (ast.Store, ast.Del)):
            stores[n.id] = stores.get(n.id, 0) + 1
        if isinstance(n, ast.Assign) and len(n.targets) == 1 and isinstance(n.targets[0], ast.Name):
            rhs[n.targets[0].id] = n.value
        elif isinstance(n, ast.Assign) and len(n.targets) == 1 and isinstance(n.targets[0], (ast.Tuple, ast.List)) \
                and isinstance(n.value, (ast.Tuple, ast.List)) and len(n.value.elts) == len(n.targets[0].elts):
            # a, b = x, y  (pairwise, when no element is starred)
            if not any(isinstance(e, ast.Starred) for e in list(n.targets[0].elts) + list(n.value.elts)):
                for t_, v_ in zip(n.targets[0].elts, n.value.elts):
                    if isinstance(t_, ast.Name):
                        rhs[t_.id] = v_
        elif isinstance(n, ast.AnnAssign) and isinstance(n.target, ast.Name) and n.value is not None:
            rhs[n.target.id] = n.value
        elif isinstance(n, ast.AugAssign) and isinstance(n.target, ast.Name):
            stores[n.target.id] = stores.get(n.target.id, 0) + 1
    return {k: v for k, v in rhs.items() if stores.get(k) == 1 and k not in params}


def expand_locals(fnode: ast.AST, expr: ast.AST, depth: int = 8, defs: Optional[Dict[str, ast.expr]] = None) -> ast.AST:
    """Copy of expr with singly-assigned local names replaced by their defining expressions (recursively)."""
    import copy
    if defs is None:
        defs = single_assignments(fnode)

    class T(ast.NodeTransformer):
        def __init__(self, d):
            self.d = d

        def visit_Name(self, n):
            if isinstance(n.ctx, ast.Load) and n.id in defs and self.d > 0:
                return T(self.d - 1).visit(copy.deepcopy(defs[n.id]))
            return n
    return T(depth).visit(copy.deepcopy(expr))


def canon_text(fnode: ast.AST, expr: ast.AST) -> str:
    """Text of expr after expanding singly-assigned locals and renaming the remaining locals positionally."""
    e = expand_locals(fnode, expr)
    return norm_construct(fnode, e)


def bind_call(callee_node: ast.AST, call: ast.Call, receiver: bool = False) -> Dict[str, ast.expr]:
    """Map the callee's parameter names to the argument expressions of this call (no star arguments)."""
    a = callee_node.args
    pos = [x.arg for x in a.posonlyargs + a.args]
    if receiver:
        pos = pos[1:]
    out: Dict[str, ast.expr] = {}
    for k, v in enumerate(call.args):
        if isinstance(v, ast.Starred):
            break
        if k < len(pos):
            out[pos[k]] = v
    for kw in call.keywords:
        if kw.arg is not None:
            out[kw.arg] = kw.value
    return out


def enclosing_iterations(fnode: ast.AST, inner: ast.AST) -> List[Tuple[ast.AST, ast.AST]]:
    """(target, iterable) of every `for` loop / comprehension generator that encloses `inner`, outermost first."""
    out: List[Tuple[ast.AST, ast.AST]] = []

    def contains(n):
        return any(x is inner for x in ast.walk(n))

    def rec(n):
        for ch in ast.iter_child_nodes(n):
            if not contains(ch):
                continue
            if isinstance(ch, ast.For):
                if any(contains(x) for x in ch.body + ch.orelse):
                    out.append((ch.target, ch.iter))
            elif isinstance(ch, (ast.ListComp, ast.SetComp, ast.GeneratorExp, ast.DictComp)):
                elts = [ch.elt] if not isinstance(ch, ast.DictComp) else [ch.key, ch.value]
                in_elt = any(contains(x) for x in elts)
                for k, g in enumerate(ch.generators):
                    later = any(contains(x) for g2 in ch.generators[k + 1:] for x in [g2.iter] + g2.ifs) or \
                        any(contains(x) for x in g.ifs)
                    if in_elt or later:
                        out.append((g.target, g.iter))
            rec(ch)
            return
    rec(fnode)
    return out


def expanded_keywords(fnode: ast.AST, call: ast.Call):
    """Keyword arguments of a call with `**d` expanded when d is a singly-assigned dict display / dict(...) call (or a
    call of a private helper returning one, once inlined). Returns (mapping name -> expression, complete?) — complete is
    False when some `**x` could not be expanded."""
    out: Dict[str, ast.expr] = {}
    complete = True
    for kw in call.keywords:
        if kw.arg is not None:
            out[kw.arg] = kw.value
            continue
        v = expand_locals(fnode, kw.value)
        if isinstance(v, ast.Dict) and all(isinstance(k, ast.Constant) and isinstance(k.value, str) for k in v.keys):
            for k, x in zip(v.keys, v.values):
                out[k.value] = x
        elif isinstance(v, ast.Call) and isinstance(v.func, ast.Name) and v.func.id == "dict" and not v.args \
                and all(k.arg is not None for k in v.keywords):
            for k in v.keywords:
                out[k.arg] = k.value
        else:
            complete = False
    return out, complete


def none_vs_truthiness(project: Project, module_prefix: str):
    """Contradicting beliefs about an 'unset' marker (Engler et al.): a parameter or `self.<attr>` that is compared with
    `None` somewhere (so None is what 'not given' looks like) and truth-tested elsewhere (`x or default`, `if not x`) —
    the truth test also treats 0 / 0.0 / empty as 'not given'. Returns [(key, none_sites, truthy_sites(fi, node))]."""
    none_tested: Dict[tuple, list] = {}
    truthy: Dict[tuple, list] = {}

    def key(fi, e):
        if isinstance(e, ast.Name):
            return (fi.qualname, e.id) if e.id in fi.params else None
        if isinstance(e, ast.Attribute) and isinstance(e.value, ast.Name) and e.value.id == "self" and fi.cls is not None:
            return (fi.cls.qualname, "self." + e.attr)
        return None
    for q, fi in sorted(project.functions.items()):
        if not q.startswith(module_prefix) or not isinstance(fi.node, ast.FunctionDef):
            continue
        # a numeric parameter whose default is None: None is its 'not given' marker by signature
        a = fi.node.args
        pos = a.posonlyargs + a.args
        dflt = dict(zip([x.arg for x in pos[len(pos) - len(a.defaults):]], a.defaults))
        dflt.update({x.arg: d for x, d in zip(a.kwonlyargs, a.kw_defaults) if d is not None})
        for x in pos + a.kwonlyargs:
            d = dflt.get(x.arg)
            ann = ast.unparse(x.annotation) if x.annotation is not None else ""
            if isinstance(d, ast.Constant) and d.value is None and any(t in ann for t in ("float", "int")) \
                    and "bool" not in ann and "list" not in ann.lower():
                none_tested.setdefault((fi.qualname, x.arg), []).append((fi, x))
        view = fn_view(project, fi)
        for n in ast.walk(view):
            if isinstance(n, ast.Compare) and len(n.ops) == 1 and isinstance(n.ops[0], (ast.Is, ast.IsNot, ast.Eq, ast.NotEq)) \
                    and isinstance(n.comparators[0], ast.Constant) and n.comparators[0].value is None:
                k = key(fi, n.left)
                if k:
                    none_tested.setdefault(k, []).append((fi, n))
            tests = []
            if isinstance(n, (ast.If, ast.While, ast.IfExp)):
                tests.append(n.test)
            if isinstance(n, ast.BoolOp):
                tests += n.values[:-1]
            if isinstance(n, ast.UnaryOp) and isinstance(n.op, ast.Not):
                tests.append(n.operand)
            for t in tests:
                while isinstance(t, ast.UnaryOp) and isinstance(t.op, ast.Not):
                    t = t.operand
                k = key(fi, t)
                if k:
                    truthy.setdefault(k, []).append((fi, t))
    return [(k, none_tested[k], truthy[k]) for k in sorted(set(none_tested) & set(truthy))], len(none_tested)


def collapse_aliases(fnode: ast.AST) -> ast.AST:
    """A copy of the function in which a local that is bound exactly once to another single-assigned local (``lbs = _tmp`` or
    pairwise ``lbs, ubs = _a, _b``) is replaced by that local everywhere: two names for one object are one name."""
    import copy
    sa = single_assignments(fnode)
    alias = {k: v.id for k, v in sa.items() if isinstance(v, ast.Name) and v.id in sa and v.id != k}
    # follow chains
    def root(n, seen=()):
        while n in alias and n not in seen:
            seen = seen + (n,)
            n = alias[n]
        return n
    if not alias:
        return fnode
    out = copy.deepcopy(fnode)

    class R(ast.NodeTransformer):
        def visit_Name(self, node):
            if node.id in alias:
                return ast.copy_location(ast.Name(id=root(node.id), ctx=node.ctx), node)
            return node
    out = R().visit(out)
    # drop the now trivial `x = x` / `x, y = x, y` statements
    class D(ast.NodeTransformer):
        def visit_Assign(self, node):
            if len(node.targets) == 1 and ast.unparse(node.targets[0]) == ast.unparse(node.value):
                return None
            return node
    out = D().visit(out)
    ast.fix_missing_locations(out)
    return out


def numerics_positive_examples():
    """the scatter and narrowing rules (expected count on persim: zero) must flag their tiny positive examples, and only
    those, on every run — AnalysisError otherwise"""
    import os
    from ..core.loader import AnalysisError, Project
    from . import narrow_rule, scatter_rule
    here = os.path.join(os.path.dirname(os.path.dirname(os.path.abspath(__file__))), "selftest", "positive")
    pp = Project(here, pkg="pospkg")
    hits, st = scatter_rule.analyse(pp, "pospkg.numerics.")
    names = sorted(h["fi"].qualname.rsplit(".", 1)[1] for h in hits)
    if names != ["pools_without_accumulating"] or st["accumulating_sites"] != 1:
        raise AnalysisError(f"positive example: the scatter rule flagged {names} (accumulating sites {st['accumulating_sites']})")
    out = dict(scatter=names)
    for entry, want in (("narrows_the_data", 1), ("narrows_only_its_table", 0)):
        h2, _ = narrow_rule.analyse(pp, "pospkg.numerics", f"pospkg.numerics.{entry}")
        if len(h2) != want:
            raise AnalysisError(f"positive example: the narrowing rule flagged {len(h2)} cast(s) in {entry}, expected {want}")
        out[entry] = len(h2)
    return out


def decorator_wrappers(project, fi):
    """[(decorator FunctionInfo, wrapper FunctionDef, name the wrapped function has inside the wrapper)] for the decorators of
    `fi` that are functions of the package of the usual shape — `def deco(func): def wrapper(*a, **k): ...; return wrapper`,
    possibly inside a factory `def factory(...): def deco(func): ...` — outermost first"""
    import ast as _ast
    out = []
    node = getattr(fi, "node", None)
    for d in getattr(node, "decorator_list", []) or []:
        head = d.func if isinstance(d, _ast.Call) else d
        tgt = project.resolve(fi.module, head, ())
        g = project.functions.get(project.canonical(tgt)) if tgt else None
        if g is None or not isinstance(g.node, _ast.FunctionDef):
            continue
        deco_node = g.node
        if isinstance(d, _ast.Call):
            inner = [x for x in deco_node.body if isinstance(x, _ast.FunctionDef)]
            rets = [x for x in deco_node.body if isinstance(x, _ast.Return) and isinstance(x.value, _ast.Name)]
            cand = [x for x in inner if rets and x.name == rets[-1].value.id]
            if not cand:
                continue
            deco_node = cand[0]
        if not deco_node.args.args:
            continue
        fname = deco_node.args.args[0].arg
        inner = [x for x in deco_node.body if isinstance(x, _ast.FunctionDef)]
        rets = [x for x in deco_node.body if isinstance(x, _ast.Return) and isinstance(x.value, _ast.Name)]
        cand = [x for x in inner if rets and x.name == rets[-1].value.id]
        if cand:
            out.append((g, cand[0], fname))
    return out
