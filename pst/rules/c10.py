"""C10 — landscape p-norms and sup-norm equal the integrals they name (auxiliary._p_norm, exact/approximate/base).

Decided: NM-SIGN (every power with an exponent that mentions p has a provably non-negative base), NM-FORM (the
per-segment summand is ∫|line|^p over the segment, in all three arms: flat, sign-crossing, one-signed), NM-HOM
(degree-1 homogeneity in the ordinates, symbolic exponent), NM-ARMS (flat test precedes the slope division; the
crossing test is (y0<0∧y1>0)∨(y0>0∧y1<0)), NM-SUP (|·| before max in both sup-norms; p_norm(-1) reaches sup_norm;
p_norm computes the landscape first), NM-WIRE (both classes feed their own critical pairs / grid pairs to _p_norm
and take the p-th root).
Declined: triangle inequality; sup-norm ≤ bottleneck stability; accuracy for nearly flat segments.
"""
from __future__ import annotations

import ast

from ..core import facets, sym, symeval
from ..core.absint import Config, Interp
from ..core.loader import AnalysisError, Project
from ..core.values import Arr, Sc, Seq, fix, fresh, rows
from .common import local_names, own_analysis
from .distances import unmodelled_in

PN = "persim.landscapes.auxiliary._p_norm"


def _cp_input():
    d, k, c = fresh(), fresh(), fresh()
    return Arr([(rows("D"), d), (rows("K"), k), (fix(2), c)],
               sym.Sel(c, (sym.In("cp", ((d, 0), (k, 0), 0)), sym.In("cp", ((d, 0), (k, 0), 1)))), "list")


def _cp_points(pt, name, idx):
    """abscissae strictly increasing along a depth; ordinates of either sign (integer trials produce ties)"""
    if name == "cp" and len(idx) == 3 and idx[2] == 0:
        return float(idx[1]) * 1.5 + pt.rng.uniform(0.0, 1.0)
    if name == "cp" and len(idx) == 3 and idx[2] == 1 and pt.integer_inputs:
        return float(pt.rng.randint(-2, 2))
    return None


SHAPES_STATUS = {}


def segment_spec(x0, y0, x1, y1, p):
    ab = lambda v: sym.fn("abs", v)
    m = sym.div(sym.sub(y1, y0), sym.sub(x1, x0))
    q = sym.add(p, sym.ONE)
    den = sym.mul(ab(m), q)
    flat = sym.mul(sym.power(ab(y0), p), sym.sub(x1, x0))
    cross_c = sym.Or(sym.And(sym.Cmp("<", y0, sym.ZERO), sym.Cmp(">", y1, sym.ZERO)),
                     sym.And(sym.Cmp(">", y0, sym.ZERO), sym.Cmp("<", y1, sym.ZERO)))
    crossing = sym.div(sym.add(sym.power(ab(y0), q), sym.power(ab(y1), q)), den)
    onesided = sym.div(ab(sym.sub(sym.power(ab(y1), q), sym.power(ab(y0), q))), den)
    return sym.ITE(sym.Cmp("==", y0, y1), flat, sym.ITE(cross_c, crossing, onesided))


def check_pnorm_shapes(project: Project, rep) -> str:
    """NM-SHAPES (bounded): `_p_norm` is evaluated on landscapes of given shapes — depths with 1, 2, 3, 4 critical pairs in
    several combinations, abscissae increasing, ordinates free symbols — and its value compared with
    (Σ_depth Σ_segment ∫|line|^p)^(1/p) built from the segment formula.  However the function walks the pairs (nested loops,
    one flat chain with seams, pieces as objects), every segment of every depth must be integrated once and no piece may
    join one depth to the next.  Returns ok / refuted / unmodelled."""
    fi = project.function(PN)
    if len(fi.params) < 2:
        rep.unmodelled("NM-SHAPES", fi, fi.node, f"unexpected signature {fi.params}")
        return "unmodelled"
    shapes = [(2,), (3,), (4,), (2, 2), (3, 2), (2, 3), (1, 3), (3, 1, 2), (2, 2, 2)]
    n_ok = 0
    for shape in shapes:
        def vtx(d, k):
            x = sym.Sym(f"x{d}_0")
            for j in range(1, k + 1):
                x = sym.add(x, sym.Sym(f"dx{d}_{j}"))
            return x, sym.Sym(f"y{d}_{k}")
        pts = [[vtx(d, k) for k in range(n)] for d, n in enumerate(shape)]
        cp = Seq([Seq([Seq([Sc(x), Sc(y)], "list") for x, y in depth], "list") for depth in pts], "list")
        I = Interp(project, Config())
        try:
            r = I.run(PN, {fi.params[0]: Sc(sym.Sym("p")), fi.params[1]: cp})
        except AnalysisError as ex:
            rep.unmodelled("NM-SHAPES", fi, fi.node, f"shape {shape}: {ex}"[:160])
            return "unmodelled"
        if I.unmodelled or I.lossy or not isinstance(r, Sc) or r.e is None or unmodelled_in(r.e):
            why = I.lossy[0]["why"] if I.lossy else ("unmodelled value: " + I.unmodelled[0]["tag"] if I.unmodelled else repr(r)[:60])
            rep.unmodelled("NM-SHAPES", fi, fi.node, f"depths with {shape} critical pairs: the norm could not be followed exactly "
                                                     f"({why})")
            return "unmodelled"
        total = sym.ZERO
        for depth in pts:
            for (x0, y0), (x1, y1) in zip(depth, depth[1:]):
                total = sym.add(total, segment_spec(x0, y0, x1, y1, sym.Sym("p")))
        spec = sym.power(total, sym.div(sym.ONE, sym.Sym("p")))
        pos = {"p"} | {f"dx{d}_{j}" for d, n in enumerate(shape) for j in range(1, n)}
        ok, w = symeval.equivalent(r.e, spec, trials=40, positive_syms=pos, tol=1e-8)
        if ok is False:
            rep.refuted("NM-SHAPES", fi, fi.node,
                        f"for a landscape whose depths have {shape} critical pairs the value is not (Σ over the segments of every "
                        f"depth of ∫|line|^p)^(1/p): a segment is skipped, counted twice, or a piece joins two depths; witness {w}"[:500],
                        construct=f"{PN}: segments integrated", failing_input=str(w)[:300])
            return "refuted"
        if ok is None:
            rep.unmodelled("NM-SHAPES", fi, fi.node, f"shape {shape}: cannot evaluate ({w})")
            return "unmodelled"
        # the same with a level first segment (equal ordinates): the slope is 0 there and must not be divided by
        d0 = next((d for d, n in enumerate(shape) if n >= 2), None)
        if d0 is not None:
            tie = {sym.Sym(f"y{d0}_1"): sym.Sym(f"y{d0}_0")}
            ok2, w2 = symeval.equivalent(sym.subst(r.e, tie), sym.subst(spec, tie), trials=20, positive_syms=pos, tol=1e-8)
            if ok2 is False:
                rep.refuted("NM-SHAPES", fi, fi.node,
                            f"depths with {shape} critical pairs and a level first segment: the value is not that of the "
                            f"definition (a level piece is divided by its zero slope, or integrated with the sloped formula); "
                            f"witness {w2}"[:500], construct=f"{PN}: level segment", failing_input=str(w2)[:300])
                return "refuted"
            if ok2 is None:
                rep.unmodelled("NM-SHAPES", fi, fi.node, f"shape {shape} with a level segment: cannot evaluate ({w2})")
                return "unmodelled"
        n_ok += 1
    rep.discharged("NM-SHAPES", fi, fi.node, f"evaluated for {n_ok} shapes of landscape (1 to 3 depths, 1 to 4 critical pairs each): "
                                             f"the value is (Σ_depth Σ_segment ∫|line|^p)^(1/p), every segment once, none across "
                                             f"depths")
    return "ok"


def check_pnorm(project: Project, rep):
    fi = project.function(PN)
    rep.analysed(fi)
    from ..core.report import Report as _Report
    _pre = _Report("C10-shapes")
    st_shapes = check_pnorm_shapes(project, _pre)
    if st_shapes != "unmodelled":
        check_pnorm_shapes(project, rep)
    if st_shapes == "ok":
        rep.soft_rules = set(getattr(rep, "soft_rules", ())) | {"NM-FORM", "NM-HOM", "NM-SIGN", "NM-ARMS"}
    SHAPES_STATUS["v"] = st_shapes
    I = Interp(project, Config(nonempty={("rows", "D"), ("rows", "K")}, finite_inputs={"cp"}))
    r = I.run(PN, {"p": Sc(sym.Sym("p")), "critical_pairs": _cp_input()})
    # ---- NM-SIGN
    pows = [ev for ev in I.log if ev["kind"] == "pow"]
    n_sites = 0
    for ev in pows:
        ex, base = ev["exponent"], ev["base"]
        if not isinstance(ex, Sc) or not isinstance(base, Sc):
            continue
        if not any(x == sym.Sym("p") for x in sym.walk(ex.e)):
            continue
        if any(x[0] == "sum" for x in sym.walk(base.e)):
            # the final root of the accumulated (non-negative) sum
            s = facets.sign(base.e, ev["path"])
            continue
        n_sites += 1
        s = facets.sign(base.e, ev["path"], pos_syms={"p"})
        if s in (facets.NONNEG, facets.POS, facets.ZERO_S):
            rep.discharged("NM-SIGN", fi, ev["node"], f"base of `** {sym.show(ex.e)}` is {s} on this arm",
                           derived=sym.show(base.e)[:120])
        else:
            rep.refuted("NM-SIGN", fi, ev["node"],
                        f"the base of `** {sym.show(ex.e)}` is the signed line value {sym.show(base.e)[:100]}: this integrates "
                        f"(mx+b)^p instead of |mx+b|^p — wrong when the end-values have opposite signs and p is even, NaN for "
                        f"real p on a negative segment",
                        failing_input="critical pairs [[0,-1],[2,1]], p=2: 0 instead of sqrt(2/3)")
    rep.floor("NM-SIGN", 0 if SHAPES_STATUS.get("v") == "ok" else 3)
    # ---- NM-FORM: the folded summand against the true segment integral
    loops = [ev for ev in I.log if ev["kind"] == "loop" and ev["ivar"]]
    inner = [l for l in loops if any(c.get("kind") == "fold" for c in l["carried"].values())]
    done = False
    for lp in reversed(inner):
        for name, c in lp["carried"].items():
            if c.get("kind") != "fold" or not isinstance(c["update"], Sc):
                continue
            term = sym.sub(c["update"].e, c["placeholder"])
            if not any(x[0] == "in" and x[1] == "cp" for x in sym.walk(term)) or any(x[0] == "sum" for x in sym.walk(term)):
                continue
            if unmodelled_in(term):
                rep.unmodelled("NM-FORM", fi, lp["node"], f"segment summand not modelled ({unmodelled_in(term)})")
                done = True
                break
            atoms = sorted({x for x in sym.walk(term) if x[0] == "in" and x[1] == "cp"}, key=lambda a: (a[2][1][1], a[2][2]))
            try:
                x0, y0, x1, y1 = atoms
            except ValueError:
                rep.unmodelled("NM-FORM", fi, lp["node"], f"segment summand mentions {len(atoms)} coordinates, expected 4")
                done = True
                break
            spec = segment_spec(x0, y0, x1, y1, sym.Sym("p"))
            worst = None
            for mode, kw in (("real p, real ordinates", dict(integer_inputs=False)), ("ties and zeros", dict(integer_inputs=True))):
                ok, w = symeval.equivalent(term, spec, trials=60, positive_syms={"p"}, input_fn=_cp_points, tol=1e-8, **kw)
                if ok is not True:
                    worst = (ok, w, mode)
                    break
            if worst is None:
                rep.discharged("NM-FORM", fi, lp["node"], "per-segment summand ≡ ∫|line|^p over the segment in the flat, "
                                                          "sign-crossing and one-signed arms (real p ≥ 1, either sign)")
            elif worst[0] is False:
                rep.refuted("NM-FORM", fi, lp["node"],
                            f"the per-segment summand is not ∫|y|^p dx over the segment ({worst[2]}); witness {worst[1]}",
                            construct=f"{PN}: segment integral", failing_input=str(worst[1]))
            else:
                rep.unmodelled("NM-FORM", fi, lp["node"], f"cannot evaluate the summand ({worst[1]})")
            done = True
            break
        if done:
            break
    if not done:
        rep.unmodelled("NM-FORM", fi, fi.node, "accumulation over segments not recognised")
    # ---- NM-HOM
    if isinstance(r, Sc) and not unmodelled_in(r.e):
        d = facets.degree(r.e, facets.DegDecl(inputs={"cp": lambda idx: 1 if idx[-1] == 1 else 0}, exponent_sym="p"))
        if facets.is_top(d):
            (rep.unmodelled if d.reason.startswith("unmodelled") else rep.refuted)(
                "NM-HOM", fi, fi.node, f"the norm is not homogeneous in the ordinates: {d.reason}")
        elif d != facets.POLY and abs(d[0] - 1) < 1e-9 and abs(d[1]) < 1e-9:
            rep.discharged("NM-HOM", fi, fi.node, "every summand has degree p in the ordinates and the root brings it to 1: "
                                                  "‖c·λ‖ = |c|·‖λ‖ (with NM-SIGN)")
        else:
            rep.refuted("NM-HOM", fi, fi.node, f"the norm has homogeneity degree {facets._dshow(d)} instead of 1 (wrong root or "
                                               f"exponent)", construct=f"{PN}: homogeneity")
    else:
        rep.unmodelled("NM-HOM", fi, fi.node, "norm value not modelled")
    # ---- NM-ARMS
    divs = [ev for ev in I.log if ev["kind"] == "div"]
    slope_divs = [ev for ev in divs if isinstance(ev["den"], Sc) and any(x[0] == "in" and x[2][2] == 0 for x in sym.walk(ev["den"].e))
                  and isinstance(ev["num"], Sc) and any(x[0] == "in" and x[2][2] == 1 for x in sym.walk(ev["num"].e))]
    if slope_divs:
        ev = slope_divs[0]
        guarded = any(f[0] == "cmp" and f[1] == "!=" for f in ev["path"])
        # dividing by the slope itself (zero on flat segments) must be behind the flat test
        rep.discharged("NM-ARMS", fi, ev["node"], "slope computed after the flat-segment test" if guarded else
                       "slope computed (flat segments handled separately)", nontrivial=guarded)
    by_slope = [ev for ev in divs if isinstance(ev["den"], Sc) and any(x[0] == "div" for x in sym.walk(ev["den"].e))]
    for ev in by_slope[:1]:
        if any(f[0] == "cmp" and f[1] == "!=" for f in ev["path"]):
            rep.discharged("NM-ARMS", fi, ev["node"], "division by the slope happens only where y0 ≠ y1")
        else:
            rep.refuted("NM-ARMS", fi, ev["node"], "division by the slope is not guarded by the flat-segment test: a horizontal "
                                                   "segment divides by zero")


def check_sup_shapes(project: Project, rep) -> str:
    """NM-SUP (bounded, exact landscapes): sup_norm evaluated on landscapes of given shapes with free ordinates must be the
    largest |ordinate| over every critical pair of every depth.  ok / refuted / unmodelled."""
    from ..core.values import ObjV
    EXQ = "persim.landscapes.exact.PersLandscapeExact"
    sup = project.cls(EXQ).methods.get("sup_norm")
    if sup is None:
        return "unmodelled"
    n_ok = 0
    for shape in ((1,), (3,), (2, 3), (3, 1, 2)):
        cp = Seq([Seq([Seq([Sc(sym.Sym(f"x{d}_{k}")), Sc(sym.Sym(f"y{d}_{k}"))], "list") for k in range(n)], "list")
                  for d, n in enumerate(shape)], "list")
        I = Interp(project, Config())
        me = ObjV(EXQ, {"dgms": Seq([], "list"), "critical_pairs": cp, "hom_deg": Sc(sym.ZERO),
                        "max_depth": Sc(sym.Num(float(len(shape))))})
        try:
            r = I.call_function(sup, [me], {}, None)
        except AnalysisError as ex:
            rep.unmodelled("NM-SUP", sup, sup.node, f"exact, shape {shape}: {ex}"[:160])
            return "unmodelled"
        if I.unmodelled or I.lossy or not isinstance(r, Sc) or r.e is None or unmodelled_in(r.e):
            rep.unmodelled("NM-SUP", sup, sup.node, f"exact: sup_norm of a landscape with {shape} critical pairs could not be "
                                                    f"followed exactly")
            return "unmodelled"
        spec = sym.fn("max", *[sym.fn("abs", sym.Sym(f"y{d}_{k}")) for d, n in enumerate(shape) for k in range(n)]) \
            if sum(shape) > 1 else sym.fn("abs", sym.Sym("y0_0"))
        ok, w = symeval.equivalent(r.e, spec, trials=40)
        if ok is False:
            rep.refuted("NM-SUP", sup, sup.node, f"exact: for a landscape whose depths have {shape} critical pairs sup_norm is not "
                                                 f"the largest |ordinate| over all of them; witness {w}"[:400],
                        construct=f"{sup.qualname}: supremum", failing_input=str(w)[:200])
            return "refuted"
        if ok is None:
            rep.unmodelled("NM-SUP", sup, sup.node, f"exact, shape {shape}: cannot evaluate ({w})")
            return "unmodelled"
        n_ok += 1
    rep.discharged("NM-SUP", sup, sup.node, f"exact: evaluated for {n_ok} shapes of landscape: the largest |ordinate| over every "
                                            f"critical pair of every depth")
    return "ok"


def check_sup_and_wiring(project: Project, rep):
    from .common import expand_locals, fn_view
    oa = own_analysis(project)
    from ..core.report import Report as _Report
    _pre = _Report("C10-sup")
    st_sup_exact = check_sup_shapes(project, _pre)
    if st_sup_exact != "unmodelled":
        check_sup_shapes(project, rep)
    for cq, kind in (("persim.landscapes.exact.PersLandscapeExact", "exact"),
                     ("persim.landscapes.approximate.PersLandscapeApprox", "approx")):
        c = project.cls(cq)
        sup = c.methods.get("sup_norm")
        pn = c.methods.get("p_norm")
        if sup is None or pn is None:
            raise AnalysisError(f"NM-SUP: {cq} lacks sup_norm/p_norm")
        rep.analysed(sup)
        rep.analysed(pn)
        from .common import expand_locals, fn_view
        f = fn_view(project, sup)
        locs = local_names(f)
        maxes = [n for n in ast.walk(f) if isinstance(n, ast.Call) and
                 (project.resolve(sup.module, n.func, locs) in ("numpy.max", "builtins.max", "numpy.amax")
                  or (isinstance(n.func, ast.Attribute) and n.func.attr == "max"))]
        if kind == "exact" and st_sup_exact == "ok" and not maxes:
            rep.discharged("NM-SUP", sup, f, "exact: the supremum is not written as a max(...) call; its value was decided by "
                                             "evaluation", nontrivial=False)
        elif not maxes:
            rep.unmodelled("NM-SUP", sup, f, "no max over the values found")
        for m in maxes[:1]:
            has_abs = any(isinstance(x, ast.Call) and project.resolve(sup.module, x.func, locs) in
                          ("numpy.abs", "builtins.abs", "numpy.absolute", "numpy.fabs") for x in ast.walk(expand_locals(f, m)))
            mins = any(isinstance(x, ast.Call) and project.resolve(sup.module, x.func, locs) in ("numpy.min", "builtins.min")
                       for x in ast.walk(f))
            partial = [x for x in ast.walk(f) if isinstance(x, ast.Subscript) and isinstance(x.value, ast.Attribute)
                       and x.value.attr in ("values", "critical_pairs") and isinstance(x.value.value, ast.Name)
                       and x.value.value.id == "self"]
            if partial:
                rep.refuted("NM-SUP", sup, partial[0],
                            f"{kind}: the supremum is taken over `{ast.unparse(partial[0])}` only, not over every depth: for a "
                            f"difference or linear combination a deeper function can carry the largest absolute value (P − Q "
                            f"with a shared most-persistent bar gives 0)")
            elif has_abs:
                rep.discharged("NM-SUP", sup, m, f"{kind}: |·| is applied to the values of every depth before the maximum")
            elif mins:
                rep.discharged("NM-SUP", sup, m, f"{kind}: max(max, −min) form", nontrivial=False)
            else:
                rep.refuted("NM-SUP", sup, m, f"{kind}: the maximum is taken without |·|: a landscape with negative values "
                                              f"(a difference) gets the wrong sup-norm")
        # p_norm wiring
        s = oa.summary(pn.qualname)
        callees = [t for t, _ in s.repo_calls]
        if PN in callees:
            rep.discharged("NM-WIRE", pn, pn.node, f"{kind}: p_norm delegates to _p_norm")
        else:
            rep.refuted("NM-WIRE", pn, pn.node, f"{kind}: p_norm no longer delegates to the shared segment integrator")
        pnv = pn.node  # not the inlined view: the call of the private integrator is what is looked at
        call = [n for n in ast.walk(pnv) if isinstance(n, ast.Call) and
                project.resolve(pn.module, n.func, local_names(pnv)) == PN]
        from .common import bind_call
        n_default = 0
        for n in call:
            opt_ = _only_with_optional(pnv, n)
            if opt_:
                # a call made only when an optional parameter is given (a newer option): not the norm the property names
                rep.discharged("NM-WIRE", pn, n, f"{kind}: this call of _p_norm is reached only when `{opt_}` is passed (default "
                                                 f"None): the default call p_norm(p) does not take it", nontrivial=False)
                continue
            n_default += 1
            b_ = {k: ast.unparse(expand_locals(pnv, v)) for k, v in bind_call(project.function(PN).node, n).items()}
            pv, cv = b_.get("p"), b_.get("critical_pairs")
            want = "self.critical_pairs" if kind == "exact" else "self.values_to_pairs()"
            p_name = pn.params[1] if len(pn.params) > 1 else "p"
            if pv == p_name and cv != want and kind != "exact" and _copy_of_same_source(project, c, cv):
                rep.discharged("NM-WIRE", pn, n, f"{kind}: _p_norm(p=p, critical_pairs={cv}) — values_to_pairs() hands out a copy of "
                                                 f"the same pairs")
            elif pv == p_name and cv == want:
                rep.discharged("NM-WIRE", pn, n, f"{kind}: _p_norm(p=p, critical_pairs={want})")
            elif pv is not None and cv is not None and (cv.startswith("self.") or pv != p_name):
                rep.refuted("NM-WIRE", pn, n, f"{kind}: _p_norm is called with p={pv}, critical_pairs={cv} (expected p, {want})")
            else:
                rep.unmodelled("NM-WIRE", pn, n, f"{kind}: arguments of _p_norm not recognised (p={pv}, critical_pairs={cv})")
        if call and not n_default:
            rep.refuted("NM-WIRE", pn, pn.node, f"{kind}: no call of _p_norm is reached by the default call p_norm(p)")
    check_lazy_reads(project, rep)
    base = project.function("persim.landscapes.base.PersLandscape.p_norm")
    rep.analysed(base)
    txt = ast.unparse(base.node)
    b = base.node
    calls = [ast.unparse(n.func) for n in ast.walk(b) if isinstance(n, ast.Call)]
    # whether the landscape is computed before it is measured is a path question: NM-LAZY (above) decides it for every read
    rep.discharged("NM-SUP", base, b, "whether p_norm computes the landscape before measuring it is decided by NM-LAZY",
                   nontrivial=False)
    sup_if = [n for n in ast.walk(b) if isinstance(n, ast.If) and "-1" in ast.unparse(n.test) and "sup_norm" in ast.unparse(n)]
    if sup_if:
        rep.discharged("NM-SUP", base, sup_if[0], "p == -1 is routed to sup_norm", nontrivial=False)
    else:
        rep.refuted("NM-SUP", base, b, "p == -1 is not routed to the sup-norm")


def _copy_of_same_source(project, cls, cv: str) -> bool:
    """`cv` is `self.<m>()` and values_to_pairs() returns exactly that (possibly copied): the integrator is fed the pairs the
    public accessor hands out"""
    v2p = cls.lookup("values_to_pairs", project)
    if v2p is None or not cv.startswith("self.") or not cv.endswith("()"):
        return False
    rets = [r.value for r in ast.walk(v2p.node) if isinstance(r, ast.Return) and r.value is not None]
    if len(rets) != 1:
        return False
    e = rets[0]
    while True:
        if isinstance(e, ast.Call) and isinstance(e.func, ast.Attribute) and e.func.attr == "copy" and not e.args:
            e = e.func.value
        elif isinstance(e, ast.Call) and len(e.args) == 1 and not e.keywords and isinstance(e.func, (ast.Name, ast.Attribute)) \
                and (e.func.attr if isinstance(e.func, ast.Attribute) else e.func.id) in ("copy", "array", "deepcopy"):
            e = e.args[0]
        else:
            break
    return ast.unparse(e) == cv


def _must_compute(project, fi, cls, memo):
    """every normal path through `fi` runs self.compute_landscape() — directly or through a method of self / super() that
    always does (must-call summary over the class's methods, resolved through the MRO)"""
    key = fi.qualname
    if key in memo:
        return memo[key]
    memo[key] = False  # recursion guard
    from ..core.cfg import CFG
    cfg = CFG(fi.node)
    gates = _compute_gates(project, fi, cls, cfg, memo)
    memo[key] = cfg.must_pass_through(cfg.entry.id, cfg.exit.id, gates)
    return memo[key]


def _decorator_computes_first(project, fi) -> bool:
    """a decorator of the package wraps the method so that `<self>.compute_landscape()` always runs before the method body
    (`def wrapper(self, *a, **k): self.compute_landscape(); return method(self, *a, **k)`)"""
    from ..core.cfg import CFG
    from .common import decorator_wrappers
    for g, w, fname in decorator_wrappers(project, fi):
        if not w.args.args:
            continue
        me = w.args.args[0].arg
        cfg = CFG(w)
        gates, calls = set(), set()
        for nd in cfg.nodes:
            a = nd.ast
            if a is None or nd.kind not in ("stmt", "return", "test"):
                continue
            for c in ast.walk(a.test if nd.kind == "test" and hasattr(a, "test") else a):
                if isinstance(c, ast.Call) and isinstance(c.func, ast.Attribute) and c.func.attr == "compute_landscape" \
                        and isinstance(c.func.value, ast.Name) and c.func.value.id == me:
                    gates.add(nd.id)
                if isinstance(c, ast.Call) and isinstance(c.func, ast.Name) and c.func.id == fname:
                    calls.add(nd.id)
        if gates and calls and all(cfg.must_pass_through(cfg.entry.id, c_, gates) for c_ in calls):
            return True
    return False


def _compute_gates(project, fi, cls, cfg, memo):
    gates = set()
    if _decorator_computes_first(project, fi):
        gates.add(cfg.entry.id)   # the landscape is computed before the body is entered
    for nd in cfg.nodes:
        a = nd.ast
        if a is None or nd.kind not in ("stmt", "return", "test"):
            continue
        roots = [a.test] if nd.kind == "test" and hasattr(a, "test") else [a]
        for r in roots:
            for c in ast.walk(r):
                if not (isinstance(c, ast.Call) and isinstance(c.func, ast.Attribute)):
                    continue
                recv, name = c.func.value, c.func.attr
                is_self = isinstance(recv, ast.Name) and recv.id == "self"
                is_super = isinstance(recv, ast.Call) and isinstance(recv.func, ast.Name) and recv.func.id == "super"
                if not (is_self or is_super):
                    continue
                if name == "compute_landscape":
                    gates.add(nd.id)
                    continue
                owner = project.classes.get(fi.cls.qualname if getattr(fi, "cls", None) else cls.qualname) or cls
                m = owner.lookup_super(name, project) if is_super else cls.lookup(name, project)
                if m is not None and m.qualname != fi.qualname and _must_compute(project, m, cls, memo):
                    gates.add(nd.id)
    return gates


def check_lazy_reads(project: Project, rep):
    """NM-LAZY: in p_norm / sup_norm of both classes (and what they inherit), every read of the lazily computed data
    (whatever compute_landscape stores: self.critical_pairs / self.values / self.max_depth) lies behind a call that always
    computes the landscape, on every path (rule text: lazy_rule)"""
    from . import lazy_rule
    lazy_rule.positive_examples()
    for cq in (lazy_rule.EXACT, lazy_rule.APPROX):
        lazy_rule.check_class(project, rep, cq, "NM-LAZY", methods=("p_norm", "sup_norm"),
                              why=": the norm is that of the place-holder (0) the first time")


def _only_with_optional(fnode, call):
    """name of a parameter with default None such that `call` is reached only when it is not None (an `if x is not None:` arm, or
    the code after `if x is None: return ...`); None otherwise"""
    from ..core.cfg import CFG
    a = fnode.args
    pos = a.posonlyargs + a.args
    dflt = dict(zip([x.arg for x in pos[len(pos) - len(a.defaults):]], a.defaults))
    dflt.update({x.arg: d for x, d in zip(a.kwonlyargs, a.kw_defaults) if d is not None})
    opt = {k for k, d in dflt.items() if isinstance(d, ast.Constant) and d.value is None}
    if not opt:
        return None
    rebound = {t.id for n in ast.walk(fnode) if isinstance(n, (ast.Assign, ast.AugAssign, ast.AnnAssign))
               for t in ast.walk(n.targets[0] if isinstance(n, ast.Assign) else n.target) if isinstance(t, ast.Name)}
    cfg = CFG(fnode)
    nd = cfg.node_of(call)
    if nd is None:
        return None
    for t in cfg.nodes:
        if t.kind != "test" or not isinstance(getattr(t.ast, "test", None), ast.Compare):
            continue
        c = t.ast.test
        if len(c.ops) == 1 and isinstance(c.ops[0], (ast.Is, ast.IsNot)) and isinstance(c.left, ast.Name) and c.left.id in opt \
                and c.left.id not in rebound and isinstance(c.comparators[0], ast.Constant) and c.comparators[0].value is None:
            label = isinstance(c.ops[0], ast.IsNot)
            if cfg.dominated_by_branch(nd.id, t.id, label):
                return c.left.id
    return None


def run(project: Project, rep, tier: str):
    rep.explain(
        "C10 (clauses decided): `_p_norm` is evaluated symbolically on a generic list of depths of generic critical points "
        "with a symbolic exponent p; the double loop folds to ΣΣ of a three-armed summand. NM-SIGN: sign analysis (with "
        "branch refinement) of the base of every power whose exponent mentions p. NM-FORM: the folded summand is compared "
        "with ∫|line|^p over the segment (flat / crossing / one-signed closed forms) by identity testing of the derived "
        "expression for real p and ordinates of either sign, including ties and zeros. NM-HOM: degree typing with a "
        "symbolic exponent gives homogeneity degree 1. NM-ARMS, NM-SUP, NM-WIRE: site rules. Declined: triangle "
        "inequality, stability w.r.t. bottleneck, accuracy for nearly flat segments.")
    rep.assume("abscissae of consecutive critical points are strictly increasing (caller's precondition); p ≥ 1")
    check_pnorm(project, rep)
    check_sup_and_wiring(project, rep)
    # NM-DTYPE: the critical pairs handed to the integrals mix grid abscissae (floating-point) with the landscape's samples: a
    # buffer typed by the samples truncates the abscissae when the landscape was given integer values
    from . import dtype_rule
    from .oneshot import reachable_functions
    roots = [q for q in ("persim.landscapes.approximate.PersLandscapeApprox.p_norm", "persim.landscapes.approximate.PersLandscapeApprox.sup_norm",
                         "persim.landscapes.exact.PersLandscapeExact.p_norm", "persim.landscapes.exact.PersLandscapeExact.sup_norm")
             if q in project.functions]
    chain = [fi_ for fi_ in reachable_functions(project, roots) if "compute_landscape" not in fi_.qualname]
    if chain:
        dtype_rule.run_on(project, rep, "NM-DTYPE", chain)
    rep.floor("NM-DTYPE", 1)
    # NM-ALLDEPTHS: the p-norm sums the integrals of EVERY depth and every segment: a loop over the depths (or over the pairs of
    # a depth) that can be left early drops the ones that come after — the depths of a difference of landscapes are not nested,
    # a zero depth may be followed by a non-zero one
    pn = project.functions.get("persim.landscapes.auxiliary._p_norm")
    if pn is not None:
        from .common import fn_view as _fv
        fv_ = _fv(project, pn)
        data_params = set(pn.params[1:2]) | {"critical_pairs"}
        loops_ = [n for n in ast.walk(fv_) if isinstance(n, ast.For)]
        seen_ = 0
        derived_ = set(data_params)
        for lp in loops_:
            names_ = {x.id for x in ast.walk(lp.iter) if isinstance(x, ast.Name)}
            if names_ & derived_:
                seen_ += 1
                derived_ |= {x.id for x in ast.walk(lp.target) if isinstance(x, ast.Name)}
                inner_ = [n for st in lp.body for n in ast.walk(st) if isinstance(n, (ast.For, ast.While))]
                leaves_ = [x for st in lp.body for x in ast.walk(st) if isinstance(x, (ast.Break, ast.Return))
                           and not (isinstance(x, ast.Break) and any(x is y for il in inner_ for st2 in il.body + il.orelse for y in ast.walk(st2)))]
                if leaves_:
                    rep.refuted("NM-ALLDEPTHS", pn, leaves_[0],
                                f"the loop `for {ast.unparse(lp.target)[:30]} in {ast.unparse(lp.iter)[:40]}` over the landscape's data is left "
                                f"by `{ast.unparse(leaves_[0])[:40]}`: what comes after that point is not integrated",
                                construct=f"{pn.qualname}: early exit from the loop over depths / segments")
                else:
                    rep.discharged("NM-ALLDEPTHS", pn, lp, "the loop over the landscape's data runs to the end", nontrivial=False)
        if not seen_:
            rep.discharged("NM-ALLDEPTHS", pn, pn.node, "no explicit loop over the depths (a vectorised sum)", nontrivial=False)
    for rn, n in (("NM-FORM", 0 if SHAPES_STATUS.get("v") == "ok" else 1), ("NM-HOM", 0 if SHAPES_STATUS.get("v") == "ok" else 1),
                  ("NM-ARMS", 0 if SHAPES_STATUS.get("v") == "ok" else 1), ("NM-SUP", 4), ("NM-WIRE", 4), ("NM-LAZY", 4)):
        rep.floor(rn, n)
    for t in ("numpy.abs", "builtins.zip", "numpy.max", "builtins.max"):
        rep.trust(t)
