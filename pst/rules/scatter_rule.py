"""NP-SCATTER — contributions scattered through an index array with repeats must accumulate.

`a[idx] += v` (and -=, *=, ...) with an index *array* is evaluated by numpy as `a[idx] = a[idx] + v`: when `idx` holds a
position more than once only ONE of the contributions for that position survives.  Code that pools values by group —
weights of coincident points, multiplicities of the distinct rows of a diagram — needs `np.add.at(a, idx, v)` (or
`np.bincount(idx, weights=v)`).  The inverse index returned by `np.unique(..., return_inverse=True)` holds a position once
per member of the group by construction: it repeats exactly when the input has coincident rows, which is the case the
grouping exists for.

Reported: an augmented assignment `A[I] op= V` in which I is (a slice / reshape / ravel of) the inverse index of an
`np.unique(..., return_inverse=True)` call in the same function.  `np.add.at`, `np.subtract.at` and `np.bincount` on the
same index are counted as accumulating sites (evidence).
"""
from __future__ import annotations

import ast
from typing import List, Tuple

from ..core.loader import FunctionInfo, Project
from .common import local_names


def _root_name(e):
    while True:
        if isinstance(e, ast.Subscript):
            e = e.value
        elif isinstance(e, ast.Call) and isinstance(e.func, ast.Attribute) and e.func.attr in ("reshape", "ravel", "flatten", "astype", "copy"):
            e = e.func.value
        elif isinstance(e, ast.Call) and e.args and isinstance(e.func, (ast.Attribute, ast.Name)) \
                and (e.func.attr if isinstance(e.func, ast.Attribute) else e.func.id) in ("reshape", "ravel", "asarray", "array", "squeeze"):
            e = e.args[0]
        else:
            break
    return e.id if isinstance(e, ast.Name) else None


def analyse(project: Project, prefix: str) -> Tuple[List[dict], dict]:
    hits, n_fn, n_inv, n_acc = [], 0, 0, 0
    for q, fi in sorted(project.functions.items()):
        if not q.startswith(prefix) or not isinstance(fi.node, (ast.FunctionDef, ast.AsyncFunctionDef)):
            continue
        n_fn += 1
        locs = local_names(fi.node)
        inverse = set()
        for n in ast.walk(fi.node):
            if isinstance(n, ast.Assign) and isinstance(n.value, ast.Call) \
                    and project.resolve(fi.module, n.value.func, locs) == "numpy.unique":
                kws = {k.arg: k.value for k in n.value.keywords}
                ri = kws.get("return_inverse")
                if not (isinstance(ri, ast.Constant) and ri.value is True):
                    continue
                order = [k for k in ("return_index", "return_inverse", "return_counts")
                         if isinstance(kws.get(k), ast.Constant) and kws[k].value is True]
                pos = 1 + order.index("return_inverse")
                t = n.targets[0]
                if isinstance(t, (ast.Tuple, ast.List)) and len(t.elts) > pos and isinstance(t.elts[pos], ast.Name):
                    inverse.add(t.elts[pos].id)
        # names re-bound from an inverse index (reshape / slices) are inverse indices too
        for _ in range(3):
            for n in ast.walk(fi.node):
                if isinstance(n, ast.Assign) and len(n.targets) == 1 and isinstance(n.targets[0], ast.Name) \
                        and _root_name(n.value) in inverse:
                    inverse.add(n.targets[0].id)
        n_inv += len(inverse)
        if not inverse:
            continue
        for n in ast.walk(fi.node):
            if isinstance(n, ast.AugAssign) and isinstance(n.target, ast.Subscript):
                sl = n.target.slice
                items = sl.elts if isinstance(sl, ast.Tuple) else [sl]
                if any(_root_name(x) in inverse for x in items if not isinstance(x, ast.Slice)):
                    hits.append(dict(fi=fi, node=n, why=f"`{ast.unparse(n)[:90]}` adds through the inverse index of np.unique: a "
                                                        f"position that occurs k times in it receives one contribution, not k"))
            elif isinstance(n, ast.Call):
                t = project.resolve(fi.module, n.func, locs) or ""
                if (t.endswith(".at") and t.startswith("numpy.")) or t == "numpy.bincount":
                    args = list(n.args) + [k.value for k in n.keywords]
                    if any(_root_name(a) in inverse for a in args):
                        n_acc += 1
    return hits, dict(functions=n_fn, inverse_indices=n_inv, accumulating_sites=n_acc)
