"""LZ-READ — lazily computed attributes are read only once they have been computed.

The two landscape classes compute their data on demand: `compute_landscape` stores a set of attributes of `self` (found here
from its stores, not from a table) behind an 'already computed' test on one of them (the marker).  A landscape built with
`compute=False` holds place-holders in all of them until something triggers the computation, so a method that reads any of
them — the marker or not — before the computation answers from the place-holder the first time and from the data afterwards:
the same call gives two different results depending on what ran before.

Rule (per method, on its CFG).  A read of `<recv>.<lazy attr>` must be *behind the computation* on every path from the entry:

    gates            statements that always compute: `<recv>.compute_landscape()`, a method of self / super() that always does
                     (must-call summary through the MRO), a decorator of the package that computes before the body
    computed edges   the 'computed' edge of a test on the marker (`if self.critical_pairs:`, `if not self.values.size:`,
                     `len(...) > 0` …): the data is known to be there on that edge

    a read is fine   when every path from the entry to it crosses a gate or a computed edge; the marker test itself, and
                     `bool(<marker>)` / `not <marker>`, are queries of the state and fine anywhere
    and              from the not-computed edge of a marker test the method may only leave through a gate — otherwise it
                     answers from the not-computed state

A private helper of the class that reads lazily computed data from its entry counts as a read at its call sites.
Marker tests of a shape that is not recognised give no verdict (undecided), never a refutation.
"""
from __future__ import annotations

import ast
from typing import Dict, List, Optional, Set, Tuple

from ..core.cfg import CFG

EXACT = "persim.landscapes.exact.PersLandscapeExact"
APPROX = "persim.landscapes.approximate.PersLandscapeApprox"
SKIP = ("__init__", "compute_landscape", "__repr__", "__str__")


def _self_attr(x, recv) -> Optional[str]:
    if isinstance(x, ast.Attribute) and isinstance(x.value, ast.Name) and x.value.id == recv:
        return x.attr
    return None


def lazy_attrs(project, cls) -> Tuple[Set[str], Set[str]]:
    """(attributes of self stored by compute_landscape, the ones its 'already computed' exit tests)"""
    from .common import decorator_wrappers
    fi = cls.lookup("compute_landscape", project)
    if fi is None:
        return set(), set()
    me = fi.node.args.args[0].arg if fi.node.args.args else "self"
    stored = set()
    for n in ast.walk(fi.node):
        tg = []
        if isinstance(n, ast.Assign):
            tg = [t for t0 in n.targets for t in (t0.elts if isinstance(t0, (ast.Tuple, ast.List)) else [t0])]
        elif isinstance(n, (ast.AugAssign, ast.AnnAssign)):
            tg = [n.target]
        for t in tg:
            a = _self_attr(t, me)
            if a:
                stored.add(a)
    marker = set()
    bodies = [(fi.node, me)] + [(w, w.args.args[0].arg) for _, w, _ in decorator_wrappers(project, fi) if w.args.args]
    for node, who in bodies:
        for n in ast.walk(node):
            if isinstance(n, ast.If) and any(isinstance(s, ast.Return) for s in n.body):
                got = {_self_attr(x, who) for x in ast.walk(n.test)} & stored
                if got:
                    marker |= got
    return stored, marker


def marker_properties(project, cls, marker) -> Dict[str, bool]:
    """properties of the class that only answer 'is it computed?': `return bool(self.values.size)` — name -> the truth value
    that means computed"""
    out = {}
    for c in cls.mro(project):
        for name, m in c.methods.items():
            if m.kind != "property" or name in out or not m.node.args.args:
                continue
            body = [st for st in m.node.body if not (isinstance(st, ast.Expr) and isinstance(st.value, ast.Constant))]
            if len(body) == 1 and isinstance(body[0], ast.Return) and body[0].value is not None:
                pol = _polarity(body[0].value, m.node.args.args[0].arg, marker)
                if pol is not None:
                    out[name] = pol
    return out


def _polarity(test, recv, marker, mprops=None) -> Optional[bool]:
    """label of the edge on which the data is known to be computed, for a test that asks only about the marker; None when the
    test is not of a recognised shape"""
    flip = False
    e = test
    while isinstance(e, ast.UnaryOp) and isinstance(e.op, ast.Not):
        flip = not flip
        e = e.operand

    def fill(x) -> bool:
        """x is truthy exactly when the marker holds data"""
        if _self_attr(x, recv) in marker:
            return True
        if isinstance(x, ast.Attribute) and x.attr == "size" and _self_attr(x.value, recv) in marker:
            return True
        if isinstance(x, ast.Call) and isinstance(x.func, ast.Name) and x.func.id in ("len", "bool") and len(x.args) == 1 \
                and not x.keywords and (_self_attr(x.args[0], recv) in marker or fill(x.args[0])):
            return True
        return False

    if mprops and _self_attr(e, recv) in mprops:
        return mprops[_self_attr(e, recv)] != flip
    if fill(e):
        return not flip
    if isinstance(e, ast.Compare) and len(e.ops) == 1 and fill(e.left) and isinstance(e.comparators[0], ast.Constant) \
            and e.comparators[0].value == 0 and not isinstance(e.comparators[0].value, bool):
        if isinstance(e.ops[0], (ast.Gt, ast.NotEq)):
            return not flip
        if isinstance(e.ops[0], ast.Eq):
            return flip
    return None


def _roots(nd):
    a = nd.ast
    if a is None or nd.kind not in ("stmt", "return", "test", "for"):
        return []
    if nd.kind == "test" and hasattr(a, "test"):
        return [a.test]
    if nd.kind == "for":
        return [a.iter]
    if isinstance(a, (ast.With, ast.AsyncWith)):
        return [i.context_expr for i in a.items]
    if isinstance(a, ast.ExceptHandler):
        return [a.type] if a.type is not None else []
    if isinstance(a, ast.Try):
        return []
    return [a]


def _state_query(x, parents) -> bool:
    """the read is `bool(<attr>)` / `not <attr>`: asks whether there is data, does not use it"""
    p = parents.get(id(x))
    while (isinstance(p, ast.Attribute) and p.attr == "size") or (
            isinstance(p, ast.Call) and isinstance(p.func, ast.Name) and p.func.id == "len" and p.args and p.args[0] is x):
        x = p
        p = parents.get(id(x))
    if isinstance(p, ast.UnaryOp) and isinstance(p.op, ast.Not):
        return True
    if isinstance(p, ast.Call) and isinstance(p.func, ast.Name) and p.func.id == "bool" and p.args and p.args[0] is x:
        return True
    return False


def _marker_tests(cfg, recv, stored, marker, mprops):
    """{test node id: label of its computed edge} and the tests on the marker that could not be classified"""
    computed_edge, unclear = {}, []
    for nd in cfg.nodes:
        if nd.kind != "test" or not hasattr(nd.ast, "test"):
            continue
        t = nd.ast.test
        got = {_self_attr(x, recv) for x in ast.walk(t)} - {None}
        if not ((got & stored) or (got & set(mprops or ()))):
            continue
        if (got & stored) - marker:
            continue
        other_names = {x.id for x in ast.walk(t) if isinstance(x, ast.Name)} - {recv, "len", "bool"}
        pol = None if other_names else _polarity(t, recv, marker, mprops)
        if pol is None:
            unclear.append(nd)
        else:
            computed_edge[nd.id] = pol
    return computed_edge, unclear


def ensures(project, cls, m, stored, marker, memo) -> bool:
    """every normal path through the method leaves with the landscape computed: it runs compute_landscape() (directly, or
    through a method of self / super() that ensures it) or takes the computed edge of a test on the marker"""
    key = ("ensures", m.qualname)
    if key in memo:
        return memo[key]
    memo[key] = False
    cfg = CFG(m.node)
    me = m.node.args.args[0].arg if m.node.args.args else "self"
    g = self_gates(project, cls, m, cfg, stored, marker, memo)
    ce, _ = _marker_tests(cfg, me, stored, marker, marker_properties(project, cls, marker))
    if cfg.entry.id in g:
        memo[key] = True
        return True

    def filt(x, t, lab):
        return not (x in ce and lab == ce[x])
    reach = cfg.reachable_from(cfg.entry.id, avoid=set(g), edge_filter=filt)
    memo[key] = cfg.exit.id not in reach or cfg.exit.id in g
    return memo[key]


def self_gates(project, cls, m, cfg, stored, marker, memo) -> Set[int]:
    """statements of `m` after which the landscape of self is computed"""
    from .c10 import _decorator_computes_first
    gates = set()
    if _decorator_computes_first(project, m):
        gates.add(cfg.entry.id)
    me = m.node.args.args[0].arg if m.node.args.args else "self"
    for nd in cfg.nodes:
        for r in _roots(nd):
            for c in ast.walk(r):
                if not (isinstance(c, ast.Call) and isinstance(c.func, ast.Attribute)):
                    continue
                recv, name = c.func.value, c.func.attr
                is_self = isinstance(recv, ast.Name) and recv.id == me
                is_super = isinstance(recv, ast.Call) and isinstance(recv.func, ast.Name) and recv.func.id == "super"
                if not (is_self or is_super):
                    continue
                if name == "compute_landscape":
                    gates.add(nd.id)
                    continue
                owner = getattr(m, "cls", None) or cls
                h = owner.lookup_super(name, project) if is_super else cls.lookup(name, project)
                if h is not None and h.qualname != m.qualname and isinstance(h.node, ast.FunctionDef) \
                        and ensures(project, cls, h, stored, marker, memo):
                    gates.add(nd.id)
    return gates


def analyse_method(project, cls, m, stored, marker, memo, others=(), with_self=True):
    """-> dict(reads=int, bad=[(node, ast, text)], leaks=[(node, text)], undecided=[(node, text)])

    `others`: parameter names that hold another landscape of the same class (the operators)"""
    cfg = CFG(m.node)
    me = (m.node.args.args[0].arg if m.node.args.args else "self") if with_self else None
    out = {"reads": 0, "bad": [], "leaks": [], "undecided": []}
    gates: Dict[str, Set[int]] = {me: self_gates(project, cls, m, cfg, stored, marker, memo)} if with_self else {}
    mprops = marker_properties(project, cls, marker) if cls is not None else {}
    def _computes(name):
        if name == "compute_landscape":
            return True
        h = cls.lookup(name, project) if cls is not None else None
        return h is not None and isinstance(h.node, ast.FunctionDef) and ensures(project, cls, h, stored, marker, memo)
    for o in others:
        gates[o] = {nd.id for nd in cfg.nodes if any(
            isinstance(c, ast.Call) and isinstance(c.func, ast.Attribute) and isinstance(c.func.value, ast.Name)
            and c.func.value.id == o and _computes(c.func.attr) for r in _roots(nd) for c in ast.walk(r))}
    for recv in ([me] if with_self else []) + list(others):
        g = gates[recv]
        computed_edge, unclear = _marker_tests(cfg, recv, stored, marker, mprops)
        tests = [cfg.nodes[k] for k in computed_edge]
        for nd in unclear:
            if nd.id not in g and not cfg.must_pass_through(cfg.entry.id, nd.id, g):
                out["undecided"].append((nd, f"test `{ast.unparse(nd.ast.test)}` on the lazily computed data is of a shape "
                                             f"this rule does not classify"))

        def filt(x, t, lab):
            return not (x in computed_edge and lab == computed_edge[x])
        # (a decorator that computes before the body makes the entry itself a gate)
        reach = set() if cfg.entry.id in g else cfg.reachable_from(cfg.entry.id, avoid=set(g), edge_filter=filt)
        for nd in cfg.nodes:
            for r in _roots(nd):
                parents = {id(c): p for p in ast.walk(r) for c in ast.iter_child_nodes(p)}
                for x in ast.walk(r):
                    hit = None
                    if isinstance(x, ast.Attribute) and isinstance(x.ctx, ast.Load) and _self_attr(x, recv) in stored \
                            and not (isinstance(parents.get(id(x)), ast.Call) and parents[id(x)].func is x):
                        if nd.id in computed_edge or (_self_attr(x, recv) in marker and _state_query(x, parents)):
                            continue
                        hit = ast.unparse(x)
                    elif recv == me and isinstance(x, ast.Call) and isinstance(x.func, ast.Attribute) \
                            and isinstance(x.func.value, ast.Name) and x.func.value.id == me \
                            and x.func.attr.startswith("_") and not x.func.attr.startswith("__"):
                        h = cls.lookup(x.func.attr, project)
                        if h is not None and h.qualname != m.qualname and _helper_reads(project, cls, h, stored, marker, memo):
                            hit = f"{ast.unparse(x.func)}() (reads the lazily computed data)"
                    if hit is None and isinstance(x, ast.Call) and isinstance(x.func, (ast.Name, ast.Attribute)) \
                            and any(isinstance(a_, ast.Name) and a_.id == recv for a_ in x.args):
                        # a private module-level helper of the package that is handed the landscape and reads from its entry
                        tgt = project.resolve(m.module, x.func, ())
                        h = project.functions.get(project.canonical(tgt)) if tgt else None
                        if h is not None and getattr(h, "cls", None) is None and isinstance(h.node, ast.FunctionDef) \
                                and h.name.startswith("_") and h.qualname != m.qualname:
                            hp = [p_.arg for p_ in h.node.args.posonlyargs + h.node.args.args]
                            for k_, a_ in enumerate(x.args):
                                if isinstance(a_, ast.Name) and a_.id == recv and k_ < len(hp) \
                                        and _fn_reads(project, h, hp[k_], stored, marker, memo):
                                    hit = f"{h.name}({recv}) (reads the lazily computed data of its argument)"
                    if hit is None:
                        continue
                    out["reads"] += 1
                    if nd.id in g:
                        continue
                    if nd.id in reach:
                        out["bad"].append((nd, x, hit))
        # from the not-computed edge of a marker test, the method leaves only through the computation
        for t in tests:
            starts = [s for s, lab in t.succ if lab != computed_edge[t.id]]
            if t.id in g or cfg.must_pass_through(cfg.entry.id, t.id, g):
                continue
            for s in starts:
                # (a `raise` does not reach the exit node: refusing is not answering)
                if s == cfg.exit.id or not cfg.must_pass_through(s, cfg.exit.id, g):
                    out["leaks"].append((t, f"after `{ast.unparse(t.ast.test)}` finds `{recv}` not computed, the method can "
                                            f"return without computing it"))
                    break
    return out


def _fn_reads(project, h, pname, stored, marker, memo) -> bool:
    key = ("fnreads", h.qualname, pname)
    if key in memo:
        return memo[key]
    memo[key] = False
    r = analyse_method(project, None, h, stored, marker, memo, others=[pname], with_self=False)
    memo[key] = bool(r["bad"] or r["leaks"])
    return memo[key]


def _helper_reads(project, cls, h, stored, marker, memo) -> bool:
    key = ("reads", h.qualname)
    if key in memo:
        return memo[key]
    memo[key] = False
    r = analyse_method(project, cls, h, stored, marker, memo)
    memo[key] = bool(r["bad"] or r["leaks"])
    return memo[key]


def check_class(project, rep, cq, rule, methods=None, others_for=(), why=""):
    """report `rule` for the methods of class `cq` (all but SKIP and private helpers when `methods` is None);
    -> number of reads examined"""
    cls = project.classes.get(cq)
    if cls is None:
        rep.unmodelled(rule, None, None, f"{cq} not found")
        return 0
    stored, marker = lazy_attrs(project, cls)
    if not stored or not marker:
        rep.unmodelled(rule, None, None, f"{cq}: the lazily computed attributes / the 'already computed' test of compute_landscape "
                                         f"were not found")
        return 0
    kind = cq.rsplit(".", 1)[1]
    names = methods
    if names is None:
        names = [n for n in cls.methods if n not in SKIP and not (n.startswith("_") and not n.startswith("__"))]
        for inherited in ("p_norm", "sup_norm"):
            if inherited not in names and cls.lookup(inherited, project) is not None:
                names.append(inherited)
    n_reads = 0
    for mname in names:
        m = cls.lookup(mname, project)
        if m is None or not isinstance(m.node, ast.FunctionDef) or not m.node.args.args:
            continue
        if any(isinstance(d, ast.Name) and d.id in ("staticmethod", "classmethod") for d in m.node.decorator_list):
            continue
        memo = {}
        others = [p for p in m.params[1:2]] if mname in others_for else []
        r = analyse_method(project, cls, m, stored, marker, memo, others=others)
        n_reads += r["reads"]
        rep.analysed(m)
        for nd, text in r["undecided"]:
            rep.unmodelled(rule, m, nd.ast, f"{kind}.{mname}: {text}")
        if r["bad"]:
            nd, x, hit = r["bad"][0]
            rep.refuted(rule, m, nd.ast,
                        f"{kind}.{mname} reads `{hit}` on a path on which the landscape has not been computed (no call that always "
                        f"runs compute_landscape() and no 'computed' edge of a test on {sorted(marker)} lies before it): a landscape "
                        f"built with compute=False holds a place-holder there until something else triggers the computation{why}",
                        construct=f"{m.qualname}: read of {hit.split('(')[0]} before compute_landscape")
        elif r["leaks"]:
            t, text = r["leaks"][0]
            rep.refuted(rule, m, t.ast, f"{kind}.{mname}: {text}: the answer comes from the place-holder state{why}",
                        construct=f"{m.qualname}: return from the not-computed state")
        elif r["reads"] and not r["undecided"]:
            rep.discharged(rule, m, m.node, f"{kind}.{mname}: every read of the lazily computed data {sorted(stored)} lies behind "
                                            f"its computation")
        elif not r["reads"]:
            rep.discharged(rule, m, m.node, f"{kind}.{mname}: does not read the lazily computed data itself", nontrivial=False)
    return n_reads


def _landscape_params(fi, stored, ann_word="PersLandscape") -> List[str]:
    """parameters of a module-level function that hold a landscape: annotated with a landscape class, or
    `<p>.compute_landscape()` is called, or a lazily computed attribute other than `values` is read from them"""
    a = fi.node.args
    out = []
    for p in a.posonlyargs + a.args + a.kwonlyargs:
        ann = ast.unparse(p.annotation) if p.annotation is not None else ""
        ev = bool(ann_word) and ann_word in ann
        for x in ast.walk(fi.node):
            if isinstance(x, ast.Attribute) and isinstance(x.value, ast.Name) and x.value.id == p.arg \
                    and (x.attr == "compute_landscape" or (x.attr in stored and x.attr != "values")):
                ev = True
        rebound = any(isinstance(t, ast.Name) and t.id == p.arg and isinstance(t.ctx, ast.Store) for t in ast.walk(fi.node))
        if ev and not rebound:
            out.append(p.arg)
    return out


def check_functions(project, rep, rule, why="", classes=(EXACT, APPROX), prefix="persim.landscapes.", ann_word="PersLandscape"):
    """the module-level functions of persim.landscapes that are handed a landscape: same rule, the receivers are their
    landscape parameters; -> number of reads examined"""
    stored, marker = set(), set()
    for cq in classes:
        cls = project.classes.get(cq)
        if cls is not None:
            s_, m_ = lazy_attrs(project, cls)
            stored |= s_
            marker |= m_
    if not stored:
        return 0
    n = 0
    for q, fi in sorted(project.functions.items()):
        if not q.startswith(prefix) or getattr(fi, "cls", None) is not None or not isinstance(fi.node, ast.FunctionDef):
            continue
        if q[len(prefix):].count(".") > 1:
            continue
        if fi.name.startswith("_"):
            # a private helper is judged where it is called (its callers may have computed the landscape already)
            continue
        ps = _landscape_params(fi, stored, ann_word)
        if not ps:
            continue
        r = analyse_method(project, None, fi, stored, marker, {}, others=ps, with_self=False)
        if not r["reads"]:
            continue
        n += r["reads"]
        rep.analysed(fi)
        name = q[len(prefix):]
        for nd, text in r["undecided"]:
            rep.unmodelled(rule, fi, nd.ast, f"{name}: {text}")
        if r["bad"]:
            nd, x, hit = r["bad"][0]
            rep.refuted(rule, fi, nd.ast,
                        f"{name} reads `{hit}` of the landscape it is handed on a path on which that landscape has not been computed: "
                        f"one built with compute=False holds a place-holder there{why}",
                        construct=f"{fi.qualname}: read of {hit} before compute_landscape")
        elif r["leaks"]:
            t, text = r["leaks"][0]
            rep.refuted(rule, fi, t.ast, f"{name}: {text}{why}", construct=f"{fi.qualname}: return from the not-computed state")
        elif not r["undecided"]:
            rep.discharged(rule, fi, fi.node, f"{name}: every read of the lazily computed data of {ps} lies behind its computation")
    return n


def positive_examples():
    """the rule flags its planted violations and leaves their clean twins alone, on every run"""
    import os
    from ..core.loader import AnalysisError, Project
    from ..core.report import Report
    here = os.path.join(os.path.dirname(os.path.dirname(os.path.abspath(__file__))), "selftest", "positive")
    pp = Project(here, pkg="pospkg")
    scratch = Report("LZ-positive")
    check_class(pp, scratch, "pospkg.lazy.Lazy", "LZ")
    check_functions(pp, scratch, "LZ", classes=("pospkg.lazy.Lazy",), prefix="pospkg.lazy.", ann_word="Lazy")
    bad = {x["function"].rsplit(".", 1)[1] for x in scratch.refutations}
    want = {"depth_before", "answers_when_not_computed", "through_helper", "reads_param_before", "helper_before_compute"}
    if bad != want or scratch.errors:
        raise AnalysisError(f"positive example: LZ-READ flagged {sorted(bad)} of pospkg.lazy.Lazy, expected {sorted(want)} "
                            f"{scratch.errors[:1]}")
    return len(want)
