"""C07 — metric and invariance laws at any size (bottleneck, wasserstein).

Proved for all non-empty finite inputs of any size (exact arithmetic, modulo the primitive table):
MI-DEG degree-1 homogeneity, MI-SHIFT invariance under diagonal translation of both diagrams,
MI-SWAP role-swap symmetry of the cost-matrix construction (D(T,S) = D(S,T)^T).
Declined: identity of indiscernibles, triangle inequality, diagonal-point insensitivity, closed forms against
the empty diagram, bottleneck <= Wasserstein (all need optimality of the solver).
"""
from __future__ import annotations

from ..core import facets, sym, symeval
from ..core.loader import Project
from ..core.values import Arr, DiagMat, Sc, Seq
from .distances import BN, WS, Run, block_roles, check_tiling, first_top_culprit, unmodelled_in


def _law(rep, rule, run: Run, facet, decl, want, law_text, show):
    fi = run.fi
    dvs = run.distance_values()
    if not dvs:
        rep.unmodelled(rule, fi, fi.node, "no return value found")
        return
    # every comparison that can steer control or indices must be law-preserving
    ncmp = 0
    for ev in run.events("compare"):
        owner = ev["fi"] or fi
        r = ev["result"]
        e = r.e if isinstance(r, Sc) else getattr(r, "elem", None)
        if e is None:
            continue
        ncmp += 1
        f = facet(e, decl)
        if facets.is_top(f):
            if f.reason.startswith("unmodelled"):
                rep.unmodelled(rule, fi, ev["node"], f.reason)
            else:
                rep.refuted(rule, fi, ev["node"], f"{f.reason}; the outcome of this test changes under {law_text}, so "
                                                  f"the distance does not obey the law")
        else:
            rep.discharged(rule, fi, ev["node"], f"comparison is invariant under {law_text}", derived=sym.show(e)[:160])
    for ev, e in dvs:
        if e is None:
            rep.unmodelled(rule, fi, ev["node"], "returned distance is not a scalar expression")
            continue
        f = facet(e, decl)
        if facets.is_top(f):
            cev, cf = first_top_culprit(run, facet, decl)
            node = cev["node"] if cev is not None else ev["node"]
            f2 = cf if cf is not None else f
            if f2.reason.startswith("unmodelled") or unmodelled_in(e):
                rep.unmodelled(rule, fi, node, f2.reason)
            else:
                rep.refuted(rule, fi, node, f"returned distance does not obey {law_text}: {f2.reason}"
                                            f" [{sym.show(f2.culprit)[:200] if f2.culprit is not None else ''}]")
        elif f == facets.POLY:
            rep.discharged(rule, fi, ev["node"], f"this path returns a 0/inf literal, which obeys {law_text} trivially",
                           nontrivial=False)
        elif not want(f):
            rep.refuted(rule, fi, ev["node"], f"returned distance has {show(f)} instead of the value required by "
                                              f"{law_text}")
        else:
            rep.discharged(rule, fi, ev["node"], f"returned distance obeys {law_text} for every input "
                                                 f"({run.kind} configuration): {show(f)}",
                           derived=sym.show(e)[:300])
    return ncmp


def check_shortcuts(rep, project, qual):
    """MI-ID: a short-cut that declares two diagrams equal must compare them as multisets of points; sorting the
    birth and the death column independently forgets which birth belongs to which death"""
    run = Run(project, qual)
    fi = run.fi
    from .distances import colsort_decides
    for ev in colsort_decides(run):
        if True:
            rep.refuted("MI-ID", fi, ev["node"],
                        "a diagram's birth and death columns are sorted independently (np.sort(..., axis=0)) and the result "
                        "decides the distance: two different diagrams with the same births and the same deaths, paired "
                        "differently, are treated as equal (d = 0 for [[0,2],[1,3]] vs [[0,3],[1,2]]; triangle inequality fails)")
    consts = [(ev, e) for ev, e in run.distance_values() if e is not None and e[0] == "num"]
    for ev, e in consts:
        conds = ev["path"]
        if any(x[0] == "opq" and x[1].startswith("unmodelled") for c in conds for x in sym.walk(c)):
            rep.unmodelled("MI-ID", fi, ev["node"], f"a constant distance {sym.show(e)} is returned under a condition that is "
                                                    f"not modelled")
        else:
            rep.discharged("MI-ID", fi, ev["node"], f"constant {sym.show(e)} returned under {[sym.show(c)[:80] for c in conds]}",
                           nontrivial=False)


def check_deg(rep, project, qual, kinds=("finite", "dropped")):
    for kind in kinds:
        run = Run(project, qual, kind=kind)
        rep.analysed(run.fi)
        _law(rep, "MI-DEG", run, facets.degree, facets.DegDecl(),
             lambda d: d != facets.POLY and abs(d[0] - 1) < 1e-9 and abs(d[1]) < 1e-9,
             "uniform rescaling of both diagrams (d(λS,λT)=λ·d(S,T))", lambda d: f"degree {facets._dshow(d)}")


def check_shift(rep, project, qual, kinds=("finite", "dropped")):
    for kind in kinds:
        run = Run(project, qual, kind=kind)
        _law(rep, "MI-SHIFT", run, facets.weight, facets.ShiftDecl(),
             lambda w: w == sym.ZERO or w == facets.ANYW,
             "translation of both diagrams along the diagonal", lambda w: f"translation weight {sym.show(w)}")


def _store_sig(run: Run, s):
    v = s["val"]
    if isinstance(v, DiagMat):
        return ("diag", symeval.canon_rows(v.on), symeval.canon_rows(v.off))
    if isinstance(v, Arr):
        return ("cross", symeval.canon_rows(v.elem), tuple(sp.key for sp, _ in v.axes))
    return ("other",)


def check_swap(rep, project, qual):
    r1 = Run(project, qual, "S", "T")
    r2 = Run(project, qual, "T", "S")
    fi = r1.fi
    D1, D2 = r1.cost_matrix(), r2.cost_matrix()
    # necessary for 'adding points on the diagonal changes nothing' and for the closed forms against the empty diagram:
    # diagonal copies pair with each other at cost 0 (the corner rows [M, M+N) × cols [N, M+N)) and every point can only
    # reach its own diagonal copy — i.e. the four blocks sit where the statement's cost model puts them
    check_tiling(rep, "MI-DIAG", r1, D1, fi)
    from .distances import leftover_placeholders
    inexact = [r_ for r_ in (r1, r2) if r_.interp.unmodelled or r_.interp.lossy] or [
        d_ for d_ in (D1, D2) if getattr(d_, "opaque_stores", None) or leftover_placeholders(d_.base) or unmodelled_in(d_.base)]
    if inexact:
        # the matrix the run assembled is not the one the code assembles (a store that was not modelled, a loop the
        # evaluator could not summarise): comparing it with its transposed counterpart says nothing
        rep.unmodelled("MI-SWAP", fi, fi.node, "the cost matrix was not followed exactly: exchange of the arguments not compared")
        return
    if len(D1.stores) != len(D2.stores):
        rep.unmodelled("MI-SWAP", fi, fi.node, "different number of block stores when the arguments are exchanged")
        return
    if not sym.equal(D1.base, D2.base):
        rep.refuted("MI-SWAP", fi, fi.node, "base value of the matrix depends on argument order")
    used = set()
    for s in D1.stores:
        sig = _store_sig(r1, s)
        # the transposed position in the exchanged run
        hit = None
        for k, t in enumerate(D2.stores):
            if k in used:
                continue
            pos_ok = all(sym.equal(a, b) for a, b in zip((s["r0"], s["r1"], s["c0"], s["c1"]),
                                                         (t["c0"], t["c1"], t["r0"], t["r1"])))
            if pos_ok:
                hit = (k, t)
                break
        if hit is None:
            rep.refuted("MI-SWAP", fi, s["node"],
                        "no block of D(T,S) sits at the transposed position of this block of D(S,T): the construction "
                        "is not symmetric under exchanging the diagrams")
            continue
        k, t = hit
        used.add(k)
        sig2 = _store_sig(r2, t)
        same = sig[0] == sig2[0]
        if same and sig[0] == "diag":
            same = sym.equal(sig[1], sig2[1], 1e-9) and sym.equal(sig[2], sig2[2], 1e-9)
        elif same and sig[0] == "cross":
            ok, w = symeval.equivalent(sig[1], sig2[1])
            same = bool(ok)
        opaque = sorted({x[1] for e_ in list(sig[1:]) + list(sig2[1:]) if isinstance(e_, tuple) and e_ and isinstance(e_[0], str)
                         for x in sym.walk(e_) if x[0] == "opq" and (x[1].startswith("unmodelled") or x[1] == "config")})
        if same:
            rep.discharged("MI-SWAP", fi, s["node"], "block of D(S,T) equals the transposed block of D(T,S)",
                           derived=sym.show(sig[1])[:200] if len(sig) > 1 else None)
        elif opaque:
            rep.unmodelled("MI-SWAP", fi, s["node"], f"the block and its transposed counterpart contain values the evaluator did not "
                                                     f"model ({', '.join(opaque)[:80]}): not compared")
        else:
            rep.refuted("MI-SWAP", fi, s["node"],
                        f"block differs from its transposed counterpart when the diagrams are exchanged: "
                        f"{sym.show(sig[1])[:160] if len(sig) > 1 else sig} vs "
                        f"{sym.show(sig2[1])[:160] if len(sig2) > 1 else sig2} — d(S,T) ≠ d(T,S) in general")


def run(project: Project, rep, tier: str):
    rep.explain(
        "C07 (clauses decided, not the behaviour as a whole): both distance functions are evaluated by a symbolic "
        "abstract interpreter on two generic (n,2) diagrams of arbitrary size; the returned value is a normal-form "
        "expression over the augmented cost matrix. MI-DEG assigns homogeneity degrees (units-of-measure typing): "
        "result degree 1 and every control/index-steering comparison between equal degrees ⇒ d(λS,λT)=λ·d(S,T) for "
        "all λ>0. MI-SHIFT assigns translation weights: result weight 0 and all comparisons between equal weights ⇒ "
        "invariance under diagonal translation. MI-SWAP: exchanging the arguments yields the transposed block "
        "structure with equal normal forms. MI-DIAG: the blocks of the augmented matrix tile it as the cost model of the "
        "statement requires (diagonal-to-diagonal corner 0 at rows [M,M+N) × cols [N,M+N)), a necessary condition of "
        "insensitivity to diagonal points and of the closed forms against the empty diagram. Proved for all finite non-empty inputs of any size in exact arithmetic, "
        "modulo the primitive table. Declined: d(X,X)=0, triangle inequality, diagonal points, closed forms against "
        "the empty diagram, bottleneck<=Wasserstein.")
    rep.assume("exact arithmetic; both diagrams non-empty after filtering; index-valued primitives "
               "(linear_sum_assignment, Hopcroft-Karp matching, argsort/unique/sort) are scale- and shift-free on "
               "homogeneous input (their tabled law)")
    for t in ("numpy.abs", "numpy.maximum", "numpy.sort", "numpy.unique", "numpy.fill_diagonal",
              "sklearn.metrics.pairwise.pairwise_distances", "scipy.optimize.linear_sum_assignment",
              "hopcroftkarp.HopcroftKarp.maximum_matching", "numpy.ndarray.dot", "numpy.sum", "bisect.bisect_left"):
        rep.trust(t)
    kinds = ("finite", "dropped") if tier == "thorough" else ("finite", "dropped")
    from .distances import check_filter
    for qual in (BN, WS):
        # 'zero between a diagram and any reordering of itself' includes moving a point with an infinite death: what is
        # computed per point must follow the points through the finite-death filter
        check_filter(rep, "MI-FILTER", project, qual)
        check_deg(rep, project, qual, kinds)
        check_shift(rep, project, qual, kinds)
        check_swap(rep, project, qual)
        check_shortcuts(rep, project, qual)
    # MI-DTYPE: representation independence of the distance's own input handling — no float store into an array typed by a diagram,
    # no cast of one diagram to the dtype of the other (rules/dtype_rule.py) — over the entry point and the helpers it calls
    from . import dtype_rule as _dt
    from .oneshot import reachable_functions as _reach
    _fns = _reach(project, [BN, WS])
    if _fns:
        _dt.run_on(project, rep, "MI-DTYPE", _fns)
    rep.floor("MI-DTYPE", 1)
    rep.floor("MI-DEG", 6)
    rep.floor("MI-SHIFT", 6)
    rep.floor("MI-SWAP", 6)
    rep.floor("MI-DIAG", 10)
    rep.floor("MI-FILTER", 2)
