"""C16 — persistent entropy = Shannon entropy of normalised bar lengths.

Decided: PE-FORM (−Σ p ln p with p = ℓ/Σℓ, normalised by ln n of the same diagram), PE-INV (scale, translation and
order invariance — proved from the normal form), PE-GUARD (a value is produced only if every length is strictly
positive; otherwise an error), PE-INF (infinite bars dropped on the death column / substituted / error),
PE-LIST (a list yields the vector of individual entropies in order).
Declined: the numeric bounds 0 ≤ E ≤ log n (Jensen — a fact about the formula, not the code).
"""
from __future__ import annotations

from ..core import facets, sym, symeval
from ..core.absint import Config, Interp
from ..core.loader import Project
from ..core.values import Alt, Arr, NoneV, Sc, Seq
from .distances import dgm_input, unmodelled_in


def generic_of(v):
    from ..core.values import generic_elem
    try:
        return generic_elem(v)
    except Exception:
        return sym.ZERO

PE = "persim.persistent_entropy.persistent_entropy"


def entropy_spec(name, normalized: bool):
    i, j = "$i", "$j"
    sp = ("rows", name)
    ell = lambda v: sym.sub(sym.In(name, ((v, 0), 1)), sym.In(name, ((v, 0), 0)))
    L = sym.Sum(j, sp, ell(j))
    p = sym.div(ell(i), L)
    E = sym.neg(sym.Sum(i, sp, sym.mul(p, sym.fn("log", p))))
    if normalized:
        E = sym.div(E, sym.fn("log", sym.Size(sp)))
    return E


def _run(project, args, finite=("X", "Y"), nonempty=("X", "Y")):
    I = Interp(project, Config(nonempty={("rows", n) for n in nonempty}, finite_inputs=set(finite)))
    r = I.run(PE, args)
    return I, r


def _elems(r):
    """entries of the returned vector as a list of expressions"""
    if isinstance(r, Arr) and r.ndim == 1 and r.axes[0][0].concrete is not None:
        sp, iv = r.axes[0]
        return [sym.subst_ivar(r.elem, iv, k) for k in range(sp.concrete)]
    return None


def check_call_styles(project: Project, rep):
    """PE-STYLE — the options mean the same whether they are passed by keyword or by position (the documented order): the
    function is evaluated both ways — through whatever decorators and entry helpers it has — and the two values must be the
    same expression in the data"""
    fi = project.function(PE)
    ps = fi.params
    if len(ps) < 4:
        rep.unmodelled("PE-STYLE", fi, fi.node, f"unexpected signature {ps}")
        return
    v = Sc(sym.Sym("vinf"))
    configs = [("keep_inf=True, val_inf=v, normalize=True", [Sc(sym.TRUE), v, Sc(sym.TRUE)]),
               ("keep_inf=False, val_inf=None, normalize=True", [Sc(sym.FALSE), NoneV(), Sc(sym.TRUE)])]
    for label, vals in configs:
        got = {}
        for style in ("keyword", "positional"):
            I = Interp(project, Config(nonempty={("rows", "X")}, finite_inputs=set()))
            try:
                if style == "keyword":
                    r = I.call_function(fi, [dgm_input("X")], dict(zip(ps[1:4], vals)), None)
                else:
                    r = I.call_function(fi, [dgm_input("X")] + vals, {}, None)
            except Exception as ex:
                got[style] = ("error", f"{type(ex).__name__}: {ex}"[:100])
                continue
            if I.unmodelled or I.lossy:
                got[style] = ("inexact", str(I.unmodelled[0]["tag"] if I.unmodelled else I.lossy[0]["why"])[:100])
                continue
            es = _elems(r) if isinstance(r, Arr) else ([r.e] if isinstance(r, Sc) and r.e is not None else None)
            got[style] = ("ok", es) if es else ("inexact", f"value {r!r}"[:80])
        a, b = got.get("keyword"), got.get("positional")
        if a and b and a[0] == b[0] == "ok":
            same = len(a[1]) == len(b[1]) and all(
                sym.equal(x, y) or symeval.equivalent(x, y, positive_syms={"vinf"}, trials=8)[0] is True for x, y in zip(a[1], b[1]))
            differs = len(a[1]) != len(b[1]) or any(
                not sym.equal(x, y) and symeval.equivalent(x, y, positive_syms={"vinf"}, trials=8)[0] is False for x, y in zip(a[1], b[1]))
            if same:
                rep.discharged("PE-STYLE", fi, fi.node, f"{label}: the same value by keyword and by position")
            elif differs:
                rep.refuted("PE-STYLE", fi, fi.node,
                            f"{label}: passed by position the options give {sym.show(b[1][0])[:90]}, passed by keyword "
                            f"{sym.show(a[1][0])[:90]}: options given by position are not honoured",
                            construct=f"{PE}: options by position")
            else:
                rep.unmodelled("PE-STYLE", fi, fi.node, f"{label}: the two values could not be compared")
        elif b and b[0] == "error" and a and a[0] == "ok":
            rep.discharged("PE-STYLE", fi, fi.node, f"{label}: the positional spelling is not accepted ({b[1]})", nontrivial=False)
        else:
            rep.unmodelled("PE-STYLE", fi, fi.node, f"{label}: keyword {a[0] if a else '?'} / positional {b[0] if b else '?'}: "
                                                    f"{(a if a and a[0] != 'ok' else b)[1] if (a or b) else ''}"[:200])


def run(project: Project, rep, tier: str):
    rep.explain(
        "C16 (clauses decided): `persistent_entropy` is evaluated symbolically on a generic barcode of any size under each "
        "flag configuration. PE-FORM compares the derived normal form with −Σ p ln p, p=ℓ/Σℓ (and /ln n when normalised) "
        "by identity testing of the derived expressions on positive-length bars. PE-INV: homogeneity degree 0, "
        "translation weight 0 and no positional use of a row ⇒ invariance under uniform rescaling, translation and "
        "reordering, proved for every barcode (keep_inf=False). PE-GUARD: the path that produces a value passed a test "
        "equivalent to 'all lengths > 0'; the complementary path raises. PE-INF / PE-LIST: flag handling and list "
        "wrapping. Declined: 0 ≤ E ≤ log n.")
    rep.assume("exact arithmetic for PE-INV; a user-supplied val_inf is a fixed length (does not scale/shift with the data)")
    fi = project.function(PE)
    rep.analysed(fi)
    ps = fi.params
    if len(ps) < 4:
        rep.unmodelled("PE-FORM", fi, fi.node, f"unexpected signature {ps}")
        return
    P_DGMS, P_KEEP, P_VAL, P_NORM = ps[:4]
    # ---------------- PE-FORM / PE-INV: single array, keep_inf False, both normalize settings
    for norm in (False, True):
        I, r = _run(project, {P_DGMS: dgm_input("X"), P_KEEP: Sc(sym.FALSE), P_VAL: NoneV(), P_NORM: Sc(sym.Bool(norm))})
        es = _elems(r)
        if es is None or len(es) != 1 or unmodelled_in(es[0]):
            rep.unmodelled("PE-FORM", fi, fi.node, f"result not modelled (normalize={norm}): {r!r}"[:300])
            continue
        e = es[0]
        # the statement constrains the normalised variant for n >= 2 only (ln 1 = 0: what a one-bar barcode yields is a
        # choice of the code, not of the property)
        def at_least_two(pt, k_):
            if pt.sizes.get(("rows", "X"), 2) < 2:
                pt.sizes[("rows", "X")] = 2 + k_ % 3
            pt.sizes.setdefault(("rows", "X"), 2 + k_ % 3)
        ok, w = symeval.equivalent(e, entropy_spec("X", norm), trials=24, input_fn=symeval.bars_input, nrows=4,
                                   sym_fn=at_least_two if norm else None)
        what = "−Σ p ln p, p = ℓ/Σℓ" + (" divided by ln n" if norm else "")
        if ok is True:
            rep.discharged("PE-FORM", fi, fi.node, f"normalize={norm}: value = {what}", derived=sym.show(e)[:260])
        elif ok is False:
            rep.refuted("PE-FORM", fi, fi.node, f"normalize={norm}: value is {sym.show(e)[:260]}, not {what}; witness {w}",
                        construct=f"{PE}: formula (normalize={norm})", failing_input=str(w))
        else:
            rep.unmodelled("PE-FORM", fi, fi.node, f"cannot evaluate derived form ({w})")
        d = facets.degree(e, facets.DegDecl())
        if facets.is_top(d) and not d.reason.startswith("unmodelled"):
            # the typing found a mixture of degrees; whether it matters is settled by a counterexample (moderate, tiny and
            # huge scale factors on random barcodes) — a guard like `if total == 0: total = 1` mixes degrees and matters not
            okS, wS = symeval.scaling_check(e, 0.0, trials=16, input_fn=symeval.bars_input, nrows=4)
            if okS is False:
                rep.refuted("PE-INV", fi, fi.node, f"normalize={norm}: not invariant under uniform rescaling ({d.reason}); "
                                                   f"witness {wS}"[:500], construct=f"{PE}: scale invariance (normalize={norm})",
                            failing_input=str(wS)[:300])
            else:
                rep.unmodelled("PE-INV", fi, fi.node, f"normalize={norm}: scale invariance not proved ({d.reason}); no "
                                                      f"counterexample among rescalings by 3.7, 1e-9 and 1e6" +
                               (f" ({wS})" if okS is None else ""))
        elif facets.is_top(d):
            rep.unmodelled(
                "PE-INV", fi, fi.node, f"normalize={norm}: not invariant under uniform rescaling: {d.reason}")
        elif d == facets.POLY or abs(d[0]) < 1e-9:
            rep.discharged("PE-INV", fi, fi.node, f"normalize={norm}: homogeneity degree 0 ⇒ invariant under uniform "
                                                  f"rescaling of the bars")
        else:
            rep.refuted("PE-INV", fi, fi.node, f"normalize={norm}: value scales with degree {facets._dshow(d)}",
                        construct=f"{PE}: scale invariance (normalize={norm})")
        w_ = facets.weight(e, facets.ShiftDecl())
        if facets.is_top(w_):
            (rep.unmodelled if w_.reason.startswith("unmodelled") else rep.refuted)(
                "PE-INV", fi, fi.node, f"normalize={norm}: not invariant under translation: {w_.reason}",
                **({} if w_.reason.startswith("unmodelled") else {"construct": f"{PE}: translation (normalize={norm})"}))
        elif w_ == sym.ZERO:
            rep.discharged("PE-INV", fi, fi.node, f"normalize={norm}: translation weight 0 ⇒ invariant under translating "
                                                  f"all bars")
        else:
            rep.refuted("PE-INV", fi, fi.node, f"normalize={norm}: translation weight {sym.show(w_)}",
                        construct=f"{PE}: translation (normalize={norm})")
        pos = facets.positional_row_uses(e)
        if pos:
            rep.refuted("PE-INV", fi, fi.node, f"normalize={norm}: the value uses a bar by position ({sym.show(pos[0])}), "
                                               f"so reordering the bars changes it",
                        construct=f"{PE}: order dependence (normalize={norm})")
        else:
            rep.discharged("PE-INV", fi, fi.node, f"normalize={norm}: rows enter only through symmetric sums ⇒ invariant "
                                                  f"under reordering")
        if not norm:
            # ---------------- PE-GUARD on this run
            # value-producing points: where the logarithm of the probabilities is taken (in this function or in a helper)
            appends = [ev for ev in I.log if ev["kind"] == "transcendental" and ev.get("fn") == "log"
                       and any(x[0] == "in" for x in sym.walk(generic_of(ev["arg"])))]
            guard_spec = sym.Red("all", "$g", ("rows", "X"),
                                 sym.Cmp(">", sym.sub(sym.In("X", (("$g", 0), 1)), sym.In("X", (("$g", 0), 0))), sym.ZERO))
            if not appends:
                rep.unmodelled("PE-GUARD", fi, fi.node, "no logarithm of the bar probabilities found")
            for ev in appends:
                cond = sym.And(*(list(ev["path"]) + [ev["reach"]]))
                ok, w = symeval.equivalent(cond, guard_spec, trials=120, integer_inputs=True, nrows=3)
                if ok is True:
                    rep.discharged("PE-GUARD", fi, ev["node"], "a value is produced only on the path where every bar "
                                                               "length is strictly positive", derived=sym.show(cond)[:200])
                elif ok is False and not I.clean_before(ev):
                    rep.unmodelled("PE-GUARD", fi, ev["node"], "the guard on this path could not be followed exactly")
                elif ok is False:
                    rep.refuted("PE-GUARD", fi, ev["node"],
                                f"a value is produced under {sym.show(cond)[:200]} which is not 'all lengths > 0': a bar of "
                                f"non-positive length yields a number (0·log 0 = NaN) instead of an error; witness {w}")
                else:
                    rep.unmodelled("PE-GUARD", fi, ev["node"], f"cannot evaluate the guard ({w})")
            raises = [ev for ev in I.log if ev["kind"] == "raise" and not ev.get("propagated")]
            if any(ev["path"] for ev in raises):
                rep.discharged("PE-GUARD", fi, raises[-1]["node"], "the complementary path raises", nontrivial=False)
            else:
                rep.refuted("PE-GUARD", fi, fi.node, "no error is raised when a bar has non-positive length",
                            construct=f"{PE}: missing raise")
    # ---------------- PE-INF
    I, r = _run(project, {P_DGMS: dgm_input("X"), P_KEEP: Sc(sym.FALSE), P_VAL: NoneV(), P_NORM: Sc(sym.FALSE)}, finite=())
    es = _elems(r)
    if es is None:
        rep.unmodelled("PE-INF", fi, fi.node, "result with infinite bars present not modelled")
    else:
        keys = {x[2] for x in sym.walk(es[0]) if x[0] == "sum"}
        masks = [k[2] for k in keys if isinstance(k, tuple) and k[0] == "sub"]
        raw = [k for k in keys if k == ("rows", "X")]
        if masks and not raw:
            m = masks[0]
            cols = {x[2][1] for x in sym.walk(m) if x[0] == "in"}
            infs = [x for x in sym.walk(m) if x[0] == "num" and x[1] == float("inf")]
            if cols == {1} and (infs or any(x[0] == "fn" and x[1] in ("isfinite", "isinf") for x in sym.walk(m))):
                rep.discharged("PE-INF", fi, fi.node, f"keep_inf=False: bars are dropped by the mask {sym.show(m)} on the "
                                                      f"death column")
            else:
                rep.refuted("PE-INF", fi, fi.node, f"keep_inf=False: rows are filtered by {sym.show(m)}, not by 'death is "
                                                   f"infinite'", construct=f"{PE}: inf filter {sym.show(m)}")
        else:
            rep.refuted("PE-INF", fi, fi.node, "keep_inf=False: infinite bars are not removed before the lengths are taken",
                        construct=f"{PE}: inf filter missing")
    # the normaliser counts the bars that are actually measured (after infinite bars were dropped)
    I, r = _run(project, {P_DGMS: dgm_input("X"), P_KEEP: Sc(sym.FALSE), P_VAL: NoneV(), P_NORM: Sc(sym.TRUE)}, finite=())
    es = _elems(r)
    if es is None or unmodelled_in(es[0]):
        rep.unmodelled("PE-INF", fi, fi.node, "normalised result with infinite bars present not modelled")
    else:
        sum_keys = {x[2] for x in sym.walk(es[0]) if x[0] == "sum"}
        size_keys = {x[1] for x in sym.walk(es[0]) if x[0] == "size"}
        raw = ("rows", "X")
        if size_keys and sum_keys and size_keys <= sum_keys and raw not in size_keys:
            rep.discharged("PE-INF", fi, fi.node, "normalize=True, keep_inf=False: the entropy is divided by the logarithm of "
                                                  "the number of bars that remain after the infinite ones are dropped")
        elif raw in size_keys and raw not in sum_keys:
            rep.refuted("PE-INF", fi, fi.node, "normalize=True, keep_inf=False: the entropy of the finite bars is divided by the "
                                               "logarithm of the number of ALL bars (counted before the infinite ones were "
                                               "dropped): three equal finite bars and one infinite bar give log3/log4, not 1",
                        construct=f"{PE}: normaliser counts dropped bars")
        else:
            rep.unmodelled("PE-INF", fi, fi.node, f"normaliser not recognised (sizes {sorted(map(str, size_keys))[:3]})")
    I, r = _run(project, {P_DGMS: dgm_input("X"), P_KEEP: Sc(sym.TRUE), P_VAL: Sc(sym.Sym("val_inf")),
                          P_NORM: Sc(sym.FALSE)}, finite=())
    es = _elems(r)
    if es is None:
        rep.unmodelled("PE-INF", fi, fi.node, "result with keep_inf=True not modelled")
    else:
        has_sub = any(x[0] == "ite" and any(y[0] == "sym" and y[1] == "val_inf" for y in sym.walk(x)) for x in sym.walk(es[0]))
        if has_sub:
            rep.discharged("PE-INF", fi, fi.node, "keep_inf=True: infinite entries are replaced by the supplied value")
        else:
            rep.refuted("PE-INF", fi, fi.node, "keep_inf=True with a value: infinite entries are not replaced by it",
                        construct=f"{PE}: inf substitution")
    # a supplied value is a number like any other: no value of it alone (0, say, through a truth test) may turn the call
    # into the 'no value given' rejection
    def _only_val(c):
        leaves = [x for x in sym.walk(c) if x[0] in ("in", "sym", "size", "opq", "fn")]
        return bool(leaves) and all(x[0] == "sym" and x[1] == "val_inf" for x in leaves)
    for ev in I.log:
        if ev["kind"] == "raise" and ev["path"] and all(_only_val(c) for c in ev["path"]):
            rep.refuted("PE-INF", ev["fi"], ev["node"], "keep_inf=True with a value supplied: the call is rejected whenever "
                        f"{' and '.join(sym.show(c) for c in ev['path'])[:80]}, whatever the diagram — that supplied value is "
                        "treated as 'no value given'", construct=f"{PE}: supplied val_inf rejected by its own value")
            break
    else:
        rep.discharged("PE-INF", fi, fi.node, "keep_inf=True with a value supplied: no value of val_inf alone leads to a rejection",
                       nontrivial=False)
    # keep_inf=False with a value supplied: the flag decides — the value must play no part (same result as without it)
    I0, r0 = _run(project, {P_DGMS: dgm_input("X"), P_KEEP: Sc(sym.FALSE), P_VAL: NoneV(), P_NORM: Sc(sym.FALSE)}, finite=())
    I1, r1 = _run(project, {P_DGMS: dgm_input("X"), P_KEEP: Sc(sym.FALSE), P_VAL: Sc(sym.Sym("val_inf")), P_NORM: Sc(sym.FALSE)},
                  finite=())
    e0, e1 = _elems(r0), _elems(r1)
    if e0 is None or e1 is None or unmodelled_in(e0[0]) or unmodelled_in(e1[0]):
        rep.unmodelled("PE-INF", fi, fi.node, "keep_inf=False with a value supplied: result not modelled")
    elif any(x[0] == "sym" and x[1] == "val_inf" for x in sym.walk(e1[0])):
        rep.refuted("PE-INF", fi, fi.node, "keep_inf=False with a val_inf supplied: the result depends on val_inf — infinite bars are "
                                           "replaced although the caller asked for them to be dropped",
                    construct=f"{PE}: val_inf used although keep_inf is False")
    else:
        a0, a1 = symeval.canon_rows(e0[0]), symeval.canon_rows(e1[0])
        ok, w = (True, None) if a0 == a1 else symeval.equivalent(a0, a1, trials=12)
        if ok is True:
            rep.discharged("PE-INF", fi, fi.node, "keep_inf=False: a supplied val_inf plays no part (same value as without it)")
        elif ok is False:
            rep.refuted("PE-INF", fi, fi.node, f"keep_inf=False: supplying val_inf changes the result; witness {w}",
                        construct=f"{PE}: val_inf used although keep_inf is False")
        else:
            rep.unmodelled("PE-INF", fi, fi.node, f"cannot compare the results with and without val_inf ({w})")
    I, r = _run(project, {P_DGMS: dgm_input("X"), P_KEEP: Sc(sym.TRUE), P_VAL: NoneV(), P_NORM: Sc(sym.FALSE)}, finite=())
    rets = [ev for ev in I.log if ev["kind"] == "return" and ev["fi"] is fi]
    raises = [ev for ev in I.log if ev["kind"] == "raise" and ev["fi"] is fi]
    if raises and not rets:
        rep.discharged("PE-INF", fi, raises[0]["node"], "keep_inf=True without a value raises")
    else:
        rep.refuted("PE-INF", fi, fi.node, "keep_inf=True without a substitution value does not raise",
                    construct=f"{PE}: keep_inf without value")
    # ---------------- PE-LIST
    # both settings of `normalize`: every entry is the value of its own diagram alone, whatever the OTHER diagrams of the list
    # are (a one-bar diagram earlier in the list must not change how a later one is normalised)
    for norm in (False, True):
        I, r = _run(project, {P_DGMS: Seq([dgm_input("X"), dgm_input("Y")], "list"), P_KEEP: Sc(sym.FALSE), P_VAL: NoneV(),
                              P_NORM: Sc(sym.Bool(norm))})
        es = _elems(r)
        if es is None and not (isinstance(r, Arr) and r.ndim == 1) and not isinstance(r, Sc):
            rep.unmodelled("PE-LIST", fi, fi.node, f"result for a list of two diagrams not modelled (normalize={norm}): {r!r}"[:160])
        elif es is None or len(es) != 2:
            rep.refuted("PE-LIST", fi, fi.node, f"a list of two diagrams does not yield a vector of two values: {r!r}"[:200],
                        construct=f"{PE}: list handling")
        else:
            for k, (e, nm) in enumerate(zip(es, ("X", "Y"))):
                other = "Y" if nm == "X" else "X"

                def sizes(pt, k_, nm=nm, other=other):
                    # the entry's own diagram has at least two bars when normalised (the statement's range); the other one
                    # has one, two or three
                    pt.sizes[("rows", nm)] = 2 + k_ % 3 if norm else 1 + k_ % 4
                    pt.sizes[("rows", other)] = 1 + (k_ // 3) % 3
                if unmodelled_in(e):
                    rep.unmodelled("PE-LIST", fi, fi.node, f"entry {k} not fully modelled (normalize={norm})")
                    continue
                ok, w = symeval.equivalent(e, entropy_spec(nm, norm), trials=18, input_fn=symeval.bars_input, nrows=4, sym_fn=sizes)
                if ok is True:
                    rep.discharged("PE-LIST", fi, fi.node, f"normalize={norm}: entry {k} of the result is the entropy of diagram {k} alone")
                elif ok is False and not I.clean_before():
                    rep.unmodelled("PE-LIST", fi, fi.node, f"normalize={norm}: entry {k} differs from the entropy of diagram {k}, but the run "
                                                           f"was not exact: no verdict")
                elif ok is False:
                    rep.refuted("PE-LIST", fi, fi.node, f"normalize={norm}: entry {k} of the result is not the entropy of diagram {k} alone: "
                                                        f"{sym.show(e)[:160]}; witness {str(w)[:200]}", construct=f"{PE}: list entry {k}")
                else:
                    rep.unmodelled("PE-LIST", fi, fi.node, f"normalize={norm}: entry {k} could not be evaluated ({w})")
    # ---------------- PE-PURE: the entropy is a function of the bars given — preparing the bars (dropping / capping infinite
    # ones) must act on copies, otherwise a second call on the same array measures different bars
    from .common import own_analysis
    oa = own_analysis(project)
    s_ = oa.summary(PE)
    w_ = [ev for ev in s_.events if ev.kind == "write" and ev.origin.is_arg
          and not (ev.needs_nd and isinstance(getattr(ev.node, "target", None), __import__("ast").Name))]
    if w_:
        ev = w_[0]
        owner = project.functions.get(ev.func) or fi
        rep.refuted("PE-PURE", owner, ev.node,
                    f"persistent_entropy edits in place what its caller passed as `{ev.origin.param}` ({ev.how} on {ev.origin}): "
                    f"e.g. infinite deaths are overwritten with val_inf in the caller's array, so a later call (another val_inf, "
                    f"or keep_inf=False) no longer sees the bars it was given",
                    construct=f"{PE}({ev.origin.param}): in-place edit")
    else:
        rep.discharged("PE-PURE", fi, fi.node, "no write event reaches the diagrams passed in (infinite bars are dropped / "
                                               "capped on copies)")
    check_call_styles(project, rep)
    for rname, n in (("PE-PURE", 1), ("PE-FORM", 2), ("PE-INV", 6), ("PE-GUARD", 2), ("PE-INF", 4), ("PE-LIST", 4), ("PE-STYLE", 2)):
        rep.floor(rname, n)
    for t in ("numpy.sum", "numpy.log", "numpy.where", "builtins.all", "numpy.array"):
        rep.trust(t)
