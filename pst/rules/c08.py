"""C08 — grid landscapes stay within half a step of the true landscape: the structural clauses only.

The quantitative core (|sampled − true| ≤ step/2, exactness on-grid, interpolation reproducing exact values)
quantifies over runtime values and is DECLINED. Decided:
GL-FWD  the scikit-learn transformer forwards its own parameters to the approximate class and returns its
        `values` (flattened iff `flatten`);
GL-GRID every site that rebuilds a landscape's sampling grid uses np.linspace(start, stop, num_steps) of that
        landscape with the default end-point convention;
GL-SNAP snapping picks, per coordinate, the nearest grid node (argmin of |node − x| over the grid axis), both
        coordinates against the same axis — the only part of the half-step bound that is structural;
GL-INDEX the grid position of a snapped end-point is an exact lookup or a rounded quotient, never a truncated one;
GL-DV   the death vector is the descending sort of the death column of dgms[hom_deg] and rejects hom_deg ≠ 0;
GL-INF  infinite bars are removed before start/stop default to min birth / max death.
This is the weakest claim of the suite.
"""
from __future__ import annotations

import ast

from ..core.loader import AnalysisError, Project
from .common import bind_call, const_value, expand_locals, fn_view, local_names, stmts_in_order

AP = "persim.landscapes.approximate.PersLandscapeApprox"
LSC = "persim.landscapes.transformer.PersistenceLandscaper"


def _kw(call):
    return {k.arg: ast.unparse(k.value) for k in call.keywords if k.arg}


def check_fwd(project: Project, rep):
    """GL-FWD, decided by executing `transform` symbolically on a transformer whose parameters are independent symbols and
    observing (not executing) the construction of the approximate landscape: which value reaches which constructor
    parameter, and what is returned under flatten=True / False."""
    from ..core import sym
    from ..core.absint import Config, Interp
    from ..core.values import Arr, ObjV, Sc, Seq, fresh, rows, Unknown
    from .distances import dgm_input
    c = project.cls(LSC)
    tr = c.methods.get("transform")
    if tr is None:
        raise AnalysisError("GL-FWD: transform not found")
    rep.analysed(tr)
    want = ("start", "stop", "num_steps", "hom_deg")
    # position = homological degree: a collection with an EMPTY diagram in a lower degree must reach the constructor with every
    # diagram in its place (an entry-normalisation that drops empty members shifts the degrees above it)
    from ..core.values import fix
    for probe in (1,):
        def stub0(I, bound, n):
            return ObjV(AP, {"values": Arr([(rows("D"), fresh()), (rows("G"), fresh())], sym.Opq("vals", ())),
                             **{k: v for k, v in bound.items() if k in want}})
        I0 = Interp(project, Config(nonempty={("rows", "D"), ("rows", "G"), ("rows", "X0"), ("rows", "X2")}, finite_inputs={"X0", "X2"},
                                    flags={"stub_ctor": {AP: stub0}}))
        me0 = ObjV(LSC, {**{k: Sc(sym.Sym(f"self_{k}")) for k in want}, "flatten": Sc(sym.TRUE)})
        E = Arr([(fix(0), fresh()), (fix(2), fresh())], sym.Opq("empty", ()), "nd")
        X3 = Seq([dgm_input("X0"), E, dgm_input("X2")], "list")
        try:
            I0.call_function(tr, [me0, X3], {}, None)
        except Exception:
            break
        cons0 = [ev for ev in I0.log if ev["kind"] == "construct" and ev["cls"] == AP]
        if len(cons0) != 1 or not I0.clean_before(cons0[0]):
            break
        got0 = cons0[0]["args"].get("dgms")
        if isinstance(got0, Seq) and all(isinstance(a_, Arr) for a_ in got0.items):
            def tag(a_):
                return sorted({x[1] for x in sym.walk(a_.elem) if x[0] == "in"}) or (["<empty>"] if any(
                    sp.concrete == 0 for sp, _ in a_.axes) else ["?"])
            layout = [tag(a_) for a_ in got0.items]
            if layout == [["X0"], ["<empty>"], ["X2"]]:
                rep.discharged("GL-FWD", tr, cons0[0]["node"], "a collection with an empty diagram in degree 1 reaches the constructor "
                                                               "with every diagram in its place", nontrivial=False)
            elif ["?"] not in layout:
                rep.refuted("GL-FWD", tr, cons0[0]["node"],
                            f"a collection [H0, <empty H1>, H2] reaches the constructor as {layout}: the diagrams no longer sit at the "
                            f"position of their homological degree (hom_deg=2 then reads another degree's diagram, or fails)",
                            construct=f"{tr.qualname}: positions of the diagrams")
    for flat in (True, False):
        d, g = fresh(), fresh()
        vals = Arr([(rows("D"), d), (rows("G"), g)], sym.In("vals", ((d, 0), (g, 0))))

        def stub(I, bound, n, vals=vals):
            return ObjV(AP, {"values": vals, **{k: v for k, v in bound.items() if k in want}})
        I = Interp(project, Config(nonempty={("rows", "D"), ("rows", "G"), ("rows", "X0")}, finite_inputs={"vals", "X0"},
                                   flags={"stub_ctor": {AP: stub}}))
        me = ObjV(LSC, {**{k: Sc(sym.Sym(f"self_{k}")) for k in want}, "flatten": Sc(sym.Bool(flat))})
        X = Seq([dgm_input("X0"), dgm_input("X1")], "list")
        try:
            r = I.call_function(tr, [me, X], {}, None)
        except Exception as ex:
            rep.unmodelled("GL-FWD", tr, tr.node, f"symbolic execution of transform failed: {type(ex).__name__}: {ex}"[:200])
            return
        cons = [ev for ev in I.log if ev["kind"] == "construct" and ev["cls"] == AP]
        if len(cons) != 1:
            rep.refuted("GL-FWD", tr, tr.node, f"transform builds {len(cons)} approximate landscapes instead of delegating to "
                                               f"exactly one", construct=f"{tr.qualname}: delegation")
            return
        if flat:
            bound = cons[0]["args"]
            bad, unk = [], []
            for k in want:
                v = bound.get(k)
                if isinstance(v, Sc) and v.e == sym.Sym(f"self_{k}"):
                    continue
                (unk if (v is None or isinstance(v, Unknown)) and k in bound else bad).append(
                    f"{k}={sym.show(v.e)[:60] if isinstance(v, Sc) else ('<default>' if v is None else type(v).__name__)} "
                    f"(should be self.{k})")
            got_d = bound.get("dgms")
            if got_d is not X:
                # a normalised copy of the collection is the same data when it holds the same diagrams in the same places
                def same_item(a_, b_):
                    return a_ is b_ or (isinstance(a_, Arr) and isinstance(b_, Arr) and a_.ndim == b_.ndim
                                        and sym.equal(a_.renamed().elem, b_.renamed().elem) is True) \
                        or (isinstance(a_, Arr) and isinstance(b_, Arr) and repr(a_) == repr(b_))
                if isinstance(got_d, Seq) and len(got_d.items) == len(X.items) and all(same_item(a_, b_) for a_, b_ in zip(got_d.items, X.items)):
                    pass
                elif isinstance(got_d, Seq) and all(isinstance(a_, Arr) for a_ in got_d.items) and (
                        len(got_d.items) != len(X.items) or any(any(same_item(a_, b_) for b_ in X.items) for a_ in got_d.items)):
                    bad.append("dgms is not the data passed to transform (other diagrams, or the same in other places)")
                else:
                    unk.append("dgms: what reaches the constructor could not be compared with the data passed to transform")
            if bad and not I.clean_before(cons[0]):
                rep.unmodelled("GL-FWD", tr, cons[0]["node"], "the constructor's arguments could not be followed (a step before the "
                                                              "call was not modelled): " + "; ".join(bad)[:160])
            elif bad:
                rep.refuted("GL-FWD", tr, cons[0]["node"], "the transformer does not forward its own parameters: " + "; ".join(bad))
            elif unk:
                rep.unmodelled("GL-FWD", tr, cons[0]["node"], "constructor arguments not modelled: " + "; ".join(unk))
            else:
                rep.discharged("GL-FWD", tr, cons[0]["node"], "PersLandscapeApprox(dgms=X, start/stop/num_steps/hom_deg = the "
                                                              "transformer's own)")
        is_vals = isinstance(r, Arr) and r.ndim == 2 and r.elem == vals.elem and \
            all(x[0].same_size(y[0]) for x, y in zip(r.axes, vals.axes))
        flat_c = is_vals and getattr(r, "flat", None) == "C"
        plain = is_vals and getattr(r, "flat", None) is None
        rets = [ev for ev in I.log if ev["kind"] == "return" and ev["fi"] is tr]
        node = rets[-1]["node"] if rets else tr.node
        if (flat and flat_c) or (not flat and plain):
            rep.discharged("GL-FWD", tr, node, f"flatten={flat}: returns the landscape's sampled values" +
                           (" flattened row-major" if flat else " as a (depth × grid) array"))
        elif is_vals or isinstance(r, (Arr, Sc)):
            rep.refuted("GL-FWD", tr, node, f"flatten={flat}: transform returns {r!r}"[:200] +
                        ": not the sampled values of the approximate landscape (flattened iff `flatten`)")
        else:
            rep.unmodelled("GL-FWD", tr, node, f"flatten={flat}: returned value not modelled: {r!r}"[:200])
    if any(b_.endswith("TransformerMixin") for b_ in c.bases) and "fit_transform" not in c.methods:
        rep.discharged("GL-FWD", tr, c.node, "fit_transform is scikit-learn's fit(X).transform(X)", nontrivial=False)


def _linspace_calls(project, fi, f):
    locs = local_names(f)
    return [n for n in ast.walk(f) if isinstance(n, ast.Call) and project.resolve(fi.module, n.func, locs) == "numpy.linspace"]


def _grid_args(f, call):
    kws = {k.arg: k.value for k in call.keywords}
    pos = list(call.args)
    start = pos[0] if len(pos) > 0 else kws.get("start")
    stop = pos[1] if len(pos) > 1 else kws.get("stop")
    num = pos[2] if len(pos) > 2 else kws.get("num")
    ep = kws.get("endpoint")
    txt = lambda e: ast.unparse(expand_locals(f, e)) if e is not None else None
    return txt(start), txt(stop), txt(num), ep


def _owner_grid(f, call):
    """(owner, start, stop, num, endpoint) if the call is np.linspace(X.start, X.stop, …) for one name X"""
    s, e, n, ep = _grid_args(f, call)
    if s and s.endswith(".start") and e and e.endswith(".stop") and s[:-6] == e[:-5]:
        return s[:-6], s, e, n, ep
    if s and s.endswith(".start"):
        return s[:-6], s, e, n, ep
    return None


def check_grid(project: Project, rep):
    sites = [
        (f"{AP}.compute_landscape", None),
        (f"{AP}.values_to_pairs", None),
        ("persim.landscapes.tools.snap_pl", "source"),
        ("persim.landscapes.visuals.plot_landscape_approx", "source"),
        ("persim.landscapes.visuals.plot_landscape_approx_simple", None),
    ]
    for q, role in sites:
        fi = project.function(q)
        rep.analysed(fi)
        f = fn_view(project, fi)
        calls = [(c, _owner_grid(f, c)) for c in _linspace_calls(project, fi, f)]
        mine = [(c, g) for c, g in calls if g is not None]
        if role == "source":
            pref = [(c, g) for c, g in mine if g[3] == f"{g[0]}.num_steps"]
            mine = pref or mine
        if not mine:
            locs_ = local_names(f)
            ar = [n for n in ast.walk(f) if isinstance(n, ast.Call) and project.resolve(fi.module, n.func, locs_) == "numpy.arange"
                  and any(isinstance(x, ast.Attribute) and x.attr in ("start", "stop") for x in ast.walk(n))]
            if ar:
                rep.refuted("GL-GRID", fi, ar[0], f"{q.rsplit('.', 1)[1]} rebuilds the landscape's grid with `{ast.unparse(ar[0])[:80]}` "
                                                  f"instead of np.linspace(<landscape>.start, <landscape>.stop, <landscape>.num_steps): "
                                                  f"the number of nodes and the last node differ from the grid the values were "
                                                  f"sampled on", construct=f"{q}: grid reconstruction")
            else:
                rep.unmodelled("GL-GRID", fi, fi.node, f"{q.rsplit('.', 1)[1]}: how the landscape's grid is rebuilt was not recognised")
            continue
        c, (owner, s, e, n, ep) = mine[0]
        # in the simple approximate plot the number of nodes is the length of the row being plotted
        row_len = False
        if q.endswith("approx_simple") and n and n.startswith("len(") and n.endswith(")"):
            v = n[4:-1]
            row_len = any(isinstance(x, ast.Call) and isinstance(x.func, ast.Attribute) and x.func.attr == "plot"
                          and len(x.args) >= 2 and ast.unparse(expand_locals(f, x.args[1])) == v for x in ast.walk(f))
        num_ok = n == f"{owner}.num_steps" or row_len
        ep_ok = ep is None or (isinstance(ep, ast.Constant) and ep.value is True)
        if e == f"{owner}.stop" and ep_ok and not num_ok and n and n.startswith("len(") and q.endswith("approx_simple"):
            rep.unmodelled("GL-GRID", fi, c, f"the number of grid nodes is `{n}`; whether that is the row being plotted could "
                                             f"not be followed")
        elif e == f"{owner}.stop" and num_ok and ep_ok:
            rep.discharged("GL-GRID", fi, c, f"grid = np.linspace({s}, {e}, {n}) with the default end-point convention")
        else:
            why = []
            if e != f"{owner}.stop":
                why.append(f"stop is {e}")
            if not num_ok:
                why.append(f"number of nodes is {n}")
            if not ep_ok:
                why.append("endpoint=False")
            rep.refuted("GL-GRID", fi, c, f"the grid paired with the sampled values is np.linspace({s}, {e}, {n}"
                                          f"{', endpoint=False' if not ep_ok else ''}): " + ", ".join(why) +
                        " — it differs from the grid the values were sampled on")
    # target grids of snap_pl / vectorize use the requested parameters
    for q in ("persim.landscapes.tools.snap_pl", "persim.landscapes.tools.vectorize"):
        fi = project.function(q)
        rep.analysed(fi)
        f = fn_view(project, fi)
        if all(x in fi.params for x in ("start", "stop", "num_steps")):
            P3 = ("start", "stop", "num_steps")   # by name: they may be keyword-only or sit behind a shim for positional calls
        elif len(fi.params) >= 4 and not (fi.node.args.vararg or fi.node.args.kwonlyargs):
            P3 = tuple(fi.params[1:4])
        else:
            rep.unmodelled("GL-GRID", fi, fi.node, f"unexpected signature {fi.params}")
            continue
        all_ls = _linspace_calls(project, fi, f)
        tg = [c for c in all_ls if _grid_args(f, c)[:3] == P3]
        others = [c for c in all_ls if _grid_args(f, c)[:3] != P3 and _owner_grid(f, c) is None]
        if tg and _grid_args(f, tg[0])[3] is None:
            rep.discharged("GL-GRID", fi, tg[0], "target grid = np.linspace(start, stop, num_steps) of the requested parameters")
        elif tg or others:
            c_ = (tg or others)[0]
            rep.refuted("GL-GRID", fi, c_, f"{q.rsplit('.', 1)[1]}: the target grid is `{ast.unparse(c_)[:80]}`, not "
                                           f"np.linspace(start, stop, num_steps)", construct=f"{q}: target grid")
        else:
            rep.unmodelled("GL-GRID", fi, fi.node, f"{q.rsplit('.', 1)[1]}: the target grid was not recognised")
        ctor = [n for n in ast.walk(f) if isinstance(n, ast.Call) and project.resolve(fi.module, n.func, local_names(f)) == AP]
        if ctor:
            init = project.cls(AP).methods["__init__"]
            kws = {k: ast.unparse(expand_locals(f, v)) for k, v in bind_call(init.node, ctor[0], receiver=True).items()}
            if (kws.get("start"), kws.get("stop"), kws.get("num_steps")) == P3:
                rep.discharged("GL-GRID", fi, ctor[0], "the result declares the same grid it was sampled on", nontrivial=False)
            else:
                rep.refuted("GL-GRID", fi, ctor[0], f"the result declares grid ({kws.get('start')}, {kws.get('stop')}, "
                                                    f"{kws.get('num_steps')}) but was sampled on {P3}")


def check_snap(project: Project, rep):
    fi = project.function("persim.landscapes.auxiliary.ndsnap_regular")
    rep.analysed(fi)
    f = fn_view(project, fi)
    locs = local_names(f)
    arg = [n for n in ast.walk(f) if isinstance(n, ast.Call) and project.resolve(fi.module, n.func, locs) in ("numpy.argmin", "numpy.argmax")]
    if len(arg) != 1:
        rep.unmodelled("GL-SNAP", fi, f, "nearest-node selection not found")
    else:
        c = arg[0]
        t = project.resolve(fi.module, c.func, locs)
        inner = c.args[0] if c.args else None
        has_abs = inner is not None and any(isinstance(x, ast.Call) and project.resolve(fi.module, x.func, locs) in
                                            ("numpy.abs", "builtins.abs", "numpy.absolute") for x in ast.walk(inner))
        has_sq = inner is not None and any(isinstance(x, ast.BinOp) and isinstance(x.op, ast.Pow) and const_value(x.right) == 2
                                           for x in ast.walk(inner))
        axis = [k.value for k in c.keywords if k.arg == "axis"] or c.args[1:2]
        if t == "numpy.argmax":
            rep.refuted("GL-SNAP", fi, c, "snapping picks the FARTHEST grid node (argmax of the distance)")
        elif not (has_abs or has_sq):
            rep.refuted("GL-SNAP", fi, c, "snapping takes argmin of the signed difference, not of |node − x|: every point snaps to "
                                          "the smallest node")
        elif not axis or const_value(axis[0]) != 0:
            rep.refuted("GL-SNAP", fi, c, f"argmin runs over axis {ast.unparse(axis[0]) if axis else 'None (flattened)'}, not over "
                                          f"the grid axis")
        else:
            rep.discharged("GL-SNAP", fi, c, "per coordinate, the node at argmin(|node − x|) over the grid axis is selected (error "
                                             "≤ step/2)")
        # diff = ax[:, newaxis] - points[:, i]   (i, ax) from enumerate(grid axes)
        from .common import enclosing_iterations
        inner_e = expand_locals(f, inner) if inner is not None else None
        subs = [x for x in ast.walk(inner_e) if isinstance(x, ast.BinOp) and isinstance(x.op, ast.Sub)] if inner_e is not None else []
        its = enclosing_iterations(f, c)
        pair = [(t, it) for t, it in its if isinstance(t, ast.Tuple) and len(t.elts) == 2 and isinstance(it, ast.Call)
                and ast.unparse(it.func) == "enumerate" and all(isinstance(e, ast.Name) for e in t.elts)]
        if subs and pair:
            d = subs[0]
            ivar, axvar = (e.id for e in pair[0][0].elts)
            txt = ast.unparse(d.left) + " ~ " + ast.unparse(d.right)
            bc = "newaxis" in txt or "None" in txt
            pts = fi.params[0]
            col_i = f"{pts}[:, {ivar}]" in txt
            uses_ax = any(isinstance(x, ast.Name) and x.id == axvar for x in ast.walk(d))
            other_col = [x for x in ast.walk(d) if isinstance(x, ast.Subscript) and isinstance(x.value, ast.Name) and x.value.id == pts
                         and isinstance(x.slice, ast.Tuple) and len(x.slice.elts) == 2 and not (
                             isinstance(x.slice.elts[1], ast.Name) and x.slice.elts[1].id == ivar)]
            if bc and col_i and uses_ax:
                rep.discharged("GL-SNAP", fi, c, "coordinate i of every point is compared with axis i of the grid")
            elif other_col:
                rep.refuted("GL-SNAP", fi, c, f"`{ast.unparse(d)}` does not compare coordinate i of the points with grid axis i")
            else:
                rep.unmodelled("GL-SNAP", fi, c, f"`{ast.unparse(d)[:80]}`: pairing of coordinates with grid axes not recognised")
        else:
            rep.unmodelled("GL-SNAP", fi, c, "pairing of coordinates with grid axes not recognised")
    cl = project.function(f"{AP}.compute_landscape")
    clv = fn_view(project, cl)
    calls = [n for n in ast.walk(clv) if isinstance(n, ast.Call) and
             project.resolve(cl.module, n.func, local_names(clv)) == "persim.landscapes.auxiliary.ndsnap_regular"]
    if calls:
        c = calls[0]
        star = [a for a in c.args if isinstance(a, ast.Starred)]
        axes = []
        if star and isinstance(star[0].value, ast.Tuple):
            axes = [ast.unparse(expand_locals(clv, e)) for e in star[0].value.elts]
        else:
            axes = [ast.unparse(expand_locals(clv, a)) for a in c.args[1:]]
        if len(axes) == 2 and axes[0] == axes[1]:
            rep.discharged("GL-SNAP", cl, c, f"births and deaths are snapped to the same axis `{axes[0]}`")
        else:
            rep.refuted("GL-SNAP", cl, c, f"births and deaths are snapped to different axes {axes}")
    else:
        rep.refuted("GL-SNAP", cl, cl.node, "the approximate landscape no longer snaps bars to the grid before sampling",
                    construct=f"{cl.qualname}: snapping")


def check_index(project: Project, rep, ramp_status=None):
    """GL-INDEX: the position of a snapped end-point on the grid comes from an exact lookup or a rounded quotient —
    never from int() truncation of a float quotient ((g_i − start)/step evaluates to i − ε for many i)"""
    cl = project.function(f"{AP}.compute_landscape")
    f = fn_view(project, cl)
    used_as_index = set()
    for n in ast.walk(f):
        if isinstance(n, ast.Subscript):
            for x in ast.walk(n.slice):
                if isinstance(x, ast.Name):
                    used_as_index.add(x.id)
    found = 0
    for n in ast.walk(f):
        if not (isinstance(n, ast.Assign) and isinstance(n.targets[0], ast.Name) and n.targets[0].id in used_as_index):
            continue
        v = n.value
        name = n.targets[0].id

        def truncating(e):
            if isinstance(e, ast.Call) and isinstance(e.func, ast.Name) and e.func.id == "int" and e.args:
                inner = e.args[0]
                rounded = isinstance(inner, ast.Call) and ast.unparse(inner.func) in ("round", "np.round", "np.rint", "np.around",
                                                                                       "np.ceil", "np.floor", "math.floor", "math.ceil")
                has_div = any(isinstance(x, ast.BinOp) and isinstance(x.op, ast.Div) for x in ast.walk(inner))
                return has_div and not rounded
            if isinstance(e, ast.BinOp) and isinstance(e.op, ast.FloorDiv):
                # floor division of floats truncates the same way; integer // integer is exact
                return any(isinstance(x, ast.Attribute) and x.attr in ("start", "stop") for x in ast.walk(e)) or \
                    any(isinstance(x, ast.Name) and x.id == "step" for x in ast.walk(e))
            return False

        if truncating(v):
            found += 1
            rep.refuted("GL-INDEX", cl, n,
                        f"grid index `{name}` is obtained by truncating a floating-point quotient ({ast.unparse(v)}): for an "
                        f"end-point lying exactly on node i the quotient is often i − ε, so the bar is sampled one whole step "
                        f"low (error of a full step instead of half a step; not exact on-grid)")
        elif isinstance(v, ast.Subscript) and isinstance(v.value, ast.Name):
            # lookup in a table built from the grid itself
            tab = v.value.id
            src = [a for a in ast.walk(f) if isinstance(a, ast.Assign) and isinstance(a.targets[0], ast.Name) and a.targets[0].id == tab]
            sv = src[0].value if src else None
            by_zip = sv is not None and "zip" in ast.unparse(sv) and "dict" in ast.unparse(sv)
            # {value: position for position, value in enumerate(grid)}
            by_comp = isinstance(sv, ast.DictComp) and len(sv.generators) == 1 and isinstance(sv.generators[0].iter, ast.Call) \
                and ast.unparse(sv.generators[0].iter.func) == "enumerate" and isinstance(sv.generators[0].target, ast.Tuple) \
                and len(sv.generators[0].target.elts) == 2 \
                and ast.unparse(sv.key) == ast.unparse(sv.generators[0].target.elts[1]) \
                and ast.unparse(sv.value) == ast.unparse(sv.generators[0].target.elts[0])
            if by_zip or by_comp:
                found += 1
                rep.discharged("GL-INDEX", cl, n, f"grid index `{name}` is an exact lookup of the snapped value in the grid's own "
                                                  f"value→position table")
    if not found and ramp_status == "ok":
        # GL-RAMP derived every sampled position from the code and found it between the nearest nodes of the raw end-points
        # (computed from the statement): whatever turns snapped values into positions is therefore an exact lookup
        for _ in range(2):
            rep.discharged("GL-INDEX", cl, f, "grid positions of the snapped end-points: established by GL-RAMP (sampled positions "
                                              "are relative to the nearest nodes of the raw end-points for every grid)")
    elif not found and ramp_status == "refuted":
        for _ in range(2):
            rep.discharged("GL-INDEX", cl, f, "no truncating conversion found; the positions are decided by GL-RAMP (refuted there)",
                           nontrivial=False)
    elif not found:
        rep.unmodelled("GL-INDEX", cl, f, "how snapped end-points are turned into grid positions was not recognised")


def _inf_semantic(project: Project, rep, init) -> bool:
    """start / stop left out: they become the smallest birth / largest death over the bars that have no infinite end-point,
    and the diagram kept for sampling holds exactly those bars. True when decided (either way)."""
    import random
    from ..core import sym, symeval
    from ..core.absint import Config, Interp
    from ..core.values import Arr, NoneV, ObjV, Sc, Seq, fix, fresh
    from .distances import dgm_input, unmodelled_in
    I = Interp(project, Config(nonempty={("rows", "X")}, finite_inputs=set(), flags=dict(sub_nonempty=True)))
    me = ObjV(AP, {})
    args = {"dgms": Seq([dgm_input("X")], "list"), "hom_deg": Sc(sym.ZERO), "start": NoneV(), "stop": NoneV(),
            "num_steps": Sc(sym.Sym("n")), "values": Arr([(fix(0), fresh())], sym.Opq("empty", ()), "nd"), "compute": Sc(sym.FALSE)}
    try:
        I.call_function(init, [me], {k: v for k, v in args.items() if k in init.params}, None)
    except Exception:
        return False
    st, sp_ = me.attrs.get("start"), me.attrs.get("stop")
    if not (isinstance(st, Sc) and isinstance(sp_, Sc)) or st.e is None or sp_.e is None or unmodelled_in(st.e) or unmodelled_in(sp_.e) \
            or I.lossy:
        return False
    r = "$r"
    b, d = sym.In("X", ((r, 0), 0)), sym.In("X", ((r, 0), 1))
    fin = sym.And(sym.fn("isfinite", b), sym.fn("isfinite", d))
    want = {"start": sym.Red("min", r, ("sub", ("rows", "X"), fin), b), "stop": sym.Red("max", r, ("sub", ("rows", "X"), fin), d)}
    rng = random.Random(13)

    def some_inf(pt_, name, idx):
        if name == "X" and len(idx) == 2 and idx[1] == 1 and idx[0] > 0 and pt_.rng.random() < 0.5:
            return float("inf")
        return None
    decided = True
    for name, got in (("start", st.e), ("stop", sp_.e)):
        bad = None
        n_ok = 0
        for t in range(40):
            pt = symeval.Point(rng, nrows=3, input_fn=some_inf)
            try:
                g, w = symeval.ev(got, pt), symeval.ev(want[name], pt)
            except symeval.NotEvaluable:
                continue
            n_ok += 1
            if not (g == w or abs(g - w) <= 1e-12 * (1 + abs(w))):
                bad = (g, w, {f"{k[0]}{list(k[1])}": round(v, 4) if v == v and abs(v) != float("inf") else str(v)
                              for k, v in sorted(pt.inputs.items())})
                break
        if bad:
            g, w, inp = bad
            rep.refuted("GL-INF", init, init.node,
                        f"with start/stop left out and an infinite bar in the diagram, the default `{name}` is {g:.4g} instead of "
                        f"{w:.4g} (the {'smallest birth' if name == 'start' else 'largest death'} over the finite bars); diagram {inp}",
                        construct=f"{init.qualname}: default {name}")
        elif n_ok >= 10:
            rep.discharged("GL-INF", init, init.node, f"default `{name}` is the {'smallest birth' if name == 'start' else 'largest death'} "
                                                      f"over the bars without an infinite end-point ({n_ok} evaluated diagrams)")
        else:
            decided = False
    dg = me.attrs.get("dgms")
    if isinstance(dg, Arr) and dg.ndim == 2:
        key = dg.axes[0][0].key
        masks = []
        while isinstance(key, tuple) and key and key[0] == "sub":
            masks.append(key[2])
            key = key[1]
        if key == ("rows", "X") and masks:
            riv = dg.axes[0][1]
            m = sym.And(*masks)
            for v_ in sorted(sym.free_ivars(m) - {riv}):
                m = sym.subst_ivar(m, v_, (riv, 0))
            ok, w = symeval.equivalent(m, sym.subst_ivar(fin, r, (riv, 0)), trials=40, input_fn=some_inf)
            if ok is True:
                rep.discharged("GL-INF", init, init.node, "the diagram kept for sampling holds exactly the bars without an infinite "
                                                          "end-point")
            elif ok is False:
                rep.refuted("GL-INF", init, init.node, f"bars are kept under {sym.show(m)[:100]} instead of 'no infinite end-point'",
                            construct=f"{init.qualname}: inf removal")
        elif key == ("rows", "X"):
            rep.refuted("GL-INF", init, init.node, "infinite bars are not removed from the diagram that is sampled",
                        construct=f"{init.qualname}: inf removal")
        else:
            decided = False
    else:
        decided = False
    return decided


def _dv_semantic(project: Project, rep, fi) -> bool:
    """GL-DV decided on the evaluated function: with hom_deg = 0 the value returned is the whole death column of dgms[0] in
    non-increasing order; with hom_deg = 1 every path raises.  False when the evaluation is not exact (the caller falls back
    on the syntactic forms)."""
    from ..core.absint import Config, Interp
    from ..core import sym
    from ..core.values import Bag, Sc, Seq
    from .distances import dgm_input, Dd
    if len(fi.params) < 2:
        return False
    P_DGMS, P_DEG = fi.params[:2]

    def go(deg, n_dgms):
        I = Interp(project, Config(nonempty={("rows", "X")}, finite_inputs={"X", "Y"}))
        v = I.run(fi.qualname, {P_DGMS: Seq([dgm_input(nm) for nm in ("X", "Y")[:n_dgms]], "list"), P_DEG: Sc(sym.Num(deg))})
        return I, v
    try:
        I, v = go(0, 2)
        others = [(d, go(d, 2)[0]) for d in (1, 2)]
    except AnalysisError:
        return False
    if I.unmodelled or I.lossy or any(J.unmodelled or J.lossy for _, J in others):
        return False
    for d, J in others:
        top1 = [ev for ev in J.log if ev["kind"] == "return" and ev["fi"] is fi]
        raised1 = [ev for ev in J.log if ev["kind"] == "raise"]
        if raised1 and not top1:
            rep.discharged("GL-DV", fi, raised1[0]["node"], f"evaluated with hom_deg = {d}: every path raises", nontrivial=False)
        else:
            rep.refuted("GL-DV", fi, (top1[0]["node"] if top1 else fi.node), f"evaluated with hom_deg = {d}: a value is returned "
                        "instead of the documented rejection", construct=f"{fi.qualname}: guard")
    rets = [ev for ev in I.log if ev["kind"] == "return" and ev["fi"] is fi]
    if [ev for ev in I.log if ev["kind"] == "raise"] or len(rets) != 1:
        return False
    node = rets[0]["node"]
    if not isinstance(v, Bag) or not v.is_sorted:
        if isinstance(v, Bag) or hasattr(v, "axes"):
            rep.refuted("GL-DV", fi, node, "evaluated with hom_deg = 0: the value returned is not sorted",
                        construct=f"{fi.qualname}: death vector")
            return True
        return False
    from .distances import unmodelled_in
    if unmodelled_in(v.elem):
        return False
    ivs = sorted(sym.free_ivars(v.elem))
    got = sym.subst_ivar(v.elem, ivs[0], ("$X", 0)) if len(ivs) == 1 else v.elem
    if got != Dd("X"):
        rep.refuted("GL-DV", fi, node, f"evaluated with hom_deg = 0: the sorted entries are {sym.show(v.elem)[:60]}, not the deaths of "
                                       "dgms[0]", construct=f"{fi.qualname}: death vector")
        return True
    if v.size is None:
        return False
    if v.size != sym.Size(("rows", "X")):
        rep.refuted("GL-DV", fi, node, f"evaluated with hom_deg = 0: {sym.show(v.size)[:50]} deaths are returned, not one per bar of "
                                       "dgms[0]", construct=f"{fi.qualname}: death vector")
        return True
    if v.direction == "desc":
        rep.discharged("GL-DV", fi, node, "evaluated with hom_deg = 0: all deaths of dgms[0], sorted in non-increasing order")
    elif v.direction == "asc":
        rep.refuted("GL-DV", fi, node, "evaluated with hom_deg = 0: the deaths are sorted in increasing order",
                    construct=f"{fi.qualname}: death vector")
    else:
        return False
    return True


def check_dv_inf(project: Project, rep):
    fi = project.function("persim.landscapes.tools.death_vector")
    rep.analysed(fi)
    f = fn_view(project, fi)
    P_DGMS, P_DEG = (fi.params + ["dgms", "hom_deg"])[:2]
    guard = [n for n in ast.walk(f) if isinstance(n, ast.If) and P_DEG in ast.unparse(n.test) and _always_raises(n.body)]
    ok_guard = {f"{P_DEG}!=0", f"{P_DEG}>0", f"not{P_DEG}==0", f"0!={P_DEG}", f"0<{P_DEG}", f"{P_DEG}>=1"}
    sem = _dv_semantic(project, rep, fi)
    if sem:
        pass
    elif guard and ast.unparse(guard[0].test).replace(" ", "") in ok_guard:
        rep.discharged("GL-DV", fi, guard[0], "hom_deg ≠ 0 is rejected", nontrivial=False)
    elif guard:
        rep.unmodelled("GL-DV", fi, guard[0], f"degree guard `{ast.unparse(guard[0].test)}` not recognised")
    else:
        rep.refuted("GL-DV", fi, f, "death_vector no longer rejects homological degrees other than 0", construct=f"{fi.qualname}: guard")
    rets = [n for n in ast.walk(f) if isinstance(n, ast.Return) and n.value is not None]
    for r in ([] if sem else rets):
        v = expand_locals(f, r.value)
        txt = ast.unparse(v).replace(" ", "")
        desc = ("sorted(" in txt and "reverse=True" in txt) or ("np.sort(" in txt and txt.endswith("[::-1]")) or \
               ("-np.sort(-" in txt)
        col = f"{P_DGMS}[{P_DEG}][:,1]" in txt or f"{P_DGMS}[0][:,1]" in txt
        other_col = f"{P_DGMS}[{P_DEG}][:,0]" in txt
        if desc and col:
            rep.discharged("GL-DV", fi, r, "returns the death column of dgms[hom_deg] sorted in non-increasing order")
        elif col and ("sorted(" in txt or "np.sort(" in txt):
            rep.refuted("GL-DV", fi, r, f"`{ast.unparse(v)}` sorts the deaths in increasing order")
        elif desc and other_col:
            rep.refuted("GL-DV", fi, r, f"`{ast.unparse(v)}` does not sort column 1 (deaths) of dgms[hom_deg]")
        elif col:
            rep.unmodelled("GL-DV", fi, r, f"`{ast.unparse(v)[:80]}`: how the death column is ordered was not recognised")
        else:
            rep.unmodelled("GL-DV", fi, r, f"`{ast.unparse(v)[:80]}`: form of the death vector not recognised")
    # GL-INF in PersLandscapeApprox.__init__: decided on the constructor evaluated with a diagram that may hold infinite bars
    init = project.function(f"{AP}.__init__")
    rep.analysed(init)
    if _inf_semantic(project, rep, init):
        return
    body = fn_view(project, init)
    order = {id(st): k for k, st in enumerate(stmts_in_order(body))}
    P_START, P_STOP = "start", "stop"
    stores = [n for n in ast.walk(body) if isinstance(n, ast.Assign) and isinstance(n.targets[0], ast.Attribute)
              and n.targets[0].attr == "dgms"]
    filt = [n for n in stores if "inf" in ast.unparse(expand_locals(body, n.value))]
    mins = [n for n in ast.walk(body) if isinstance(n, ast.Assign) and isinstance(n.targets[0], ast.Name)
            and n.targets[0].id in (P_START, P_STOP) and isinstance(n.value, ast.Subscript)]
    if filt and mins and all(order[id(filt[0])] < order[id(m)] for m in mins) \
            and all("self.dgms" in ast.unparse(m.value) for m in mins):
        rep.discharged("GL-INF", init, filt[0], "rows containing inf are removed before start/stop are derived from the data")
    elif mins and (not filt or any(order[id(filt[0])] > order[id(m)] for m in mins)):
        rep.refuted("GL-INF", init, body, "start/stop defaults are derived before infinite bars are removed (stop becomes inf)",
                    construct=f"{init.qualname}: inf removal order")
    else:
        rep.unmodelled("GL-INF", init, body, "how start/stop default from the data was not recognised")
    for m in mins:
        txt = ast.unparse(m.value).replace(" ", "")
        which = m.targets[0].id
        good = {P_START: {"min(self.dgms,key=itemgetter(0))[0]", "min(self.dgms,key=lambdax:x[0])[0]"},
                P_STOP: {"max(self.dgms,key=itemgetter(1))[1]", "max(self.dgms,key=lambdax:x[1])[1]"}}[which]
        recognised = txt.startswith(("min(self.dgms,key=itemgetter(", "max(self.dgms,key=itemgetter("))
        if txt in good:
            rep.discharged("GL-INF", init, m, f"default {which} = {'min birth' if which == P_START else 'max death'}")
        elif recognised:
            rep.refuted("GL-INF", init, m, f"default {which} is `{ast.unparse(m.value)}`, not the "
                                           f"{'smallest birth' if which == P_START else 'largest death'}: the grid does not "
                                           f"cover the diagram")
        else:
            rep.unmodelled("GL-INF", init, m, f"default {which} `{ast.unparse(m.value)[:80]}` not recognised")


def _always_raises(stmts) -> bool:
    return any(isinstance(x, ast.Raise) for x in stmts)


def check_all_bars(project: Project, rep):
    """GL-ALLBARS: the sampled landscape is a pointwise k-th maximum over ALL bars, so the loop that visits the (snapped) bars
    of the diagram must visit every one: a `break` or `return` inside it drops the bars that come later in the diagram (a bar
    that contributes nothing is skipped with `continue`).  The per-bar loop is the `for` whose iterable derives from the
    diagram (`self.dgms`, the result of the snapping helper); loops over grid nodes / depths are not concerned."""
    from .common import expand_locals
    fi = project.functions.get(AP + ".compute_landscape")
    if fi is None:
        rep.unmodelled("GL-ALLBARS", None, None, "compute_landscape of the grid class not found")
        return
    f = fn_view(project, fi)
    found = 0
    for lp in [n for n in ast.walk(f) if isinstance(n, ast.For)]:
        src = ast.unparse(expand_locals(f, lp.iter))
        if not ("dgms" in src or "ndsnap_regular" in src or "bd_pairs" in src):
            continue
        found += 1
        leaves = [x for st in lp.body for x in ast.walk(st) if isinstance(x, (ast.Break, ast.Return))
                  and not _inside_inner_loop(lp, x)]
        if leaves:
            rep.refuted("GL-ALLBARS", fi, leaves[0], f"the loop over the bars of the diagram (`for {ast.unparse(lp.target)} in "
                                                     f"{ast.unparse(lp.iter)[:50]}`) is left by `{ast.unparse(leaves[0])}`: the bars that come "
                                                     f"after that point in the diagram never reach the landscape",
                        construct=f"{fi.qualname}: early exit from the per-bar loop")
        else:
            rep.discharged("GL-ALLBARS", fi, lp, "the per-bar loop visits every bar (no break / return inside it)")
    if not found:
        rep.unmodelled("GL-ALLBARS", fi, fi.node, "no loop over the bars of the diagram was recognised (a vectorised construction?)")


def _inside_inner_loop(outer, node) -> bool:
    """a break belongs to the innermost loop around it"""
    if not isinstance(node, ast.Break):
        return False
    for inner in [n for st in outer.body for n in ast.walk(st) if isinstance(n, (ast.For, ast.While))]:
        if any(x is node for st in inner.body + inner.orelse for x in ast.walk(st)):
            return True
    return False


def run(project: Project, rep, tier: str):
    rep.explain(
        "C08 — narrow claim. The half-step error bound, exactness on-grid and interpolation exactness quantify over runtime "
        "values and are declined. Decided are the clauses visible in the shape of the code: GL-FWD (the transformer delegates "
        "with its own parameters and returns .values / .values.flatten()), GL-GRID (sibling agreement of the 5 sites that "
        "rebuild a landscape's grid and the 2 target grids), GL-SNAP (nearest-node selection, same axis for births and "
        "deaths), GL-DV, GL-INF. Site rules over the AST with call resolution through the import table.")
    rep.assume("np.linspace(start, stop, n) with default endpoint=True is the sampling grid convention of the approximate class")
    check_fwd(project, rep)
    check_grid(project, rep)
    from .ramp import check_pack, check_ramp, check_vectorize
    check_vectorize(project, rep)
    ramp_status = check_ramp(project, rep)
    from ..core.report import Report
    pre_snap = Report("C08-snap")
    check_snap(project, pre_snap)
    if ramp_status == "ok" and pre_snap.errors and not pre_snap.refutations:
        # GL-RAMP placed every sample relative to the nearest nodes of the raw end-points (computed from the statement): the
        # snapping, however it is written, picks the nearest node
        cl_ = project.function(f"{AP}.compute_landscape")
        for _ in range(3):
            rep.discharged("GL-SNAP", cl_, cl_.node, "nearest-node selection: established by GL-RAMP (positions are relative to "
                                                     "the nearest nodes of the raw end-points on every tested grid)")
    else:
        check_snap(project, rep)
    if ramp_status == "ok":
        check_pack(project, rep)
    check_index(project, rep, ramp_status)
    check_dv_inf(project, rep)
    # GL-DEFAULT: a grid bound that is `None` when not given must not be defaulted by a truth test — start = 0 / stop = 0 are
    # legitimate requests and would silently be replaced by the data's own bounds
    from .common import none_vs_truthiness
    bad, n_keys = none_vs_truthiness(project, "persim.landscapes.")
    for (owner, name), none_sites, truthy_sites in bad:
        fi_, node_ = truthy_sites[0]
        rep.refuted("GL-DEFAULT", fi_, node_,
                    f"`{name}` uses None as 'not given' ({none_sites[0][0].loc(none_sites[0][1])}) but is "
                    f"truth-tested here (`{ast.unparse(node_)}`): an explicitly requested value 0 is treated as not given and "
                    f"replaced by the default, so the values are sampled on a different grid than the one requested",
                    construct=f"{owner}: truth test of {name}")
    if not bad:
        rep.discharged("GL-DEFAULT", None, None, f"{n_keys} parameters/attributes of the landscape modules use None as the "
                                                 f"'not given' marker; none of them is also truth-tested")
    check_all_bars(project, rep)
    for rn, n in (("GL-FWD", 3), ("GL-GRID", 7), ("GL-SNAP", 3), ("GL-INDEX", 2), ("GL-DV", 2), ("GL-INF", 3), ("GL-DEFAULT", 1), ("GL-RAMP", 1), ("GL-VEC", 8), ("GL-ALLBARS", 1)):
        rep.floor(rn, n)
