"""C08 — grid landscapes stay within half a step of the true landscape: the structural clauses only.

The quantitative core (|sampled − true| ≤ step/2, exactness on-grid, interpolation reproducing exact values)
quantifies over runtime values and is DECLINED. Decided:
GL-FWD  the scikit-learn transformer forwards its own parameters to the approximate class and returns its
        `values` (flattened iff `flatten`);
GL-GRID every site that rebuilds a landscape's sampling grid uses np.linspace(start, stop, num_steps) of that
        landscape with the default end-point convention;
GL-SNAP snapping picks, per coordinate, the nearest grid node (argmin of |node − x| over the grid axis), both
        coordinates against the same axis — the only part of the half-step bound that is structural;
GL-INDEX the grid position of a snapped end-point is an exact lookup or a rounded quotient, never a truncated one;
GL-DV   the death vector is the descending sort of the death column of dgms[hom_deg] and rejects hom_deg ≠ 0;
GL-INF  infinite bars are removed before start/stop default to min birth / max death.
This is the weakest claim of the suite.
"""
from __future__ import annotations

import ast

from ..core.loader import AnalysisError, Project
from .common import const_value, local_names

AP = "persim.landscapes.approximate.PersLandscapeApprox"
LSC = "persim.landscapes.transformer.PersistenceLandscaper"


def _kw(call):
    return {k.arg: ast.unparse(k.value) for k in call.keywords if k.arg}


def check_fwd(project: Project, rep):
    c = project.cls(LSC)
    tr = c.methods.get("transform")
    if tr is None:
        raise AnalysisError("GL-FWD: transform not found")
    rep.analysed(tr)
    data = tr.params[1]
    locs = local_names(tr.node)
    ctor = [n for n in ast.walk(tr.node) if isinstance(n, ast.Call) and project.resolve(tr.module, n.func, locs) == AP]
    if len(ctor) != 1:
        rep.refuted("GL-FWD", tr, tr.node, f"transform builds {len(ctor)} approximate landscapes instead of delegating to exactly "
                                           f"one", construct=f"{tr.qualname}: delegation")
        return
    kws = _kw(ctor[0])
    want = {"dgms": data, "start": "self.start", "stop": "self.stop", "num_steps": "self.num_steps", "hom_deg": "self.hom_deg"}
    bad = {k: (kws.get(k), v) for k, v in want.items() if kws.get(k) != v}
    if ctor[0].args:
        rep.unmodelled("GL-FWD", tr, ctor[0], "positional arguments to the landscape constructor")
    elif bad:
        rep.refuted("GL-FWD", tr, ctor[0], "the transformer does not forward its own parameters: " +
                    "; ".join(f"{k}={g} (should be {w})" for k, (g, w) in bad.items()))
    else:
        rep.discharged("GL-FWD", tr, ctor[0], "PersLandscapeApprox(dgms=X, start/stop/num_steps/hom_deg = the transformer's own)")
    res = [n.targets[0].id for n in ast.walk(tr.node) if isinstance(n, ast.Assign) and n.value is ctor[0]
           and isinstance(n.targets[0], ast.Name)]
    rname = res[0] if res else None
    rets = [n for n in ast.walk(tr.node) if isinstance(n, ast.Return)]
    flat_ok = plain_ok = False
    for r in rets:
        txt = ast.unparse(r.value).replace("(", "").replace(")", "")
        cond = None
        for i in ast.walk(tr.node):
            if isinstance(i, ast.If) and any(x is r for s in i.body for x in ast.walk(s)):
                cond = (ast.unparse(i.test), True)
            elif isinstance(i, ast.If) and any(x is r for s in i.orelse for x in ast.walk(s)):
                cond = (ast.unparse(i.test), False)
        if txt == f"{rname}.values.flatten" and cond == ("self.flatten", True):
            flat_ok = True
        elif txt == f"{rname}.values" and cond in (("self.flatten", False), None):
            plain_ok = True
        else:
            rep.refuted("GL-FWD", tr, r, f"transform returns `{ast.unparse(r.value)}`" + (f" when {cond[0]} is {cond[1]}" if cond else "")
                        + ": not the sampled values of the approximate landscape (flattened iff `flatten`)")
    if flat_ok and plain_ok:
        rep.discharged("GL-FWD", tr, tr.node, "returns .values, or .values.flatten() exactly when self.flatten")
    elif not any(True for _ in rets):
        rep.refuted("GL-FWD", tr, tr.node, "transform returns nothing")
    if any(b.endswith("TransformerMixin") for b in c.bases) and "fit_transform" not in c.methods:
        rep.discharged("GL-FWD", tr, c.node, "fit_transform is scikit-learn's fit(X).transform(X)", nontrivial=False)


def _linspace_calls(project, fi):
    locs = local_names(fi.node)
    return [n for n in ast.walk(fi.node) if isinstance(n, ast.Call) and project.resolve(fi.module, n.func, locs) == "numpy.linspace"]


def _grid_args(call):
    kws = {k.arg: k.value for k in call.keywords}
    pos = list(call.args)
    start = pos[0] if len(pos) > 0 else kws.get("start")
    stop = pos[1] if len(pos) > 1 else kws.get("stop")
    num = pos[2] if len(pos) > 2 else kws.get("num")
    ep = kws.get("endpoint")
    return (ast.unparse(start) if start is not None else None, ast.unparse(stop) if stop is not None else None,
            ast.unparse(num) if num is not None else None, ep)


def _owner_grid(call):
    """(owner, start, stop, num, endpoint) if the call is np.linspace(X.start, X.stop, …) for one name X"""
    s, e, n, ep = _grid_args(call)
    if s and s.endswith(".start") and e and e.endswith(".stop") and s[:-6] == e[:-5]:
        return s[:-6], s, e, n, ep
    if s and s.endswith(".start"):
        return s[:-6], s, e, n, ep
    return None


def check_grid(project: Project, rep):
    sites = [
        (f"{AP}.compute_landscape", None),
        (f"{AP}.values_to_pairs", None),
        ("persim.landscapes.tools.snap_pl", "source"),
        ("persim.landscapes.visuals.plot_landscape_approx", "source"),
        ("persim.landscapes.visuals.plot_landscape_approx_simple", None),
    ]
    for q, role in sites:
        fi = project.function(q)
        rep.analysed(fi)
        calls = [(c, _owner_grid(c)) for c in _linspace_calls(project, fi)]
        mine = [(c, g) for c, g in calls if g is not None]
        if role == "source":
            pref = [(c, g) for c, g in mine if g[3] == f"{g[0]}.num_steps"]
            mine = pref or mine
        if not mine:
            rep.refuted("GL-GRID", fi, fi.node, f"{q.rsplit('.', 1)[1]} no longer rebuilds the landscape's grid with "
                                                f"np.linspace(<landscape>.start, <landscape>.stop, <landscape>.num_steps)",
                        construct=f"{q}: grid reconstruction")
            continue
        c, (owner, s, e, n, ep) = mine[0]
        # in the simple approximate plot the number of nodes is the length of the row being plotted
        row_len = False
        if q.endswith("approx_simple") and n and n.startswith("len(") and n.endswith(")"):
            v = n[4:-1]
            row_len = any(isinstance(x, ast.Call) and isinstance(x.func, ast.Attribute) and x.func.attr == "plot"
                          and len(x.args) >= 2 and ast.unparse(x.args[1]) == v for x in ast.walk(fi.node))
        num_ok = n == f"{owner}.num_steps" or row_len
        ep_ok = ep is None or (isinstance(ep, ast.Constant) and ep.value is True)
        if e == f"{owner}.stop" and num_ok and ep_ok:
            rep.discharged("GL-GRID", fi, c, f"grid = np.linspace({s}, {e}, {n}) with the default end-point convention")
        else:
            why = []
            if e != f"{owner}.stop":
                why.append(f"stop is {e}")
            if not num_ok:
                why.append(f"number of nodes is {n}")
            if not ep_ok:
                why.append("endpoint=False")
            rep.refuted("GL-GRID", fi, c, f"the grid paired with the sampled values is np.linspace({s}, {e}, {n}"
                                          f"{', endpoint=False' if not ep_ok else ''}): " + ", ".join(why) +
                        " — it differs from the grid the values were sampled on")
    # target grids of snap_pl / vectorize use the requested parameters
    for q in ("persim.landscapes.tools.snap_pl", "persim.landscapes.tools.vectorize"):
        fi = project.function(q)
        rep.analysed(fi)
        tg = [c for c in _linspace_calls(project, fi) if _grid_args(c)[:3] == ("start", "stop", "num_steps")]
        if tg and _grid_args(tg[0])[3] is None:
            rep.discharged("GL-GRID", fi, tg[0], "target grid = np.linspace(start, stop, num_steps) of the requested parameters")
        else:
            rep.refuted("GL-GRID", fi, fi.node, f"{q.rsplit('.', 1)[1]}: the target grid is not np.linspace(start, stop, num_steps)",
                        construct=f"{q}: target grid")
        ctor = [n for n in ast.walk(fi.node) if isinstance(n, ast.Call) and project.resolve(fi.module, n.func, local_names(fi.node)) == AP]
        if ctor:
            kws = _kw(ctor[0])
            if (kws.get("start"), kws.get("stop"), kws.get("num_steps")) == ("start", "stop", "num_steps"):
                rep.discharged("GL-GRID", fi, ctor[0], "the result declares the same grid it was sampled on", nontrivial=False)
            else:
                rep.refuted("GL-GRID", fi, ctor[0], f"the result declares grid ({kws.get('start')}, {kws.get('stop')}, "
                                                    f"{kws.get('num_steps')}) but was sampled on (start, stop, num_steps)")


def check_snap(project: Project, rep):
    fi = project.function("persim.landscapes.auxiliary.ndsnap_regular")
    rep.analysed(fi)
    f = fi.node
    locs = local_names(f)
    arg = [n for n in ast.walk(f) if isinstance(n, ast.Call) and project.resolve(fi.module, n.func, locs) in ("numpy.argmin", "numpy.argmax")]
    if len(arg) != 1:
        rep.unmodelled("GL-SNAP", fi, f, "nearest-node selection not found")
    else:
        c = arg[0]
        t = project.resolve(fi.module, c.func, locs)
        inner = c.args[0] if c.args else None
        has_abs = inner is not None and any(isinstance(x, ast.Call) and project.resolve(fi.module, x.func, locs) in
                                            ("numpy.abs", "builtins.abs", "numpy.absolute") for x in ast.walk(inner))
        has_sq = inner is not None and any(isinstance(x, ast.BinOp) and isinstance(x.op, ast.Pow) and const_value(x.right) == 2
                                           for x in ast.walk(inner))
        axis = [k.value for k in c.keywords if k.arg == "axis"] or c.args[1:2]
        if t == "numpy.argmax":
            rep.refuted("GL-SNAP", fi, c, "snapping picks the FARTHEST grid node (argmax of the distance)")
        elif not (has_abs or has_sq):
            rep.refuted("GL-SNAP", fi, c, "snapping takes argmin of the signed difference, not of |node − x|: every point snaps to "
                                          "the smallest node")
        elif not axis or const_value(axis[0]) != 0:
            rep.refuted("GL-SNAP", fi, c, f"argmin runs over axis {ast.unparse(axis[0]) if axis else 'None (flattened)'}, not over "
                                          f"the grid axis")
        else:
            rep.discharged("GL-SNAP", fi, c, "per coordinate, the node at argmin(|node − x|) over the grid axis is selected (error "
                                             "≤ step/2)")
        # diff = ax[:, newaxis] - points[:, i]
        diffs = [n for n in ast.walk(f) if isinstance(n, ast.Assign) and isinstance(n.value, ast.BinOp) and isinstance(n.value.op, ast.Sub)]
        if diffs:
            d = diffs[0].value
            ok = "newaxis" in ast.unparse(d.left) + ast.unparse(d.right) or "None" in ast.unparse(d.left) + ast.unparse(d.right)
            loopvar = [n for n in ast.walk(f) if isinstance(n, ast.For)]
            col_ok = bool(loopvar) and isinstance(loopvar[0].target, ast.Tuple) and \
                f"[:, {loopvar[0].target.elts[0].id}]" in ast.unparse(d)
            if ok and col_ok:
                rep.discharged("GL-SNAP", fi, diffs[0], "coordinate i of every point is compared with axis i of the grid")
            else:
                rep.refuted("GL-SNAP", fi, diffs[0], f"`{ast.unparse(diffs[0])}` does not compare coordinate i of the points with "
                                                     f"grid axis i")
    cl = project.function(f"{AP}.compute_landscape")
    calls = [n for n in ast.walk(cl.node) if isinstance(n, ast.Call) and
             project.resolve(cl.module, n.func, local_names(cl.node)) == "persim.landscapes.auxiliary.ndsnap_regular"]
    if calls:
        c = calls[0]
        star = [a for a in c.args if isinstance(a, ast.Starred)]
        axes = []
        if star and isinstance(star[0].value, ast.Tuple):
            axes = [ast.unparse(e) for e in star[0].value.elts]
        else:
            axes = [ast.unparse(a) for a in c.args[1:]]
        if len(axes) == 2 and axes[0] == axes[1]:
            rep.discharged("GL-SNAP", cl, c, f"births and deaths are snapped to the same axis `{axes[0]}`")
        else:
            rep.refuted("GL-SNAP", cl, c, f"births and deaths are snapped to different axes {axes}")
    else:
        rep.refuted("GL-SNAP", cl, cl.node, "the approximate landscape no longer snaps bars to the grid before sampling",
                    construct=f"{cl.qualname}: snapping")


def check_index(project: Project, rep):
    """GL-INDEX: the position of a snapped end-point on the grid comes from an exact lookup or a rounded quotient —
    never from int() truncation of a float quotient ((g_i − start)/step evaluates to i − ε for many i)"""
    cl = project.function(f"{AP}.compute_landscape")
    f = cl.node
    used_as_index = set()
    for n in ast.walk(f):
        if isinstance(n, ast.Subscript):
            for x in ast.walk(n.slice):
                if isinstance(x, ast.Name):
                    used_as_index.add(x.id)
    found = 0
    for n in ast.walk(f):
        if not (isinstance(n, ast.Assign) and isinstance(n.targets[0], ast.Name) and n.targets[0].id in used_as_index):
            continue
        v = n.value
        name = n.targets[0].id

        def truncating(e):
            if isinstance(e, ast.Call) and isinstance(e.func, ast.Name) and e.func.id == "int" and e.args:
                inner = e.args[0]
                rounded = isinstance(inner, ast.Call) and ast.unparse(inner.func) in ("round", "np.round", "np.rint", "np.around",
                                                                                       "np.ceil", "np.floor", "math.floor", "math.ceil")
                has_div = any(isinstance(x, ast.BinOp) and isinstance(x.op, ast.Div) for x in ast.walk(inner))
                return has_div and not rounded
            if isinstance(e, ast.BinOp) and isinstance(e.op, ast.FloorDiv):
                # floor division of floats truncates the same way; integer // integer is exact
                return any(isinstance(x, ast.Attribute) and x.attr in ("start", "stop") for x in ast.walk(e)) or \
                    any(isinstance(x, ast.Name) and x.id == "step" for x in ast.walk(e))
            return False

        if truncating(v):
            found += 1
            rep.refuted("GL-INDEX", cl, n,
                        f"grid index `{name}` is obtained by truncating a floating-point quotient ({ast.unparse(v)}): for an "
                        f"end-point lying exactly on node i the quotient is often i − ε, so the bar is sampled one whole step "
                        f"low (error of a full step instead of half a step; not exact on-grid)")
        elif isinstance(v, ast.Subscript) and isinstance(v.value, ast.Name):
            # lookup in a table built from the grid itself
            tab = v.value.id
            src = [a for a in ast.walk(f) if isinstance(a, ast.Assign) and isinstance(a.targets[0], ast.Name) and a.targets[0].id == tab]
            if src and "zip" in ast.unparse(src[0].value) and "dict" in ast.unparse(src[0].value):
                found += 1
                rep.discharged("GL-INDEX", cl, n, f"grid index `{name}` is an exact lookup of the snapped value in the grid's own "
                                                  f"value→position table")
    if not found:
        rep.unmodelled("GL-INDEX", cl, f, "how snapped end-points are turned into grid positions was not recognised")


def check_dv_inf(project: Project, rep):
    fi = project.function("persim.landscapes.tools.death_vector")
    rep.analysed(fi)
    f = fi.node
    guard = [n for n in ast.walk(f) if isinstance(n, ast.If) and "hom_deg" in ast.unparse(n.test) and any(isinstance(s, ast.Raise) for s in n.body)]
    if guard and ast.unparse(guard[0].test).replace(" ", "") in ("hom_deg!=0", "hom_deg>0", "nothom_deg==0"):
        rep.discharged("GL-DV", fi, guard[0], "hom_deg ≠ 0 is rejected", nontrivial=False)
    else:
        rep.refuted("GL-DV", fi, f, "death_vector no longer rejects homological degrees other than 0", construct=f"{fi.qualname}: guard")
    rets = [n for n in ast.walk(f) if isinstance(n, ast.Return) and n.value is not None]
    ok = False
    for r in rets:
        v = r.value
        txt = ast.unparse(v).replace(" ", "")
        desc = ("sorted(" in txt and "reverse=True" in txt) or ("np.sort(" in txt and txt.endswith("[::-1]")) or \
               ("-np.sort(-" in txt)
        col = "dgms[hom_deg][:,1]" in txt
        if desc and col:
            ok = True
            rep.discharged("GL-DV", fi, r, "returns the death column of dgms[hom_deg] sorted in non-increasing order")
        elif col and ("sorted(" in txt or "np.sort(" in txt):
            rep.refuted("GL-DV", fi, r, f"`{ast.unparse(v)}` sorts the deaths in increasing order")
        elif desc:
            rep.refuted("GL-DV", fi, r, f"`{ast.unparse(v)}` does not sort column 1 (deaths) of dgms[hom_deg]")
        else:
            rep.refuted("GL-DV", fi, r, f"`{ast.unparse(v)}` is not the descending sort of the death column")
    # GL-INF in PersLandscapeApprox.__init__
    init = project.function(f"{AP}.__init__")
    rep.analysed(init)
    body = init.node
    stores = [n for n in ast.walk(body) if isinstance(n, ast.Assign) and isinstance(n.targets[0], ast.Attribute)
              and n.targets[0].attr == "dgms"]
    filt = [n for n in stores if "inf" in ast.unparse(n.value)]
    mins = [n for n in ast.walk(body) if isinstance(n, ast.Assign) and isinstance(n.targets[0], ast.Name) and n.targets[0].id in ("start", "stop")
            and isinstance(n.value, ast.Subscript)]
    if filt and mins and all(filt[0].lineno < m.lineno for m in mins):
        rep.discharged("GL-INF", init, filt[0], "rows containing inf are removed before start/stop are derived from the data")
    else:
        rep.refuted("GL-INF", init, body, "start/stop defaults are derived before infinite bars are removed (stop becomes inf)",
                    construct=f"{init.qualname}: inf removal order")
    for m in mins:
        txt = ast.unparse(m.value).replace(" ", "")
        want = {"start": "min(self.dgms,key=itemgetter(0))[0]", "stop": "max(self.dgms,key=itemgetter(1))[1]"}[m.targets[0].id]
        if txt == want:
            rep.discharged("GL-INF", init, m, f"default {m.targets[0].id} = {'min birth' if m.targets[0].id == 'start' else 'max death'}")
        else:
            rep.refuted("GL-INF", init, m, f"default {m.targets[0].id} is `{ast.unparse(m.value)}`, not the "
                                           f"{'smallest birth' if m.targets[0].id == 'start' else 'largest death'}: the grid does not "
                                           f"cover the diagram")


def run(project: Project, rep, tier: str):
    rep.explain(
        "C08 — narrow claim. The half-step error bound, exactness on-grid and interpolation exactness quantify over runtime "
        "values and are declined. Decided are the clauses visible in the shape of the code: GL-FWD (the transformer delegates "
        "with its own parameters and returns .values / .values.flatten()), GL-GRID (sibling agreement of the 5 sites that "
        "rebuild a landscape's grid and the 2 target grids), GL-SNAP (nearest-node selection, same axis for births and "
        "deaths), GL-DV, GL-INF. Site rules over the AST with call resolution through the import table.")
    rep.assume("np.linspace(start, stop, n) with default endpoint=True is the sampling grid convention of the approximate class")
    check_fwd(project, rep)
    check_grid(project, rep)
    check_snap(project, rep)
    check_index(project, rep)
    check_dv_inf(project, rep)
    for rn, n in (("GL-FWD", 3), ("GL-GRID", 7), ("GL-SNAP", 3), ("GL-INDEX", 2), ("GL-DV", 2), ("GL-INF", 3)):
        rep.floor(rn, n)
