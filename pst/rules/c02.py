"""C02 — Wasserstein = min-sum matching cost (necessary conditions of the cost model and of the solve step).

Decided: WS-COST (Euclidean cross cost; (d−b)/√2 diagonal cost through the 45° rotation; +inf off-diagonal;
0 remainder), WS-TILE, WS-FILTER/WARN, WS-SOLVE (the full matrix goes to a minimising linear_sum_assignment and
the value is the sum of that same matrix at both returned index arrays), WS-EMPTY.
Declined: optimality of the Hungarian solver; conditioning; extra columns.
"""
from __future__ import annotations

import math

from ..core import sym
from ..core.loader import AnalysisError, Project
from ..core.values import Arr, Blocks, NoneV, Sc
from .c01 import check_cost, check_empty
from .distances import WS, B, Dd, Run, check_filter, check_tiling, unmodelled_in


def cross_spec(a, b):
    return sym.fn("sqrt", sym.add(sym.power(sym.sub(B(a), B(b)), sym.Num(2)),
                                  sym.power(sym.sub(Dd(a), Dd(b)), sym.Num(2))))


def diag_spec(a):
    return sym.scale(sym.sub(Dd(a), B(a)), 1.0 / math.sqrt(2.0))


def check_solve(rep, run: Run, D: Blocks):
    fi = run.fi
    evs = run.events("linear_sum_assignment")
    if len(evs) != 1:
        rep.unmodelled("WS-SOLVE", fi, fi.node, f"expected one assignment-solver call, found {len(evs)}")
        return
    ev = evs[0]
    cost = ev["cost"]
    if isinstance(cost, Blocks) and cost.uid == D.uid:
        rep.discharged("WS-SOLVE", fi, ev["node"], "the full tiled matrix is passed to linear_sum_assignment")
    elif getattr(cost, "uid", None) == D.uid or not isinstance(cost, (Arr, Blocks)):
        rep.unmodelled("WS-SOLVE", fi, ev["node"], "the value that reaches the assignment solver could not be compared with the "
                                                   "assembled matrix")
    else:
        rep.refuted("WS-SOLVE", fi, ev["node"], "the assignment solver is not given the augmented cost matrix itself "
                                                "(a sub-block, a transformed copy or another array)")
    mx = ev["maximize"]
    if mx is None or isinstance(mx, NoneV) or (isinstance(mx, Sc) and mx.e == sym.FALSE):
        rep.discharged("WS-SOLVE", fi, ev["node"], "solver minimises (no maximize=True)", nontrivial=False)
    else:
        rep.refuted("WS-SOLVE", fi, ev["node"], "linear_sum_assignment is asked to maximise: the value is the maximum-"
                                                "cost matching, not the Wasserstein distance")
    uid = ev["uid"]
    for rev, e in run.distance_values():
        if e is None:
            rep.unmodelled("WS-SOLVE", fi, rev["node"], "returned distance is not a scalar expression")
            continue
        if unmodelled_in(e):
            rep.unmodelled("WS-SOLVE", fi, rev["node"], f"returned distance not fully modelled: {unmodelled_in(e)}")
            continue
        ok = False
        if e[0] == "sum":
            body = e[3]
            if body[0] == "at" and body[1] == D.uid and len(body[3]) == 2:
                r, c = body[3]
                ok = (r[0] == "opq" and r[1] == "lsa_rows" and r[3] == uid and c[0] == "opq" and c[1] == "lsa_cols"
                      and c[3] == uid and body[2] == D.elem_choice())
        if ok:
            rep.discharged("WS-SOLVE", fi, rev["node"], "distance = Σ of the cost matrix at (rows, cols) returned by that "
                                                        "solver call on that matrix", derived=sym.show(e)[:200])
        elif not run.interp.clean_before(rev):
            rep.unmodelled("WS-SOLVE", fi, rev["node"],
                           "the returned value was not followed exactly (a step of the run was not modelled: "
                           + ", ".join(sorted({str(u.get("tag")) for u in run.interp.unmodelled}))[:120] + "): no verdict")
        else:
            rep.refuted("WS-SOLVE", fi, rev["node"],
                        f"the returned value is not the sum of the cost matrix over the solver's (row, col) pairs: "
                        f"{sym.show(e)[:260]}")


def run(project: Project, rep, tier: str):
    rep.explain(
        "C02 (clauses decided — necessary conditions of the cost model and solve step, not optimality): `wasserstein` is "
        "evaluated symbolically on two generic diagrams. WS-COST: normal form of the cross block is the Euclidean "
        "distance of the un-rotated points (tabled law of pairwise_distances with its default metric) and the diagonal "
        "entries, obtained by applying the folded 2×2 rotation constants column-wise, are (d−b)/√2 of the own diagram; "
        "WS-TILE: block shapes equal slice extents for all sizes and tile (M+N)²; WS-FILTER/WARN under the 'infinite "
        "rows present' configuration; WS-SOLVE: the tiled matrix goes to a minimising linear_sum_assignment and the "
        "value returned is Σ D[rows, cols] of that call; WS-EMPTY for the empty-diagram configurations. Declined: "
        "optimality of the solver, conditioning, extra columns.")
    rep.assume("scipy.optimize.linear_sum_assignment returns a minimum-cost perfect assignment of a square matrix; "
               "sklearn pairwise_distances default metric is Euclidean; exact arithmetic")
    run_ = Run(project, WS)
    fi = run_.fi
    rep.analysed(fi)
    D = run_.cost_matrix()
    check_cost(rep, run_, D, rule="WS-COST", cross=cross_spec, diag=diag_spec, what="Wasserstein")
    for ev in run_.events("pairwise_distances"):
        if ev["metric"] not in ("euclidean",):
            rep.refuted("WS-COST", fi, ev["node"], f"pairwise_distances is called with metric={ev['metric']!r}")
    check_tiling(rep, "WS-TILE", run_, D, fi)
    check_filter(rep, "WS-FILTER", project, WS)
    check_solve(rep, run_, D)
    # the value returned together with the matching is the same distance: the same sum over the solver's own pairs
    run_m = Run(project, WS, matching=True)
    try:
        D_m = run_m.cost_matrix()
        check_solve(rep, run_m, D_m)
    except AnalysisError as ex:
        rep.unmodelled("WS-SOLVE", fi, fi.node, f"matching=True: {ex}"[:160])
    n_sc = 0
    from .distances import colsort_decides
    for ev in colsort_decides(run_):
        n_sc += 1
        rep.refuted("WS-SHORT", fi, ev["node"], "a diagram's birth and death columns are sorted independently (np.sort(..., axis=0)) and the result decides the "
                    "distance: two different diagrams with the same births and the same deaths, paired differently, are treated as "
                    "equal (0 returned for [[0,2],[1,3]] vs [[0,3],[1,2]], whose distance is 1)",
                    construct=f"{WS}: column-wise sort")
    if not n_sc:
        rep.discharged("WS-SHORT", fi, fi.node, "no short cut compares the diagrams column by column", nontrivial=False)
    check_empty(rep, project, WS, rule="WS-EMPTY")
    # WS-DTYPE: representation independence of the distance's own input handling — no float store into an array typed by a diagram,
    # no cast of one diagram to the dtype of the other (rules/dtype_rule.py) — over the entry point and the helpers it calls
    from . import dtype_rule as _dt
    from .oneshot import reachable_functions as _reach
    _fns = _reach(project, [WS])
    if _fns:
        _dt.run_on(project, rep, "WS-DTYPE", _fns)
    rep.floor("WS-DTYPE", 1)
    for ev in run_.events("shape-error"):
        if run_.interp.clean_before(ev):
            rep.refuted("WS-TILE", fi, ev["node"], f"shape mismatch for some sizes: {ev['message']}")
        else:
            rep.unmodelled("WS-TILE", fi, ev["node"], f"a shape mismatch is reported after values the run could not model: "
                                                     f"{ev['message']}"[:200])
    rep.floor("WS-COST", 5)
    rep.floor("WS-TILE", 7)
    rep.floor("WS-FILTER", 2)
    rep.floor("WS-SOLVE", 3)
    rep.floor("WS-EMPTY", 4)
    for t in ("sklearn.metrics.pairwise.pairwise_distances", "scipy.optimize.linear_sum_assignment", "numpy.cos",
              "numpy.sin", "numpy.ndarray.dot", "numpy.fill_diagonal", "numpy.sum", "numpy.isfinite"):
        rep.trust(t)
