"""Demo for property C09: landscape arithmetic is pointwise and leaves operands untouched.

Run from inside the worktree:
    cd /tmp/wt_J09 && PYTHONPATH=/tmp/wt_J09 /venv/bin/python /tmp/ref_J09/demo.py

Prints PASS / exits 0 when sums and differences of exact landscapes agree with the
pointwise sum / difference of the operand functions, FAIL / exits 1 otherwise.
"""
import copy
import sys

import numpy as np

from persim import PersLandscapeExact


def evaluate(pairs, ts):
    """Evaluate a piecewise-linear function given by critical pairs (0 outside)."""
    xs = [float(p[0]) for p in pairs]
    ys = [float(p[1]) for p in pairs]
    return np.interp(ts, xs, ys, left=0.0, right=0.0)


def depth_fn(landscape, k, ts):
    cp = landscape.critical_pairs
    if k >= len(cp):
        return np.zeros_like(ts)  # a missing depth is the zero function
    return evaluate(cp[k], ts)


def check(name, result, expected_fn, ts, depth):
    ok = True
    if len(result.critical_pairs) != depth:
        print(f"  {name}: depth {len(result.critical_pairs)} != {depth}")
        ok = False
    for k in range(depth):
        got = depth_fn(result, k, ts)
        want = expected_fn(k)
        err = float(np.max(np.abs(got - want)))
        if err > 1e-9:
            print(f"  {name}: depth {k} deviates from the pointwise value by {err:g}")
            print(f"     critical pairs: {result.critical_pairs[k]}")
            ok = False
    return ok


def main():
    ts = np.linspace(-1.0, 12.0, 2601)
    cases = {
        # the support of the left operand ends before that of the right operand
        "short + long": ([[0, 2]], [[1, 5]]),
        # ... and the other way round
        "long + short": ([[1, 5]], [[0, 2]]),
        # several depths, different depth counts, coincident breakpoints
        "multi-depth": ([[0, 3], [1, 4], [2, 3]], [[0.5, 7], [3, 5], [4.1, 6.5], [1, 9]]),
        "same support": ([[0, 4], [1, 3]], [[0, 4]]),
    }
    ok = True
    for name, (d1, d2) in cases.items():
        P = PersLandscapeExact(dgms=[np.array(d1, dtype=float)], hom_deg=0)
        Q = PersLandscapeExact(dgms=[np.array(d2, dtype=float)], hom_deg=0)
        P_before = copy.deepcopy(P.critical_pairs)
        Q_before = copy.deepcopy(Q.critical_pairs)
        depth = max(len(P.critical_pairs), len(Q.critical_pairs))

        S = P + Q
        D = P - Q
        T = Q + P
        ok &= check(
            f"{name}: P + Q", S, lambda k: depth_fn(P, k, ts) + depth_fn(Q, k, ts), ts, depth
        )
        ok &= check(
            f"{name}: P - Q", D, lambda k: depth_fn(P, k, ts) - depth_fn(Q, k, ts), ts, depth
        )
        ok &= check(
            f"{name}: Q + P", T, lambda k: depth_fn(P, k, ts) + depth_fn(Q, k, ts), ts, depth
        )
        if P.critical_pairs != P_before or Q.critical_pairs != Q_before:
            print(f"  {name}: an operand was modified")
            ok = False

    if ok:
        print("PASS")
        return 0
    print("FAIL")
    return 1


if __name__ == "__main__":
    sys.exit(main())
