"""C18 demo: the imager maps a collection of diagrams element by element, in order, and a fit learns
its ranges from all the pairs it is shown - whatever container the collection arrives in.

Run from inside the worktree so that its copy of persim is imported:

    cd /tmp/wt_T18 && PYTHONPATH=/tmp/wt_T18 /venv/bin/python /tmp/ref_T18/demo.py

Prints PASS / exits 0 when the property holds, prints FAIL / exits 1 otherwise.
"""
import sys
import warnings

import matplotlib

matplotlib.use("Agg")
warnings.filterwarnings("ignore")

import numpy as np

from persim import PersistenceImager

rng = np.random.default_rng(18)

# five diagrams with four pairs each, e.g. the four most persistent H1 classes of five point clouds
births = rng.uniform(0.0, 2.0, size=(5, 4))
dgms = [np.column_stack([b, b + rng.uniform(0.1, 3.0, size=4)]) for b in births]
stack = np.stack(dgms)  # the same collection as one (5, 4, 2) array, as it comes out of np.load / a padded batch

problems = []


def state(imgr):
    return (tuple(imgr.birth_range), tuple(imgr.pers_range), tuple(imgr.resolution))


for skew in (True, False):
    # reference: the collection as a list
    ref = PersistenceImager(pixel_size=0.25)
    ref.fit(dgms, skew=skew)
    ref_state = state(ref)
    ref_imgs = ref.transform(dgms, skew=skew)

    # 1. transform of the stacked collection: one image per diagram, in order
    out = ref.transform(stack, skew=skew)
    if not (isinstance(out, list) and len(out) == len(dgms)):
        problems.append("skew=%s: transform(stack) is not a list of %d images" % (skew, len(dgms)))
    else:
        for i, (img, want) in enumerate(zip(out, ref_imgs)):
            if img.shape != want.shape or not np.array_equal(img, want):
                problems.append("skew=%s: transform(stack)[%d] differs from transform(stack[%d]) by %.3g"
                                % (skew, i, i, np.abs(img - want).max() if img.shape == want.shape else np.inf))
                break
    if state(ref) != ref_state:
        problems.append("skew=%s: transform altered the fitted state" % skew)

    # 2. a fit on the stacked collection learns the ranges of all its pairs
    im2 = PersistenceImager(pixel_size=0.25)
    im2.fit(stack, skew=skew)
    if state(im2) != ref_state:
        problems.append("skew=%s: fit(stack) learned %s, fit(list) learned %s" % (skew, state(im2), ref_state))

    # 3. fit_transform of the stacked collection == fit + transform of the list, after an unrelated earlier fit
    im3 = PersistenceImager(pixel_size=0.25)
    im3.fit([d * 3.0 + 1.0 for d in dgms], skew=skew)
    got = im3.fit_transform(stack, skew=skew)
    if state(im3) != ref_state:
        problems.append("skew=%s: refit through fit_transform(stack) left %s" % (skew, state(im3)))
    elif not (isinstance(got, list) and len(got) == len(ref_imgs)
              and all(np.array_equal(g, w) for g, w in zip(got, ref_imgs))):
        problems.append("skew=%s: fit_transform(stack) differs from fit(list) + transform(list)" % skew)

if problems:
    for p in problems:
        print("  -", p)
    print("FAIL")
    sys.exit(1)
print("PASS")
sys.exit(0)
