"""Property C14: the heat-kernel distance is a finite non-negative number for all finite
diagrams, zero between a diagram and any reordering of itself, and symmetric.

The reordering used here is the most common one - the reversed diagram, `dgm[::-1]`,
which numpy hands out as a view of the same memory.

Run from the worktree:  cd /tmp/wt_V14 && PYTHONPATH=/tmp/wt_V14 /venv/bin/python /tmp/ref_V14/demo.py
"""
import sys
import warnings

warnings.simplefilter("ignore")
import numpy as np
from persim import heat

TOL = 1e-6
failures = []


def distance(label, a, b, **kw):
    try:
        d = heat(a, b, **kw)
    except Exception as exc:  # the property promises a number
        failures.append("%s: heat raised %s: %s" % (label, type(exc).__name__, exc))
        return None
    if not (np.isfinite(d) and d >= 0):
        failures.append("%s: heat returned %r" % (label, d))
        return None
    return float(d)


rng = np.random.default_rng(2014)
for trial in range(20):
    n = int(rng.integers(2, 7))
    births = rng.uniform(-2, 2, n)
    dgm = np.column_stack([births, births + rng.uniform(0.1, 3, n)])
    other = np.column_stack([births, births + rng.uniform(0.1, 3, n)])
    keep = dgm.copy()
    sigma = float(rng.choice([0.4, 0.1, 2.0]))

    d_fwd = distance("trial %d heat(dgm, dgm[::-1])" % trial, dgm, dgm[::-1], sigma=sigma)
    d_bwd = distance("trial %d heat(dgm[::-1], dgm)" % trial, dgm[::-1], dgm, sigma=sigma)
    for label, d in (("dgm, dgm[::-1]", d_fwd), ("dgm[::-1], dgm", d_bwd)):
        if d is not None and d > TOL:
            failures.append("trial %d: heat(%s) = %g, expected 0" % (trial, label, d))
    if d_fwd is not None and d_bwd is not None and abs(d_fwd - d_bwd) > TOL:
        failures.append("trial %d: not symmetric: %g vs %g" % (trial, d_fwd, d_bwd))

    # part of a diagram against the whole of it, and the diagram must come back untouched
    d1 = distance("trial %d heat(dgm, dgm[1:])" % trial, dgm, dgm[1:], sigma=sigma)
    d2 = distance("trial %d heat(dgm[1:], dgm)" % trial, dgm[1:], dgm, sigma=sigma)
    ref = distance("trial %d heat(copy, copy)" % trial, keep.copy(), keep[1:].copy(), sigma=sigma)
    for d in (d1, d2):
        if d is not None and ref is not None and abs(d - ref) > TOL:
            failures.append("trial %d: sub-diagram view gives %g, copies give %g" % (trial, d, ref))
    if not np.array_equal(dgm, keep):
        failures.append("trial %d: the input diagram was modified" % trial)
    if not dgm.flags.writeable:
        failures.append("trial %d: the input diagram was left read-only" % trial)

    # triangle inequality on the side
    dab = distance("ab", dgm.copy(), other.copy(), sigma=sigma)
    dbc = distance("bc", other.copy(), keep[::-1].copy(), sigma=sigma)
    dac = distance("ac", dgm.copy(), keep[::-1].copy(), sigma=sigma)
    if None not in (dab, dbc, dac) and dac > dab + dbc + TOL:
        failures.append("trial %d: triangle inequality" % trial)

if failures:
    for line in failures[:8]:
        print("  " + line)
    print("FAIL (%d violations)" % len(failures))
    sys.exit(1)
print("PASS")
sys.exit(0)
