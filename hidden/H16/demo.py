"""Demo for C16: persistent entropy is the Shannon entropy of normalised bar
lengths, with infinite bars dropped or replaced by the supplied value *as
requested by each call*.

Run from inside the worktree:
    cd /tmp/wt_H16 && PYTHONPATH=/tmp/wt_H16 /venv/bin/python /tmp/ref_H16/demo.py
"""
import sys

import numpy as np

from persim.persistent_entropy import persistent_entropy


def shannon(lengths, normalize=False):
    lengths = np.asarray(lengths, dtype=float)
    p = lengths / lengths.sum()
    e = -np.sum(p * np.log(p))
    if normalize:
        e = e / np.log(len(lengths))
    return e


def check(label, got, want, failures):
    ok = np.allclose(got, want, rtol=1e-12, atol=1e-12)
    print("%-58s got=%s want=%s %s" % (label, np.round(got, 6), np.round(want, 6), "ok" if ok else "MISMATCH"))
    if not ok:
        failures.append(label)


def main():
    failures = []

    # One barcode with an essential (infinite) bar, analysed several times with
    # different settings, as one does when exploring what val_inf should be.
    dgm = np.array([[0.0, 1.0], [0.0, 2.0], [0.5, np.inf]])

    # 1st call: cap the infinite bar at 8.5 -> lengths 1, 2, 8
    got = persistent_entropy(dgm, keep_inf=True, val_inf=8.5)
    check("keep_inf=True, val_inf=8.5", got, [shannon([1, 2, 8])], failures)

    # 2nd call: cap at 1.5 instead -> lengths 1, 2, 1
    got = persistent_entropy(dgm, keep_inf=True, val_inf=1.5)
    check("keep_inf=True, val_inf=1.5 (second call)", got, [shannon([1, 2, 1])], failures)

    # 3rd call: drop infinite bars -> lengths 1, 2
    got = persistent_entropy(dgm, keep_inf=False)
    check("keep_inf=False (third call)", got, [shannon([1, 2])], failures)

    # Same thing with a collection of two diagrams and the normalised variant.
    dgms = [
        np.array([[0.0, 3.0], [1.0, np.inf]]),
        np.array([[-1.0, 1.0], [0.0, 1.0], [2.0, np.inf]]),
    ]
    got = persistent_entropy(dgms, keep_inf=True, val_inf=10.0, normalize=True)
    check("list, val_inf=10, normalize", got,
          [shannon([3, 9], True), shannon([2, 1, 8], True)], failures)
    got = persistent_entropy(dgms, keep_inf=True, val_inf=4.0, normalize=True)
    check("list, val_inf=4, normalize (second call)", got,
          [shannon([3, 3], True), shannon([2, 1, 2], True)], failures)

    if failures:
        print("FAIL: %d check(s) disagree with -sum p log p for the requested inf handling" % len(failures))
        return 1
    print("PASS")
    return 0


if __name__ == "__main__":
    sys.exit(main())
