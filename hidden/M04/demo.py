"""C04 demo: every pixel of a persistence image must equal  sum_k w_k * (kernel mass over the pixel square).

The reference integrates the bivariate normal *density* over each pixel with a tensor
Gauss-Legendre rule (independent of persim's CDF code).  Prints PASS / exits 0 when all
configurations agree, prints FAIL / exits 1 otherwise.
"""
import sys
import numpy as np
import matplotlib
matplotlib.use("Agg")
from persim import PersistenceImager

GL_X, GL_W = np.polynomial.legendre.leggauss(96)


def pixel_mass(b0, b1, p0, p1, mu, cov):
    """Integral of the N(mu, cov) density over [b0, b1] x [p0, p1]."""
    xb = 0.5 * (b1 - b0) * GL_X + 0.5 * (b1 + b0)
    xp = 0.5 * (p1 - p0) * GL_X + 0.5 * (p1 + p0)
    inv = np.linalg.inv(cov)
    db = xb[:, None] - mu[0]
    dp = xp[None, :] - mu[1]
    q = inv[0, 0] * db * db + 2.0 * inv[0, 1] * db * dp + inv[1, 1] * dp * dp
    dens = np.exp(-0.5 * q) / (2.0 * np.pi * np.sqrt(np.linalg.det(cov)))
    return 0.25 * (b1 - b0) * (p1 - p0) * (GL_W[:, None] * GL_W[None, :] * dens).sum()


def reference_image(imgr, dgm, cov):
    nb, npx = imgr.resolution
    bp, pp = imgr._bpnts, imgr._ppnts
    ref = np.zeros((nb, npx))
    for b, d in dgm:
        p = d - b
        wt = p  # default weight: persistence ** 1
        for a in range(nb):
            for c in range(npx):
                ref[a, c] += wt * pixel_mass(bp[a], bp[a + 1], pp[c], pp[c + 1], (b, p), cov)
    return ref


def main():
    dgm = np.array([[0.45, 1.40], [1.20, 1.95], [0.80, 2.30]])
    worst = 0.0
    ok = True
    for r in (0.5, 0.95, -0.6, -0.95, -0.99):
        sxx, syy = 0.30, 0.20
        sxy = r * np.sqrt(sxx * syy)
        cov = np.array([[sxx, sxy], [sxy, syy]])
        imgr = PersistenceImager(birth_range=(0.0, 2.0), pers_range=(0.0, 2.0), pixel_size=0.4,
                                 kernel_params={"sigma": cov})
        img = imgr.transform(dgm, skew=True)
        ref = reference_image(imgr, dgm, cov)
        err = float(np.max(np.abs(img - ref)))
        print("r = %+.2f   max |pixel - integral| = %.3e   min pixel = %+.3e" % (r, err, img.min()))
        worst = max(worst, err)
        if not (err < 1e-6 and img.min() > -1e-9):
            ok = False
    if ok:
        print("PASS")
        return 0
    print("FAIL (worst deviation %.3e)" % worst)
    return 1


if __name__ == "__main__":
    sys.exit(main())
