"""Demo for property C08 (grid landscapes stay within half a step of the true landscape).

Run from inside the worktree so that the worktree copy of persim is imported:
    cd /tmp/wt_U08 && PYTHONPATH=/tmp/wt_U08 /venv/bin/python /tmp/ref_U08/demo.py

Prints PASS and exits 0 when every check holds, prints FAIL and exits 1 otherwise.
"""
import sys
import warnings

import numpy as np

warnings.simplefilter("ignore")

from persim.landscapes import (  # noqa: E402
    PersistenceLandscaper,
    PersLandscapeApprox,
    PersLandscapeExact,
    death_vector,
    vectorize,
)


def true_landscape(dgm, grid, depths):
    """Brute force: k-th largest tent value at every grid point."""
    b = dgm[:, 0][:, None]
    d = dgm[:, 1][:, None]
    tents = np.maximum(0.0, np.minimum(grid[None, :] - b, d - grid[None, :]))
    tents = -np.sort(-tents, axis=0)
    out = np.zeros((depths, len(grid)))
    k = min(depths, tents.shape[0])
    out[:k] = tents[:k]
    return out


failures = []


def check(name, ok, detail=""):
    if not ok:
        failures.append(f"{name}: {detail}")


rng = np.random.default_rng(8)
diagrams = [
    np.array([[0.0, 4.0], [1.0, 6.0], [5.0, 9.0]]),
    np.array([[0.0, 3.0], [0.5, 7.25], [2.0, 2.5], [6.0, 8.0], [6.5, 10.0]]),
    np.array([[-3.0, 1.0], [-2.5, 4.0], [0.0, 0.75]]),
]
for _ in range(5):
    n = int(rng.integers(2, 9))
    b = np.round(rng.uniform(0, 5, n), 2)
    diagrams.append(np.stack([b, b + np.round(rng.uniform(0.5, 4, n), 2)], axis=1))

for i, dgm in enumerate(diagrams):
    lo, hi = dgm[:, 0].min(), dgm[:, 1].max()

    # 1. approximate landscape: within half a grid step of the truth
    for num_steps in (7, 20, 101):
        for start, stop in ((None, None), (lo - 0.3, hi + 1.1)):
            P = PersLandscapeApprox(dgms=[dgm], start=start, stop=stop, num_steps=num_steps)
            grid, step = np.linspace(P.start, P.stop, P.num_steps, retstep=True)
            depth = max(len(P.values), len(dgm))
            got = np.zeros((depth, num_steps))
            got[: len(P.values)] = P.values
            err = np.abs(got - true_landscape(dgm, grid, depth)).max()
            check(f"approx[{i}] n={num_steps}", err <= step / 2 + 1e-9, f"error {err} > {step / 2}")

            # 3. transformer returns the values of the approximate landscape
            t = PersistenceLandscaper(start=start, stop=stop, num_steps=num_steps, flatten=True)
            check(
                f"transformer[{i}] n={num_steps}",
                np.array_equal(t.fit_transform([dgm]), P.values.flatten()),
            )

    # 2. sampling the exact landscape reproduces the true values at the grid points;
    #    grid sizes: some fixed ones and the number of critical points of each depth
    E = PersLandscapeExact(dgms=[dgm], hom_deg=0)
    sizes = {2, 6, 50} | {len(f) for f in E.critical_pairs}
    for num_steps in sorted(sizes):
        for start, stop in ((None, None), (lo, hi), (lo - 1.0, hi + 0.5)):
            V = vectorize(E, start=start, stop=stop, num_steps=num_steps)
            grid = np.linspace(V.start, V.stop, V.num_steps)
            depth = max(len(V.values), len(dgm))
            got = np.zeros((depth, num_steps))
            got[: len(V.values)] = V.values
            err = np.abs(got - true_landscape(dgm, grid, depth)).max()
            check(
                f"vectorize[{i}] n={num_steps} grid=({start},{stop})",
                err <= 1e-9,
                f"sampled exact landscape is off by {err}",
            )

    # 4. death vector is non-increasing and lists the deaths
    dv = list(death_vector([dgm]))
    check(f"death_vector[{i}]", dv == sorted(dgm[:, 1], reverse=True))

if failures:
    for f in failures[:10]:
        print("  violated:", f)
    print(f"FAIL ({len(failures)} checks violated)")
    sys.exit(1)
print("PASS")
sys.exit(0)
