"""
C07 demo: metric / invariance laws of persim.bottleneck on diagrams of ~100 points.
Run from inside the worktree:  cd /tmp/wt_V07 && PYTHONPATH=/tmp/wt_V07 /venv/bin/python /tmp/ref_V07/demo.py
Prints PASS and exits 0 when the laws hold, prints FAIL and exits 1 otherwise.
"""
import sys
import warnings

import numpy as np

warnings.simplefilter("ignore")
from persim import bottleneck, wasserstein

failures = []


def check(name, got, want, tol=1e-9):
    if not (abs(got - want) <= tol * max(1.0, abs(want))):
        failures.append("%s: got %r, expected %r" % (name, got, want))


empty = np.zeros((0, 2))

# 1. deterministic: 100 short bars next to the origin and one long bar (0, 10)
X = np.stack([0.1 + 0.001 * np.arange(100), 0.2 + 0.001 * np.arange(100)], 1)
X[50] = [0.0, 10.0]
check("bottleneck(X, empty) = max persistence / 2", bottleneck(X, empty), 5.0)
check("bottleneck(empty, X) = max persistence / 2", bottleneck(empty, X), 5.0)

# 2. random diagrams of several sizes around the block size used by the search
rng = np.random.default_rng(14)
for n in (30, 64, 65, 100, 128, 150):
    b = rng.uniform(0, 1, n)
    A = np.stack([b, b + rng.uniform(0, 1, n)], 1)
    half = 0.5 * np.max(A[:, 1] - A[:, 0])
    check("empty law, n=%d" % n, bottleneck(A, empty), half)
    # points on the diagonal change nothing
    diag = np.repeat(rng.uniform(0, 2, (7, 1)), 2, axis=1)
    m = n // 2
    B = A[:m] + rng.normal(scale=0.01, size=(m, 2))
    B[:, 1] = np.maximum(B[:, 1], B[:, 0])
    dAB = bottleneck(A, B)
    check("symmetry, n=%d" % n, bottleneck(B, A), dAB)
    check("diagonal points, n=%d" % n, bottleneck(np.vstack([A, diag]), B), dAB)
    check("reordering, n=%d" % n, bottleneck(A, A[rng.permutation(n)]), 0.0)
    check("shift along the diagonal, n=%d" % n, bottleneck(A + 3.0, B + 3.0), dAB, 1e-6)
    if not dAB <= wasserstein(A, B) + 1e-9:
        failures.append("bottleneck > wasserstein, n=%d" % n)
    # triangle inequality through the empty diagram
    if not half <= dAB + bottleneck(B, empty) + 1e-9:
        failures.append("triangle inequality (A, B, empty), n=%d" % n)

if failures:
    for f in failures:
        print("  " + f)
    print("FAIL")
    sys.exit(1)
print("PASS")
sys.exit(0)
