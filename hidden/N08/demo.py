"""C08 demo: sampling an exact landscape onto a covering grid must reproduce
the true landscape values at the grid points (and the grid landscape itself
stays within half a step of the truth).

Run from inside the worktree:
    cd /tmp/wt_N08 && PYTHONPATH=/tmp/wt_N08 /venv/bin/python /tmp/ref_N08/demo.py
Prints PASS / exits 0 when the property holds, FAIL / exits 1 otherwise.
"""
import sys
import matplotlib

matplotlib.use("Agg")
import numpy as np
from persim import PersLandscapeApprox, PersLandscapeExact
from persim.landscapes import vectorize


def true_landscape(dgm, grid, depth):
    """k-th largest tent value at each grid point, rows = depths 1..depth."""
    tents = np.maximum(
        0.0, np.minimum(grid[None, :] - dgm[:, [0]], dgm[:, [1]] - grid[None, :])
    )
    tents = -np.sort(-tents, axis=0)
    out = np.zeros((depth, len(grid)))
    out[: min(depth, len(tents))] = tents[:depth]
    return out


dgm = np.array([[1.0, 5.0], [2.0, 4.0], [3.0, 7.0]])
failures = []

# (1) exact -> grid on a covering grid that is wider than the hull [1, 7]
start, stop, num_steps = 0.0, 8.0, 17
exact = PersLandscapeExact(dgms=[dgm], hom_deg=0)
sampled = vectorize(exact, start=start, stop=stop, num_steps=num_steps)
grid = np.linspace(sampled.start, sampled.stop, sampled.num_steps)
truth = true_landscape(dgm, grid, max(len(sampled.values), len(dgm)))
got = np.zeros_like(truth)
got[: len(sampled.values)] = sampled.values
err = np.abs(got - truth).max()
print(f"vectorize on [{start}, {stop}] x {num_steps}: max |sampled - true| = {err:.6g}")
if (sampled.start, sampled.stop, sampled.num_steps) != (start, stop, num_steps):
    failures.append("vectorize returned other grid parameters than requested")
if err > 1e-12:
    failures.append(f"vectorize differs from the true landscape by {err:.6g}")

# (2) the tight default grid still works
tight = vectorize(exact, num_steps=13)
grid = np.linspace(tight.start, tight.stop, tight.num_steps)
err = np.abs(tight.values - true_landscape(dgm, grid, len(tight.values))).max()
print(f"vectorize on default grid: max |sampled - true| = {err:.6g}")
if err > 1e-12:
    failures.append("vectorize on the default grid differs from the true landscape")

# (3) the grid landscape is within half a step (exact here: endpoints on the grid)
approx = PersLandscapeApprox(dgms=[dgm], start=start, stop=stop, num_steps=num_steps)
grid, step = np.linspace(start, stop, num_steps, retstep=True)
truth = true_landscape(dgm, grid, max(len(approx.values), len(dgm)))
got = np.zeros_like(truth)
got[: len(approx.values)] = approx.values
err = np.abs(got - truth).max()
print(f"approximate landscape: max error = {err:.6g} (half step = {step / 2:.6g})")
if err > 1e-12:
    failures.append("approximate landscape is off although all endpoints are on the grid")

if failures:
    print("FAIL")
    for f in failures:
        print("  -", f)
    sys.exit(1)
print("PASS")
