"""C03 demo: the exact landscape of a diagram whose last bar is the essential
(infinite) class must be the k-th-largest-tent landscape of its finite bars.

Run from inside the worktree:
    cd /tmp/wt_T03 && PYTHONPATH=/tmp/wt_T03 /venv/bin/python /tmp/ref_T03/demo.py
Prints PASS / exits 0 when the property holds, prints FAIL / exits 1 otherwise.
"""
import sys
import warnings

import numpy as np

warnings.filterwarnings("ignore")

from persim import PersLandscapeExact  # noqa: E402


def tents(bars, t):
    """sorted (descending) tent values of the finite bars at t"""
    vals = [max(0.0, min(t - b, d - t)) for b, d in bars]
    return sorted(vals, reverse=True)


def evaluate(pairs, t):
    """piecewise-linear function through the critical pairs, zero outside"""
    xs = [float(p[0]) for p in pairs]
    ys = [float(p[1]) for p in pairs]
    if not xs or t < xs[0] or t > xs[-1]:
        return 0.0
    return float(np.interp(t, xs, ys))


def check(diagram, label):
    dgm = np.array(diagram, dtype=float)
    finite = [(b, d) for b, d in dgm if np.isfinite(d)]
    pl = PersLandscapeExact(dgms=[dgm], hom_deg=0)
    cps = pl.critical_pairs
    problems = []
    for k, depth in enumerate(cps):
        flat = np.array(depth, dtype=float)
        if not np.isfinite(flat).all():
            problems.append(f"depth {k + 1} has non-finite critical points {depth}")
        xs = flat[:, 0]
        if np.any(np.diff(xs) < 0):
            problems.append(f"depth {k + 1} abscissae not ordered")
    if problems:
        print(f"  {label}: " + "; ".join(problems))
        return False
    ends = sorted({x for bar in finite for x in bar})
    grid = set(ends)
    for a, b in zip(ends, ends[1:]):
        grid.update(np.linspace(a, b, 9).tolist())
    grid.update([ends[0] - 1.0, ends[-1] + 1.0])
    for t in sorted(grid):
        want = tents(finite, t)
        for k in range(len(finite)):
            got = evaluate(cps[k], t) if k < len(cps) else 0.0
            if abs(got - want[k]) > 1e-9:
                print(
                    f"  {label}: depth {k + 1} at t={t}: landscape {got}, "
                    f"k-th largest tent {want[k]}"
                )
                return False
    if len(cps) > len(finite):
        print(f"  {label}: {len(cps)} depths for {len(finite)} finite bars")
        return False
    return True


INF = np.inf
CASES = [
    # plain finite diagrams (no essential class)
    ("finite, nested/overlapping", [[1, 5], [2, 8], [3, 4], [5, 9], [6, 7]]),
    ("finite, unsorted input", [[6, 7], [0, 3], [2.5, 9], [1, 4]]),
    # ripser-style H0: every class is born at 0, the essential one comes last
    ("H0 with essential class last", [[0, 1.5], [0, 2.5], [0, 4], [0, INF]]),
    # essential class last in the array, but it is not the bar with the largest birth
    ("essential class born before other bars", [[0, 3], [1, 4], [2, 7], [0.5, INF]]),
    # essential class last and also the latest-born bar
    ("essential class born last", [[0, 3], [1, 4], [5, INF]]),
]


def main():
    ok = True
    for label, diagram in CASES:
        good = check(diagram, label)
        print(("ok   " if good else "BAD  ") + label)
        ok = ok and good
    print("PASS" if ok else "FAIL")
    return 0 if ok else 1


if __name__ == "__main__":
    sys.exit(main())
