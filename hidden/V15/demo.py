"""C15 demo: sliced Wasserstein is a function of the two diagrams' values.

A caller rescales / translates its diagrams in place between two calls (as a
normalisation loop does).  The distance must scale linearly, must be unchanged by
a common translation along the diagonal (also into negative coordinates), must be
0 between a diagram and a reordering of itself, and must agree with the distance
between fresh copies of the same values.
"""
import sys
import numpy as np
from persim import sliced_wasserstein

ok = True


def check(name, got, want, tol=1e-9):
    global ok
    good = abs(got - want) <= tol * max(1.0, abs(want))
    print("%-58s got %.12g  want %.12g  %s" % (name, got, want, "ok" if good else "WRONG"))
    ok = ok and good


A = np.array([[0.0, 1.0], [0.5, 2.5], [1.0, 1.75]])
B = np.array([[0.25, 1.5], [0.75, 3.0]])
M = 20

d0 = sliced_wasserstein(A, B, M)

# 1. scale both diagrams in place: the distance scales linearly
A *= 2.0
B *= 2.0
check("scaled in place by 2", sliced_wasserstein(A, B, M), 2.0 * d0)
check("same values, fresh arrays", sliced_wasserstein(A.copy(), B.copy(), M), 2.0 * d0)

# 2. translate both along the diagonal into negative coordinates, in place
A -= 7.0
B -= 7.0
check("translated in place along the diagonal", sliced_wasserstein(A, B, M), 2.0 * d0, 1e-6)
check("the array agrees with a copy of itself", sliced_wasserstein(A, A.copy(), M), 0.0)

# 3. make A a reordering of B's values in place: distance to B must be 0
C = np.array([[0.0, 4.0], [1.0, 2.0]])
D = np.array([[5.0, 6.0], [0.5, 9.0]])
sliced_wasserstein(C, D, M)
C[:] = D[::-1]
check("reordering of the same diagram", sliced_wasserstein(C, D, M), 0.0)
check("symmetric", sliced_wasserstein(D, C, M), sliced_wasserstein(C, D, M))

print("PASS" if ok else "FAIL")
sys.exit(0 if ok else 1)
