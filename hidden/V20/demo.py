"""C20 demo: in a diagram plot every infinite death sits on the horizontal
infinity line drawn inside the axes - also in lifetime mode - and every finite
point is scattered at (birth, death - birth).

Run from inside the worktree:
    cd /tmp/wt_V20 && PYTHONPATH=/tmp/wt_V20 /venv/bin/python /tmp/ref_V20/demo.py
"""
import sys

import matplotlib

matplotlib.use("Agg")
import matplotlib.pyplot as plt
import numpy as np

from persim import plot_diagrams


def check(diagrams, **kw):
    fig, ax = plt.subplots()
    plot_diagrams(diagrams, ax=ax, **kw)
    lifetime = kw.get("lifetime", False)

    inf_lines = [l for l in ax.get_lines() if l.get_label() == r"$\infty$"]
    assert len(inf_lines) == 1, "expected exactly one infinity line"
    level = inf_lines[0].get_ydata()
    assert level[0] == level[1], "infinity line is not horizontal"
    level = float(level[0])
    lo, hi = ax.get_ylim()
    assert lo < level < hi, "infinity line outside the axes"

    cols = [c for c in ax.get_children() if c.__class__.__name__ == "PathCollection"]
    assert len(cols) == len(diagrams)
    problems = []
    for k, (dgm, col) in enumerate(zip(diagrams, cols)):
        off = np.asarray(col.get_offsets(), dtype=float)
        want = np.asarray(dgm, dtype=np.float32).astype(float)
        if lifetime:
            want[:, 1] = want[:, 1] - want[:, 0]
        want[np.isinf(want)] = np.float32(level)
        if off.shape != want.shape or not np.allclose(off, want, rtol=1e-6, atol=1e-6):
            problems.append((k, off.tolist(), want.tolist()))
    plt.close(fig)
    return level, problems


h0 = np.array([[0.0, 0.8], [0.0, 1.1], [0.0, np.inf]])
h1 = np.array([[1.5, 2.0], [2.0, 3.5], [2.5, np.inf]])

failed = False
for kw in ({}, {"lifetime": True}, {"lifetime": True, "xy_range": [-1, 5, -1, 5]}):
    level, problems = check([h0, h1], **kw)
    for k, got, want in problems:
        failed = True
        print("options", kw, ": diagram", k, "infinity line at y = %.4f" % level)
        print("   scattered:", got)
        print("   expected :", want)

if failed:
    print("FAIL")
    sys.exit(1)
print("PASS")
sys.exit(0)
