"""C03 demo: exact landscape vs the k-th-largest-tent definition.

Run from inside the worktree:
    cd /tmp/wt_V03 && PYTHONPATH=/tmp/wt_V03 /venv/bin/python /tmp/ref_V03/demo.py
Prints PASS / exits 0 when every diagram below gives the mathematical
landscape, prints FAIL / exits 1 otherwise.
"""
import sys

import numpy as np

from persim import PersLandscapeExact


def tents(bars, t):
    """sorted (descending) values of max(0, min(t - b, d - t)) over the bars"""
    return sorted((max(0.0, min(t - b, d - t)) for b, d in bars), reverse=True)


def evaluate(pairs, t):
    """piecewise-linear function given by critical pairs, zero outside them"""
    xs = [float(p[0]) for p in pairs]
    ys = [float(p[1]) for p in pairs]
    if not xs or t < xs[0] or t > xs[-1]:
        return 0.0
    return float(np.interp(t, xs, ys))


def check(bars):
    """list of problems for one diagram (empty list: landscape is right)"""
    P = PersLandscapeExact(dgms=[np.array(bars, dtype=float)], hom_deg=0)
    cp = P.critical_pairs
    problems = []
    for k, level in enumerate(cp):
        xs = [p[0] for p in level]
        if any(x1 > x2 for x1, x2 in zip(xs, xs[1:])):
            problems.append(f"depth {k + 1}: abscissae not ordered: {level}")
    ends = sorted({v for bar in bars for v in bar})
    grid = sorted(set(ends) | {(u + v) / 2 for u in ends for v in ends}
                  | {(3 * u + v) / 4 for u in ends for v in ends})
    for t in grid:
        want = tents(bars, t)
        for k in range(len(bars) + 1):
            w = want[k] if k < len(want) else 0.0
            g = evaluate(cp[k], t) if k < len(cp) else 0.0
            if abs(w - g) > 1e-9:
                problems.append(f"depth {k + 1}, t={t}: landscape {g}, definition {w}")
                break
    return problems, cp


# bars that occur several times (a feature seen in every one of several
# samples / cycles of equal size); nothing taller follows the repeated bar
DIAGRAMS = [
    [[1, 5]],
    [[1, 5]] * 2,
    [[1, 5]] * 3,
    [[1, 5]] * 4,
    [[1, 5]] * 5,
    [[1, 5]] * 6,
    [[1, 5]] * 4 + [[2, 4]],
    [[0, 7], [3, 4]] + [[1, 5]] * 4,
    [[0, 2]] + [[3, 6]] * 5,
    [[0.5, 2.5]] * 7 + [[1, 2]] * 3,
]

bad = 0
for bars in DIAGRAMS:
    problems, cp = check(bars)
    if problems:
        bad += 1
        print("diagram", bars)
        print("  critical_pairs:", [[[float(a), float(b)] for a, b in lv] for lv in cp])
        for line in problems[:3]:
            print("  ", line)

if bad:
    print(f"FAIL: {bad} of {len(DIAGRAMS)} diagrams disagree with the definition")
    sys.exit(1)
print(f"PASS: {len(DIAGRAMS)} diagrams agree with the definition")
sys.exit(0)
