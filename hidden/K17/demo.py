"""
Demo for property C17 (mGH accepts every graph representation and yields
valid brackets of the distance).

The mGH distance between a connected graph G and the single-vertex graph is
exactly diam(G) / 2, so [lb, ub] returned by persim.gromov_hausdorff must
contain diam(G) / 2 for every representation of G (nested lists, dense array,
sparse matrix; upper-triangular or symmetric adjacency), and a collection call
must return symmetric matrices with zero diagonal bracketing the same values.

Run from inside the worktree:
    cd /tmp/wt_K17 && PYTHONPATH=/tmp/wt_K17 /venv/bin/python /tmp/ref_K17/demo.py
"""
import sys
import warnings

import numpy as np
import scipy.sparse as sps

import persim
from persim import gromov_hausdorff
from persim.gromov_hausdorff import make_distance_matrix_from_adjacency_matrix


def path_adjacency(n):
    A = np.zeros((n, n), dtype=int)
    idx = np.arange(n - 1)
    A[idx, idx + 1] = 1
    return A


def cycle_adjacency(n):
    A = path_adjacency(n)
    A[0, n - 1] = 1
    return A


def representations(A_upper):
    A_sym = A_upper + A_upper.T
    yield "list/upper", A_upper.tolist()
    yield "dense/upper", A_upper
    yield "dense/symmetric", A_sym
    yield "csr/upper", sps.csr_matrix(A_upper)
    yield "csr/symmetric", sps.csr_matrix(A_sym)


def main():
    print("persim imported from", persim.__file__)
    failures = []
    point = [[0]]

    # (name, upper-triangular adjacency, diameter)
    graphs = [
        ("path P_100", path_adjacency(100), 99),
        ("path P_128", path_adjacency(128), 127),
        ("path P_130", path_adjacency(130), 129),
        ("path P_200", path_adjacency(200), 199),
        ("cycle C_300", cycle_adjacency(300), 150),
    ]

    with warnings.catch_warnings():
        # Connected graphs: the largest-component fallback must not kick in.
        warnings.filterwarnings("error", message="disconnected graph")
        warnings.simplefilter("ignore", RuntimeWarning)
        for name, A, diam in graphs:
            expected = 0.5 * diam
            for fmt, rep in representations(A):
                np.random.seed(0)
                D = make_distance_matrix_from_adjacency_matrix(rep)
                if D.min() < 0 or D.max() != diam:
                    failures.append(
                        "%s [%s]: distance matrix is not the shortest-path metric "
                        "(dtype %s, min %s, max %s, expected diameter %d)"
                        % (name, fmt, D.dtype, D.min(), D.max(), diam))
                try:
                    lb, ub = gromov_hausdorff(rep, point)
                except Exception as exc:
                    failures.append("%s [%s] vs point: raised %r" % (name, fmt, exc))
                    continue
                if not (lb <= expected <= ub):
                    failures.append(
                        "%s [%s] vs point: bracket [%s, %s] misses the true distance %s"
                        % (name, fmt, lb, ub, expected))

        # Collection call: symmetric, zero diagonal, brackets pairwise distances
        # to the single-vertex graph.
        np.random.seed(1)
        clique = [[0, 1, 1, 1], [0, 0, 1, 1], [0, 0, 0, 1], [0, 0, 0, 0]]
        col = [point, sps.csr_matrix(path_adjacency(130)), clique]
        try:
            lbs, ubs = gromov_hausdorff(col)
            if not (np.array_equal(lbs, lbs.T) and np.array_equal(ubs, ubs.T)):
                failures.append("collection: matrices are not symmetric")
            if np.any(np.diag(lbs) != 0) or np.any(np.diag(ubs) != 0):
                failures.append("collection: non-zero diagonal")
            for k, expected in ((1, 64.5), (2, 0.5)):
                if not (lbs[0, k] <= expected <= ubs[0, k]):
                    failures.append(
                        "collection entry (0, %d): bracket [%s, %s] misses %s"
                        % (k, lbs[0, k], ubs[0, k], expected))
            # P_130 vs 4-clique: |129 - 1| / 2 = 64 <= mGH <= 129 / 2 = 64.5.
            if not (lbs[1, 2] <= ubs[1, 2] and ubs[1, 2] >= 64.0 and lbs[1, 2] <= 64.5):
                failures.append(
                    "collection entry (1, 2): bracket [%s, %s] incompatible with [64, 64.5]"
                    % (lbs[1, 2], ubs[1, 2]))
        except Exception as exc:
            failures.append("collection call raised %r" % (exc,))

    if failures:
        for f in failures:
            print("  -", f)
        print("FAIL")
        return 1
    print("PASS")
    return 0


if __name__ == "__main__":
    try:
        code = main()
    except Exception as exc:  # an exception is a violation too
        print("  - unexpected exception: %r" % (exc,))
        print("FAIL")
        code = 1
    sys.exit(code)
