"""C12 demo: after fit(), the covered ranges must contain every fitted point
and exceed the data's extent by no more than one pixel -- also when the
diagrams are already in birth-persistence coordinates (skew=False).

Run from inside the worktree:
    cd /tmp/wt_H12 && PYTHONPATH=/tmp/wt_H12 /venv/bin/python /tmp/ref_H12/demo.py
Prints PASS / exits 0 when the property holds, prints FAIL / exits 1 otherwise.
"""
import sys

import numpy as np

from persim import PersistenceImager

TOL = 1e-9
problems = []


def check_fit(label, dgms, skew, pixel_size):
    imgr = PersistenceImager(pixel_size=pixel_size)
    imgr.fit(dgms, skew=skew)

    # the points the fit was asked to enclose, in birth-persistence coordinates
    many = dgms if isinstance(dgms, list) else [dgms]
    pts = np.vstack([np.asarray(d, dtype=float) for d in many])
    if skew:
        pts = np.column_stack([pts[:, 0], pts[:, 1] - pts[:, 0]])

    (b0, b1), (p0, p1) = imgr.birth_range, imgr.pers_range
    px = imgr.pixel_size
    res = imgr.resolution

    # square pixels of the configured size / resolution * pixel == extent == covered range
    for name, lo, hi, ext, n in (
        ("birth", b0, b1, imgr.width, res[0]),
        ("pers", p0, p1, imgr.height, res[1]),
    ):
        if abs(n * px - ext) > TOL or abs((hi - lo) - ext) > TOL:
            problems.append("%s: %s axis not self-consistent" % (label, name))

    # containment of every fitted point, and at most one pixel of excess
    for name, col, lo, hi in (("birth", 0, b0, b1), ("pers", 1, p0, p1)):
        dmin, dmax = pts[:, col].min(), pts[:, col].max()
        if dmin < lo - TOL or dmax > hi + TOL:
            problems.append(
                "%s: %s range (%g, %g) does not contain fitted data [%g, %g]"
                % (label, name, lo, hi, dmin, dmax)
            )
        if (hi - lo) - (dmax - dmin) > px + TOL:
            problems.append(
                "%s: %s range (%g, %g) exceeds fitted data [%g, %g] by more than a pixel"
                % (label, name, lo, hi, dmin, dmax)
            )

    # images have the reported resolution
    img = imgr.transform(many[0], skew=skew)
    if img.shape != tuple(res):
        problems.append("%s: image shape %s != resolution %s" % (label, img.shape, res))


# birth-death diagrams (default skew=True)
bd_a = np.array([[1.0, 2.0], [4.0, 8.0], [-1.0, 5.25]])
bd_b = np.array([[0.1, 0.4], [0.3, 1.0], [0.2, 0.9]])
check_fit("skew=True single", bd_a, True, 1)
check_fit("skew=True list", [bd_a, bd_b], True, 0.1)

# the same kind of data already given as (birth, persistence) pairs: skew=False
bp_a = np.array([[1.0, 1.0], [4.0, 4.0], [-1.0, 6.25]])
bp_b = np.array([[0.1, 0.3], [0.3, 0.7], [0.2, 0.7]])
check_fit("skew=False single", bp_a, False, 1)
check_fit("skew=False list", [bp_a, bp_b], False, 0.1)
# late births, short persistence: a second skew pushes persistence below the data
bp_c = np.array([[5.0, 1.0], [6.0, 3.0], [5.5, 2.0]])
check_fit("skew=False late births", bp_c, False, 0.5)

if problems:
    for p in problems:
        print("  -", p)
    print("FAIL")
    sys.exit(1)
print("PASS")
sys.exit(0)
