"""
Demo for property C01 (bottleneck distance is the true min-max matching cost).

Compares persim.bottleneck with an independent brute-force oracle (all ways of
pairing points with points or with the diagonal) on a few small diagrams in
which the SECOND diagram has more points than the first and the bottleneck
is the cost of sending one of its first points to the diagonal.

Prints PASS and exits 0 when every value agrees, prints FAIL and exits 1
otherwise.

Run from inside the worktree:
    cd /tmp/wt_K01 && PYTHONPATH=/tmp/wt_K01 /venv/bin/python /tmp/ref_K01/demo.py
"""

import itertools
import sys
import warnings

import numpy as np

import persim
from persim import bottleneck


def oracle(dgm1, dgm2):
    """min over all pairings of the max pairing cost, by exhaustive search"""
    A = [tuple(p) for p in dgm1 if np.isfinite(p[1])]
    B = [tuple(p) for p in dgm2 if np.isfinite(p[1])]
    m, n = len(A), len(B)
    if m + n == 0:
        return 0.0
    # left: points of A then n diagonal copies; right: points of B then m copies
    size = m + n

    def cost(i, j):
        if i < m and j < n:
            return max(abs(A[i][0] - B[j][0]), abs(A[i][1] - B[j][1]))
        if i < m:  # A[i] to the diagonal (any copy)
            return (A[i][1] - A[i][0]) / 2
        if j < n:  # B[j] to the diagonal (any copy)
            return (B[j][1] - B[j][0]) / 2
        return 0.0

    best = np.inf
    for perm in itertools.permutations(range(size)):
        worst = max(cost(i, perm[i]) for i in range(size))
        best = min(best, worst)
    return best


CASES = [
    # (dgm1, dgm2)
    ([[0, 1]], [[0, 4], [0, 1.2]]),
    ([[0, 1]], [[0, 1.2], [0, 4]]),
    ([[0, 4], [0, 1.2]], [[0, 1]]),
    ([[2, 3], [5, 9]], [[0, 7], [2, 3.5], [5, 8]]),
    ([[1, 2]], [[0, 3], [0, np.inf], [1, 2]]),
    ([], [[0, 5], [1, 2]]),
    ([[4, 6]], [[0, 10], [0, 10.5]]),
]


def main():
    print("persim imported from", persim.__file__)
    ok = True
    with warnings.catch_warnings():
        warnings.simplefilter("ignore")
        for dgm1, dgm2 in CASES:
            a = np.array(dgm1, dtype=float).reshape(-1, 2)
            b = np.array(dgm2, dtype=float).reshape(-1, 2)
            got = float(bottleneck(a, b))
            want = float(oracle(a, b))
            same = got == want
            ok = ok and same
            print(
                "{}  dgm1={} dgm2={}  bottleneck={}  oracle={}".format(
                    "ok      " if same else "MISMATCH", dgm1, dgm2, got, want
                )
            )
    if ok:
        print("PASS")
        return 0
    print("FAIL")
    return 1


if __name__ == "__main__":
    sys.exit(main())
