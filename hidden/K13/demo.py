"""C13 demo: the Gaussian kernel must agree with a reference bivariate normal CDF to 1e-7.

The reference is an independent 1-D integral

    P(X <= a, Y <= b) = int_{-inf}^{a} phi(t) * Phi((b - r t) / sqrt(1 - r^2)) dt

evaluated with scipy.integrate.quad, plus the closed form 1/4 + arcsin(r)/(2 pi) at the mean.
Run from inside the worktree:  cd /tmp/wt_K13 && PYTHONPATH=/tmp/wt_K13 /venv/bin/python /tmp/ref_K13/demo.py
"""
import sys

import numpy as np
from scipy.integrate import quad
from scipy.special import ndtr

from persim import images_kernels

TOL = 1e-7


def reference(a, b, r):
    s = np.sqrt(1.0 - r * r)
    f = lambda t: np.exp(-0.5 * t * t) / np.sqrt(2.0 * np.pi) * ndtr((b - r * t) / s)
    val, _ = quad(f, -np.inf, a, epsabs=1e-13, epsrel=1e-13, limit=400)
    return val


def main():
    mu = np.array([0.7, -0.4])
    var_x, var_y = 2.0, 0.5
    pts = np.array([[0.0, 0.0], [0.8, -0.3], [-1.1, 0.6], [1.7, 1.2], [-0.5, -2.0], [2.5, -0.2]])  # in std units
    worst = 0.0
    worst_at = None
    for r in [-0.9, -0.8, -0.6, -0.5, -0.2, 0.2, 0.5, 0.6, 0.8, 0.9, -0.95, 0.95]:
        cov = r * np.sqrt(var_x * var_y)
        sigma = np.array([[var_x, cov], [cov, var_y]])
        x = mu[0] + pts[:, 0] * np.sqrt(var_x)
        y = mu[1] + pts[:, 1] * np.sqrt(var_y)
        got = images_kernels.gaussian(x, y, mu=mu, sigma=sigma)
        for (a, b), g in zip(pts, got):
            ref = reference(a, b, r)
            if a == 0.0 and b == 0.0:
                ref = 0.25 + np.arcsin(r) / (2.0 * np.pi)
            err = abs(g - ref)
            if err > worst:
                worst, worst_at = err, (r, a, b, g, ref)

    print("module:", images_kernels.__file__)
    print("largest |kernel - reference| = %.3e at (r, a, b, kernel, reference) = %s" % (worst, (worst_at,)))
    if worst <= TOL:
        print("PASS")
        return 0
    print("FAIL: Gaussian kernel disagrees with the reference bivariate normal CDF by more than %g" % TOL)
    return 1


if __name__ == "__main__":
    sys.exit(main())
