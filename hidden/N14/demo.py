"""Demo for property C14 (heat-kernel distance is stable w.r.t. Wasserstein).

Checks, on small hand-written and seeded random diagrams of 0..9 points, that

    heat(F, G, sigma)  <=  wasserstein(F, G) / (4 * sigma * sqrt(pi))

Run from inside the worktree:
    cd <tree> && PYTHONPATH=<tree> /venv/bin/python /tmp/ref_N14/demo.py
Prints PASS and exits 0 if the bound holds everywhere, prints FAIL and exits 1 otherwise.
"""
import sys
import warnings

import numpy as np

warnings.simplefilter("ignore")
import persim
from persim import heat, wasserstein

SLACK = 1 + 1e-9


def bound_holds(F, G, sigma):
    h = heat(F, G, sigma=sigma)
    w = wasserstein(F, G)
    ok = np.isfinite(h) and h >= 0 and h <= SLACK * w / (4 * sigma * np.sqrt(np.pi))
    return ok, h, w


def cases():
    empty = np.zeros((0, 2))
    # three classes against the empty diagram: all three have to go to the diagonal
    F3 = np.array([[0.0, 1.0], [0.0, 2.0], [0.0, 3.0]])
    yield "three points vs empty", F3, empty
    yield "empty vs three points", empty, F3
    yield "three points vs one", F3, np.array([[0.1, 1.1]])
    yield "two points vs empty", F3[:2], empty
    yield "four points vs empty", np.vstack([F3, [[1.0, 1.5]]]), empty
    rng = np.random.default_rng(14)
    for n in range(0, 10):
        for m in (0, 1, n):
            b = rng.uniform(-2, 2, n)
            F = np.c_[b, b + rng.uniform(0.05, 3, n)]
            b = rng.uniform(-2, 2, m)
            G = np.c_[b, b + rng.uniform(0.05, 3, m)]
            yield "random %d vs %d" % (n, m), F, G


def main():
    print("persim imported from", persim.__file__)
    failures = 0
    checked = 0
    for name, F, G in cases():
        for sigma in (0.1, 0.4, 2.0):
            ok, h, w = bound_holds(F, G, sigma)
            checked += 1
            if not ok:
                failures += 1
                if failures <= 8:
                    print(
                        "  violated: %-24s sigma=%-4g heat=%.6g  W=%.6g  W/(4 sigma sqrt(pi))=%.6g"
                        % (name, sigma, h, w, w / (4 * sigma * np.sqrt(np.pi)))
                    )
    # the Wasserstein distance to the empty diagram is the total distance to the diagonal
    F3 = np.array([[0.0, 1.0], [0.0, 2.0], [0.0, 3.0]])
    print("W([[0,1],[0,2],[0,3]], empty) = %.6f   (sum of pers/sqrt(2) = %.6f)"
          % (wasserstein(F3, np.zeros((0, 2))), 6 / np.sqrt(2)))
    print("%d checks, %d violations of heat <= W / (4 sigma sqrt(pi))" % (checked, failures))
    if failures:
        print("FAIL")
        return 1
    print("PASS")
    return 0


if __name__ == "__main__":
    sys.exit(main())
