"""Demo for property C07 (metric / invariance laws of persim.bottleneck).

Run from inside the worktree so that the worktree copy is imported:
  cd /tmp/wt_M07 && PYTHONPATH=/tmp/wt_M07 /venv/bin/python /tmp/ref_M07/demo.py

Prints PASS and exits 0 when the laws hold, prints FAIL and exits 1 otherwise.
"""
import sys
import warnings

import numpy as np

import persim
from persim import bottleneck

warnings.simplefilter("ignore")
print("persim imported from", persim.__file__)

failures = []


def check(name, got, want, rel=1e-9):
    ok = abs(got - want) <= rel * abs(want)
    print("  [{}] {}: got {!r}, want {!r}".format("ok" if ok else "BAD", name, float(got), float(want)))
    if not ok:
        failures.append(name)


rng = np.random.default_rng(7)


def diagram(n):
    b = rng.random(n)
    return np.stack([b, b + rng.random(n)], axis=1)


empty = np.array([])
c = 2.0 ** -30  # ~9.3e-10; a power of two, so rescaling is exact in floating point

# 1. both diagrams rescaled by c  =>  the distance is rescaled by c
for trial in range(3):
    X, Y = diagram(4 + trial), diagram(6)
    check("scale law, trial %d" % trial, bottleneck(c * X, c * Y), c * bottleneck(X, Y))

# 2. against the empty diagram the distance is max persistence / 2 (tiny coordinates)
X = c * diagram(5)
check("empty diagram, tiny scale", bottleneck(X, empty), 0.5 * np.max(X[:, 1] - X[:, 0]))
check("empty diagram, tiny scale, swapped", bottleneck(empty, X), 0.5 * np.max(X[:, 1] - X[:, 0]))

# 3. against the empty diagram, ordinary scale, two nearly tied persistences
X = np.array([[0.0, 1.0], [0.0, 1.000008], [0.2, 0.5]])
check("empty diagram, near tie", bottleneck(X, empty), 0.5 * 1.000008)

# 4. same near tie, shifted along the diagonal and with points on the diagonal added
shift = 3.0
Xs = np.vstack([X + shift, [[1.0, 1.0], [4.0, 4.0]]])
check("near tie, shifted + diagonal points", bottleneck(Xs, np.array([[2.0, 2.0]])), 0.5 * 1.000008)

if failures:
    print("FAIL", failures)
    sys.exit(1)
print("PASS")
sys.exit(0)
