"""C11 demo: a persistence image must not depend on how the call is made.

The same diagrams are transformed serially (n_jobs=None) and through the
joblib path (n_jobs=1 runs in-process, n_jobs=2 uses workers), in
birth-death form (skew=True) and pre-converted birth-persistence form
(skew=False).  All of these must give the same images.
"""
import sys
import warnings

warnings.filterwarnings("ignore")

import matplotlib

matplotlib.use("Agg")

import numpy as np

from persim import PersistenceImager

failures = []


def check(name, got, want):
    got = np.asarray(got)
    want = np.asarray(want)
    ok = got.shape == want.shape and np.allclose(got, want, rtol=0, atol=1e-12)
    print("%-58s %s" % (name, "ok" if ok else "MISMATCH (max abs diff %.3g)" % np.abs(got - want).max()))
    if not ok:
        failures.append(name)


bd1 = np.array([[0.2, 1.0], [0.5, 0.9], [1.0, 1.9], [0.1, 0.4]])
bd2 = np.array([[0.3, 0.6], [0.8, 1.8]])
bd_dgms = [bd1, bd2]
# the same diagrams pre-converted to birth-persistence coordinates
bp_dgms = [np.column_stack([d[:, 0], d[:, 1] - d[:, 0]]) for d in bd_dgms]

imgr = PersistenceImager(birth_range=(0.0, 1.2), pers_range=(0.0, 1.2), pixel_size=0.2)

ref = imgr.transform(bd_dgms, skew=True)  # serial, birth-death form

# default option through the joblib path
check("bd form, n_jobs=1   vs serial", imgr.transform(bd_dgms, skew=True, n_jobs=1), ref)
# pre-converted form, serial
check("bp form (skew=False), serial vs bd form", imgr.transform(bp_dgms, skew=False), ref)
# pre-converted form through the joblib path
check("bp form (skew=False), n_jobs=1 vs serial", imgr.transform(bp_dgms, skew=False, n_jobs=1), ref)
check("bp form (skew=False), n_jobs=2 vs serial", imgr.transform(bp_dgms, skew=False, n_jobs=2), ref)
# a diagram passed alone through the joblib path
check("single bp diagram, n_jobs=1 vs inside collection", imgr.transform(bp_dgms[0], skew=False, n_jobs=1), ref[0])

# non-negativity and mass bound (persistence weight, n=1 -> total weight = sum of persistences)
imgs = imgr.transform(bp_dgms, skew=False, n_jobs=1)
for k, (img, bp) in enumerate(zip(imgs, bp_dgms)):
    ok = img.min() >= 0 and img.sum() <= bp[:, 1].sum() + 1e-12
    print("%-58s %s" % ("diagram %d: pixels >= 0 and total <= total weight" % k, "ok" if ok else "VIOLATED"))
    if not ok:
        failures.append("bounds %d" % k)

if failures:
    print("FAIL")
    sys.exit(1)
print("PASS")
sys.exit(0)
