"""Demo for property C17 (mGH brackets are valid for every representation / relabelling).

Run from inside the tree under test so that its persim copy is imported:
    cd /tmp/wt_Q17 && PYTHONPATH=/tmp/wt_Q17 /venv/bin/python /tmp/ref_Q17/demo.py

Prints PASS and exits 0 when every (lb, ub) returned by persim.gromov_hausdorff
brackets the exact modified Gromov-Hausdorff distance (computed here by brute
force over all mappings), is the same for every container format, and a
collection call returns symmetric, zero-diagonal matrices.  Prints FAIL and
exits 1 otherwise.
"""
import itertools
import sys
import warnings

import numpy as np
import scipy.sparse as sps
from scipy.sparse.csgraph import shortest_path

warnings.filterwarnings("ignore", category=SyntaxWarning)
from persim import gromov_hausdorff  # noqa: E402


def upper(n, edges):
    A = np.zeros((n, n), dtype=int)
    for u, v in edges:
        A[min(u, v), max(u, v)] = 1
    return A


def relabel(A, perm):
    S = A + A.T
    return np.triu(S[np.ix_(perm, perm)], 1)


def distances(A):
    return shortest_path(A, directed=False, unweighted=True).astype(int)


def min_distortion(DX, DY):
    """Smallest distortion over ALL mappings X -> Y (brute force)."""
    n, m = len(DX), len(DY)
    maps = np.array(list(itertools.product(range(m), repeat=n)))
    dis = np.zeros(len(maps), dtype=int)
    for a in range(n):
        for b in range(a + 1, n):
            dis = np.maximum(dis, np.abs(DX[a, b] - DY[maps[:, a], maps[:, b]]))
    return int(dis.min())


def exact_mgh(A, B):
    DX, DY = distances(A), distances(B)
    return 0.5 * max(min_distortion(DX, DY), min_distortion(DY, DX))


def formats(A):
    S = A + A.T
    return {
        "list/upper": A.tolist(), "list/sym": S.tolist(),
        "dense/upper": A, "dense/sym": S,
        "csr/upper": sps.csr_matrix(A), "csr/sym": sps.csr_matrix(S),
        "csc/sym": sps.csc_matrix(S),
    }


problems = []

# G: a 4-cycle 0-1-2-3 with two pendant vertices on vertex 3.
G = upper(6, [(0, 1), (0, 3), (1, 2), (2, 3), (3, 4), (3, 5)])
# H: an isomorphic copy of G (the 4-cycle is 0-1-3-2, pendants again on vertex 3).
H = upper(6, [(0, 1), (0, 2), (1, 3), (2, 3), (3, 4), (3, 5)])
# T: a small tree, P: a larger sparse graph (connected).
T = upper(5, [(0, 1), (0, 2), (2, 3), (2, 4)])
P = upper(8, [(0, 1), (0, 2), (0, 3), (0, 7), (1, 3), (1, 6), (3, 4), (4, 5), (4, 7)])

pairs = {"G~H (isomorphic)": (G, H), "T vs P": (T, P),
         "G vs relabelled G": (G, relabel(G, [3, 5, 0, 2, 4, 1]))}

for name, (A, B) in pairs.items():
    truth = exact_mgh(A, B)
    lbs_seen = set()
    FA, FB = formats(A), formats(B)
    for seed, (fa, fb) in enumerate(zip(FA, reversed(list(FB)))):
        np.random.seed(seed)
        with warnings.catch_warnings():
            warnings.simplefilter("error")  # connected graphs: no warning expected
            lb, ub = gromov_hausdorff(FA[fa], FB[fb])
        lbs_seen.add(float(lb))
        if not (lb <= truth <= ub):
            problems.append("%s [%s, %s]: bracket (%s, %s) does not contain mGH = %s"
                            % (name, fa, fb, lb, ub, truth))
    if len(lbs_seen) != 1:
        problems.append("%s: lower bound depends on the container format: %s" % (name, sorted(lbs_seen)))

# Collection call: symmetric, zero diagonal, every entry brackets the pairwise distance.
graphs = [G, sps.csr_matrix(H), T.tolist(), P + P.T]
plain = [G, H, T, P]
np.random.seed(7)
lbs, ubs = gromov_hausdorff(graphs)
if not (np.array_equal(lbs, lbs.T) and np.array_equal(ubs, ubs.T)):
    problems.append("collection: matrices are not symmetric")
if np.any(np.diag(lbs) != 0) or np.any(np.diag(ubs) != 0):
    problems.append("collection: non-zero diagonal")
for i, j in itertools.combinations(range(len(plain)), 2):
    truth = exact_mgh(plain[i], plain[j])
    if not (lbs[i, j] <= truth <= ubs[i, j]):
        problems.append("collection[%d, %d]: bracket (%s, %s) does not contain mGH = %s"
                        % (i, j, lbs[i, j], ubs[i, j], truth))

if problems:
    for p in problems:
        print("  -", p)
    print("FAIL")
    sys.exit(1)
print("PASS")
sys.exit(0)
