"""C16 demo: every entry of the entropy vector is the Shannon entropy of that barcode's
normalised bar lengths (log n for n equal bars, 0 for one bar), also inside a batch.

Run from the worktree:  cd /tmp/wt_V16 && PYTHONPATH=/tmp/wt_V16 /venv/bin/python /tmp/ref_V16/demo.py
"""
import sys
import warnings

import numpy as np

warnings.simplefilter("ignore")
from persim.persistent_entropy import persistent_entropy


def shannon(dgm):
    l = dgm[:, 1] - dgm[:, 0]
    p = l / l.sum()
    return float(-(p * np.log(p)).sum())


one_bar = np.array([[0.0, 2.0]])
three_equal = np.array([[0.0, 2.0], [1.0, 3.0], [5.0, 7.0]])
other = np.array([[0.0, 1.0], [0.0, 3.0], [2.0, 4.0]])

failures = []
for name, batch in [
    ("one bar first", [one_bar, other, three_equal]),
    ("equal bars first", [three_equal, other, one_bar]),
    ("with an infinite bar", [np.vstack([one_bar, [[0.0, np.inf]]]), three_equal]),
]:
    for normalize in (False, True):
        got = persistent_entropy(batch, normalize=normalize)
        single = np.array([persistent_entropy(d, normalize=normalize)[0] for d in batch])
        finite = [d[d[:, 1] != np.inf] for d in batch]
        want = np.array([shannon(d) for d in finite])
        if normalize:
            want = want / np.log([len(d) for d in finite])
        ok = (
            got.shape == want.shape
            and np.allclose(got, want, equal_nan=True)
            and np.allclose(got, single, equal_nan=True)
        )
        if not ok:
            failures.append((name, normalize, got, want))

if failures:
    for name, normalize, got, want in failures:
        print("batch %r normalize=%s: got %s, expected %s" % (name, normalize, got, want))
    print("FAIL")
    sys.exit(1)
print("PASS")
sys.exit(0)
