"""C10 demo: norms of a *difference* of two exact landscapes equal the integrals
they name, and the sup norm of the difference is bounded by the bottleneck
distance of the two diagrams.

Run from inside the tree under test so that its persim is the one imported:
    cd /tmp/wt_U10 && PYTHONPATH=/tmp/wt_U10 /venv/bin/python /tmp/ref_U10/demo.py

Prints PASS and exits 0 when the property holds, prints FAIL and exits 1 otherwise.
"""
import sys
import warnings

import numpy as np

import persim
from persim import PersLandscapeExact, bottleneck

warnings.simplefilter("ignore")


def landscape_on_grid(dgm, ts):
    """Brute force: lambda_k(t) = k-th largest of max(0, min(t - b, d - t))."""
    tents = np.maximum(0.0, np.minimum(ts[None, :] - dgm[:, [0]], dgm[:, [1]] - ts[None, :]))
    return -np.sort(-tents, axis=0)  # row k = depth k


def on_grid(L, ts):
    """The piecewise-linear functions an exact landscape stores, sampled on ts."""
    rows = []
    for depth in L.critical_pairs:
        pts = np.asarray(depth, dtype=float)
        rows.append(np.interp(ts, pts[:, 0], pts[:, 1], left=0.0, right=0.0))
    return np.array(rows)


def reference(P, Q, d1, d2, p):
    """sup and p-norm of P - Q straight from the definition: the operands'
    own functions are sampled, subtracted depth by depth, and integrated."""
    lo = min(d1[:, 0].min(), d2[:, 0].min()) - 0.5
    hi = max(d1[:, 1].max(), d2[:, 1].max()) + 0.5
    ts = np.linspace(lo, hi, 200001)
    f, g = on_grid(P, ts), on_grid(Q, ts)
    # is what the library computed for the operands the true landscape?
    faithful = all(
        np.allclose(on_grid(L, ts), landscape_on_grid(d.astype(float), ts)[: L.max_depth], atol=1e-9)
        for L, d in ((P, d1), (Q, d2))
    )
    depth = max(len(f), len(g))
    f = np.pad(f, ((0, depth - len(f)), (0, 0)))
    g = np.pad(g, ((0, depth - len(g)), (0, 0)))
    h = np.abs(f - g)
    y = h**p
    integral = float(np.sum((y[:, 1:] + y[:, :-1]) * 0.5 * np.diff(ts)[None, :]))
    return float(h.max()), integral ** (1.0 / p), faithful


def cases():
    # the second diagram's bar ends inside the first one's down-slope, and the
    # first diagram goes on with two short bars far to the right
    yield np.array([[0.0, 2.0], [10.0, 10.2], [11.0, 11.2]]), np.array([[0.0, 1.9]])
    yield np.array([[0.0, 4.0], [1.0, 5.0], [6.0, 9.0]]), np.array([[0.5, 3.0], [2.0, 3.5]])
    yield np.array([[1, 5], [1, 5], [3, 6]]), np.array([[0, 2], [7, 12], [8, 10]])
    # random diagrams on a quarter-integer lattice: every breakpoint, slope and
    # value of the sums below is then exact in floating point
    rng = np.random.default_rng(10)
    for _ in range(12):
        n, m = rng.integers(1, 6, size=2)
        b1 = rng.integers(0, 32, size=n) / 4.0
        b2 = rng.integers(0, 32, size=m) / 4.0
        yield (
            np.stack([b1, b1 + rng.integers(1, 17, size=n) / 4.0], axis=1),
            np.stack([b2, b2 + rng.integers(1, 17, size=m) / 4.0], axis=1),
        )


def main():
    print("persim imported from", persim.__file__)
    bad = []
    n = 0
    n_stab = 0
    for d1, d2 in cases():
        P = PersLandscapeExact(dgms=[d1], hom_deg=0)
        Q = PersLandscapeExact(dgms=[d2], hom_deg=0)
        db = bottleneck(d1.astype(float), d2.astype(float))
        for tag, D, (A, B, x, y) in (("P-Q", P - Q, (P, Q, d1, d2)), ("Q-P", Q - P, (Q, P, d2, d1))):
            sup = float(D.sup_norm())
            for p in (1, 2, 2.5):
                n += 1
                ref_sup, ref_norm, faithful = reference(A, B, x, y, p)
                got = float(D.p_norm(p=p))
                if not np.isfinite(got) or abs(got - ref_norm) > 1e-3 * max(1.0, ref_norm):
                    bad.append(f"{tag} p={p}: p_norm {got:.6g} but the integral gives {ref_norm:.6g}  dgms {x.tolist()} {y.tolist()}")
            if abs(sup - ref_sup) > 1e-3 * max(1.0, ref_sup):
                bad.append(f"{tag}: sup_norm {sup:.6g} but max |difference| is {ref_sup:.6g}  dgms {x.tolist()} {y.tolist()}")
            # stability, where the operands are the true landscapes of the diagrams
            n_stab += bool(faithful)
            if faithful and sup > db + 1e-9:
                bad.append(f"{tag}: sup_norm {sup:.6g} exceeds the bottleneck distance {db:.6g}  dgms {x.tolist()} {y.tolist()}")
        # ||P - Q|| == ||Q - P||  (absolute homogeneity with the scalar -1)
        a, b = float((P - Q).p_norm(p=2)), float((Q - P).p_norm(p=2))
        if abs(a - b) > 1e-9 * max(1.0, a):
            bad.append(f"|P-Q|_2 = {a:.6g} but |Q-P|_2 = {b:.6g}  dgms {d1.tolist()} {d2.tolist()}")
        # P - P is the zero landscape
        z = float((P - P).p_norm(p=2))
        if z != 0.0:
            bad.append(f"|P-P|_2 = {z}")
    print(f"{n} norm comparisons, {n_stab} stability checks")
    if bad:
        for line in bad[:8]:
            print("  ", line)
        print(f"FAIL ({len(bad)} violations)")
        return 1
    print("PASS")
    return 0


if __name__ == "__main__":
    sys.exit(main())
