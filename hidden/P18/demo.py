"""C18 demo: a refit must forget the past, and fit+transform == fit_transform.

A PersistenceImager with a non-separable kernel (uniform kernel here; an
anisotropic Gaussian sigma behaves the same) is used the way a cross-validation
loop uses a transformer: fit/transform on fold A, then refit/transform on fold B.
Fold B has the same extent as fold A (hence the same image resolution) but sits
elsewhere in the birth-persistence plane. The images of fold B must be identical
to those produced by a brand-new imager with the same user parameters.

Run from inside the worktree:
  cd /tmp/wt_P18 && PYTHONPATH=/tmp/wt_P18 /venv/bin/python /tmp/ref_P18/demo.py
"""
import sys

import matplotlib

matplotlib.use("Agg")
import numpy as np

from persim import PersistenceImager

PARAMS = dict(
    pixel_size=0.5,
    kernel="uniform",
    kernel_params={"width": 1.0, "height": 1.0},
)

fold_a = [np.array([[0.0, 1.0], [2.0, 5.0]]), np.array([[1.0, 2.5], [0.5, 3.0]])]
fold_b = [d + 10.0 for d in fold_a]  # same spans, shifted births


def equal(xs, ys):
    return len(xs) == len(ys) and all(
        x.shape == y.shape and np.array_equal(x, y) for x, y in zip(xs, ys)
    )


def state(im):
    return (im.birth_range, im.pers_range, im.resolution, im.pixel_size)


problems = []

# reference: fresh estimators
fresh = PersistenceImager(**PARAMS)
ref_b = fresh.fit_transform(fold_b)
fresh2 = PersistenceImager(**PARAMS)
fresh2.fit(fold_b)
ref_b2 = fresh2.transform(fold_b)
if not equal(ref_b, ref_b2):
    problems.append("fresh imager: fit+transform != fit_transform")

# estimator with a history
used = PersistenceImager(**PARAMS)
used.fit(fold_a)
imgs_a = used.transform(fold_a)
used.fit(fold_b)
if state(used) != state(fresh):
    problems.append("refit learned a different grid than a fresh fit")
imgs_b = used.transform(fold_b)
if not equal(imgs_b, ref_b):
    problems.append(
        "transform after refit differs from a fresh imager "
        "(max abs diff %.3g)"
        % max(np.abs(x - y).max() for x, y in zip(imgs_b, ref_b))
    )
if not equal(used.transform(fold_b), imgs_b):
    problems.append("transform is not repeatable")
if state(used) != state(fresh):
    problems.append("transform altered the fitted state")

# combined call on an estimator with a history
used2 = PersistenceImager(**PARAMS)
used2.fit_transform(fold_a)
if not equal(used2.fit_transform(fold_b), ref_b):
    problems.append("fit_transform after an earlier fit_transform differs from a fresh imager")

# going back to fold A reproduces the first answer
used.fit(fold_a)
if not equal(used.transform(fold_a), imgs_a):
    problems.append("refit on the original data does not reproduce the original images")

if problems:
    print("FAIL")
    for p in problems:
        print(" -", p)
    sys.exit(1)
print("PASS")
sys.exit(0)
