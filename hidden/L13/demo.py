"""Demo for property C13 (kernels are valid, accurate CDFs) -- uniform kernel part.

The uniform kernel must be the CDF of the uniform distribution on the
width x height box CENTRED at mu:

    F(x, y) = clip((x - (mu0 - width/2)) / width, 0, 1) * clip((y - (mu1 - height/2)) / height, 0, 1)

Run from inside the worktree:
    cd /tmp/wt_L13 && PYTHONPATH=/tmp/wt_L13 /venv/bin/python /tmp/ref_L13/demo.py
Exits 0 / prints PASS when the property holds, exits 1 / prints FAIL otherwise.
"""
import sys

import numpy as np

from persim import images_kernels
from persim import PersistenceImager


def reference_uniform(x, y, mu, width, height):
    fx = np.clip((np.asarray(x, dtype=float) - (mu[0] - width / 2.0)) / width, 0.0, 1.0)
    fy = np.clip((np.asarray(y, dtype=float) - (mu[1] - height / 2.0)) / height, 0.0, 1.0)
    return fx * fy


def main():
    print("persim.images_kernels from", images_kernels.__file__)
    failures = []

    # 1. point-wise agreement with the reference CDF, square and non-square boxes
    grid = np.linspace(-4.0, 6.0, 41)
    xx, yy = (a.ravel() for a in np.meshgrid(grid, grid, indexing="ij"))
    for width, height in [(1, 1), (2.0, 2.0), (3, 1), (1, 3), (0.5, 2.25)]:
        for mu in [(0.0, 0.0), (1.0, 2.0), (2.5, -0.75)]:
            got = images_kernels.uniform(xx, yy, mu=mu, width=width, height=height)
            want = reference_uniform(xx, yy, mu, width, height)
            err = float(np.max(np.abs(got - want)))
            if err > 1e-12:
                failures.append("uniform(width=%s, height=%s, mu=%s): max |F - reference| = %.3g" % (width, height, mu, err))

    # 2. the box is centred at mu: half of the mass lies below the centre in each coordinate
    mu, width, height = (1.0, 2.0), 1.0, 3.0
    below_centre_y = images_kernels.uniform(np.array([100.0]), np.array([mu[1]]), mu=mu, width=width, height=height)[0]
    if abs(below_centre_y - 0.5) > 1e-12:
        failures.append("mass below the centre in y for a 1 x 3 box is %.6f, expected 0.5" % below_centre_y)

    # 3. through the imager: one point, uniform 0.2 x 0.6 kernel; the mass must be symmetric about the point
    imgr = PersistenceImager(birth_range=(0.0, 1.0), pers_range=(0.0, 2.0), pixel_size=0.1,
                             weight=lambda b, p: np.ones_like(b), weight_params={},
                             kernel="uniform", kernel_params={"width": 0.2, "height": 0.6})
    img = imgr.transform(np.array([[0.5, 1.0]]), skew=False)
    rows = img.sum(axis=0)  # mass per persistence row
    centre_of_mass = float(np.sum(rows * (np.arange(len(rows)) + 0.5) * 0.1) / np.sum(rows))
    if abs(centre_of_mass - 1.0) > 1e-9 or abs(img.sum() - 1.0) > 1e-9:
        failures.append("imager: uniform 0.2 x 0.6 kernel at persistence 1.0 has centre of mass %.4f, total %.4f"
                        % (centre_of_mass, img.sum()))

    if failures:
        for f in failures:
            print("  violation:", f)
        print("FAIL")
        return 1
    print("PASS")
    return 0


if __name__ == "__main__":
    sys.exit(main())
