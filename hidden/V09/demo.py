"""C09 demo: landscape arithmetic is pointwise and leaves the operands untouched,
also when the operands' values are read-only arrays (rows of a frozen table,
a protected array the caller keeps).

Run from inside the tree under test:
    cd <tree> && PYTHONPATH=<tree> /venv/bin/python /tmp/ref_V09/demo.py
Exit 0 / PASS when the property holds, exit 1 / FAIL otherwise.
"""
import sys
import traceback

import numpy as np

from persim.landscapes import (
    PersLandscapeApprox,
    average_approx,
    lc_approx,
    snap_pl,
)

failures = []


def check(name, fn):
    try:
        ok, detail = fn()
    except Exception as exc:  # the operation itself must not fail
        ok, detail = False, "raised %s: %s" % (type(exc).__name__, exc)
        traceback.print_exc()
    print(("ok   " if ok else "BAD  ") + name + ("" if ok else "  -> " + detail))
    if not ok:
        failures.append(name)


# A table of sampled landscape functions that its owner has frozen; landscapes
# are built from blocks of rows of it (views of a read-only base).
table = np.array(
    [
        [0.0, 1.0, 2.0, 1.0, 0.0],
        [0.0, 0.0, 1.0, 0.0, 0.0],
        [0.0, 1.0, 1.0, 1.0, 0.0],
    ]
)
table.setflags(write=False)
table_before = table.copy()

GRID = dict(start=0.0, stop=4.0, num_steps=5)
a = PersLandscapeApprox(values=table[:2], **GRID)  # two depths
b = PersLandscapeApprox(values=table[2:], **GRID)  # one depth

pad_b = np.vstack([table_before[2:], np.zeros((1, 5))])


def state(pl):
    return (pl.values.copy(), pl.values.dtype, pl.values.flags.writeable, pl.start, pl.stop, pl.num_steps)


def same_state(s, t):
    return np.array_equal(s[0], t[0]) and s[1:] == t[1:]


a0, b0 = state(a), state(b)


def pointwise(name, fn, expected):
    def run():
        res = fn()
        if not np.array_equal(res.values, expected):
            return False, "values %r != %r" % (res.values.tolist(), expected.tolist())
        if not (same_state(state(a), a0) and same_state(state(b), b0)):
            return False, "an operand changed (values or flags)"
        if not np.array_equal(table, table_before) or table.flags.writeable:
            return False, "the caller's frozen table changed"
        return True, ""

    check(name, run)


pointwise("a + b", lambda: a + b, table_before[:2] + pad_b)
pointwise("b + a", lambda: b + a, table_before[:2] + pad_b)
pointwise("a - b", lambda: a - b, table_before[:2] - pad_b)
pointwise("-a", lambda: -a, -table_before[:2])
pointwise("2.5 * b", lambda: 2.5 * b, 2.5 * table_before[2:])
pointwise("a / 4", lambda: a / 4, 0.25 * table_before[:2])
pointwise("a + a", lambda: a + a, 2 * table_before[:2])
pointwise(
    "lc_approx([a, b], [2, -1])",
    lambda: lc_approx([a, b], [2, -1]),
    2 * table_before[:2] - pad_b,
)
pointwise(
    "average_approx([a, b])",
    lambda: average_approx([a, b]),
    0.5 * (table_before[:2] + pad_b),
)


def snapping():
    grid = np.linspace(0.0, 4.0, 9)
    src = np.linspace(0.0, 4.0, 5)
    [sa, sb] = snap_pl([a, b], num_steps=9)
    ea = np.array([np.interp(grid, src, row) for row in table_before[:2]])
    eb = np.array([np.interp(grid, src, row) for row in table_before[2:]])
    if not (np.array_equal(sa.values, ea) and np.array_equal(sb.values, eb)):
        return False, "snapped values are not the linear interpolation"
    if not (same_state(state(a), a0) and same_state(state(b), b0)):
        return False, "an operand changed (values or flags)"
    return True, ""


check("snap_pl([a, b], num_steps=9)", snapping)

# An array the caller owns and has protected against writes: after arithmetic
# it must still be exactly what it was, protection included.
own = np.array([[0, 1, 3, 1, 0], [0, 0, 1, 0, 0]])
own.setflags(write=False)
c = PersLandscapeApprox(values=own, **GRID)
c0 = state(c)


def protected():
    r1 = 3 * c
    r2 = c - c
    r3 = -c
    if not np.array_equal(r1.values, 3 * np.array(own)):
        return False, "3 * c wrong"
    if np.any(r2.values) or not np.array_equal(r3.values, -np.array(own)):
        return False, "c - c or -c wrong"
    if not same_state(state(c), c0):
        return False, "operand changed: writeable flag of c.values is now %s (was False)" % c.values.flags.writeable
    if own.flags.writeable:
        return False, "the caller's protected array became writeable"
    return True, ""


check("operand holding a protected array is unchanged by 3*c, c-c, -c", protected)

# writable operands: flags come back as they were, also after a rejected sum
w = PersLandscapeApprox(values=np.array([[0.0, 1.0, 0.0]]), start=0.0, stop=2.0, num_steps=3)
w2 = PersLandscapeApprox(values=np.array([[0.0, 1.0, 0.0, 0.0]]), start=0.0, stop=2.0, num_steps=3)


def rejected():
    try:
        w + w2  # widths differ: rejected
        return False, "mismatched widths were not rejected"
    except ValueError:
        pass
    if not (w.values.flags.writeable and w2.values.flags.writeable):
        return False, "operand left read-only after a rejected sum"
    return True, ""


check("rejected sum leaves writable operands writable", rejected)

if failures:
    print("FAIL (%d checks): %s" % (len(failures), "; ".join(failures)))
    sys.exit(1)
print("PASS")
sys.exit(0)
