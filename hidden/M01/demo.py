"""
Property C01: persim.bottleneck returns the true min-max matching cost.

Run from inside the worktree:
    cd /tmp/wt_M01 && PYTHONPATH=/tmp/wt_M01 /venv/bin/python /tmp/ref_M01/demo.py
Prints PASS and exits 0 if the property holds on all cases, else FAIL / exit 1.
"""
import itertools
import sys
import warnings

import numpy as np

warnings.simplefilter("ignore")
from persim import bottleneck


def oracle(A, B):
    """Brute-force min over all partial pairings of the largest pairing cost."""
    A = [tuple(p) for p in A]
    B = [tuple(p) for p in B]
    diag = lambda p: (p[1] - p[0]) / 2.0
    linf = lambda p, q: max(abs(p[0] - q[0]), abs(p[1] - q[1]))
    best = np.inf
    for k in range(min(len(A), len(B)) + 1):
        for sa in itertools.combinations(range(len(A)), k):
            for sb in itertools.permutations(range(len(B)), k):
                costs = [linf(A[i], B[j]) for i, j in zip(sa, sb)]
                costs += [diag(A[i]) for i in range(len(A)) if i not in sa]
                costs += [diag(B[j]) for j in range(len(B)) if j not in sb]
                best = min(best, max(costs, default=0.0))
    return best


failures = []


def check(A, B, label):
    got = bottleneck(np.array(A, dtype=float).reshape(-1, 2), np.array(B, dtype=float).reshape(-1, 2))
    want = oracle(A, B)
    if not np.isclose(got, want, rtol=1e-12, atol=0.0) and got != want:
        failures.append((label, A, B, float(got), float(want)))


# hand-written case: the point of the second diagram is born later than the
# point of the first one, and the birth gap (3) dominates the death gap (0.5);
# true answer: both points go to the diagonal, cost max(2, 0.75) = 2
check([(0.0, 4.0)], [(3.0, 4.5)], "hand A,B")
check([(3.0, 4.5)], [(0.0, 4.0)], "hand B,A")
check([(-5.0, -1.0), (0.0, 1.0)], [(-2.0, -0.5)], "negative coordinates")

rng = np.random.default_rng(2024)
for t in range(300):
    m, n = rng.integers(0, 4, size=2)
    scale = 10.0 ** rng.integers(-6, 4)
    if t % 3 == 0:  # ties / repeated / diagonal points on a half-integer grid
        b1 = rng.integers(-3, 4, m) / 2.0; d1 = b1 + rng.integers(0, 5, m) / 2.0
        b2 = rng.integers(-3, 4, n) / 2.0; d2 = b2 + rng.integers(0, 5, n) / 2.0
    else:
        b1 = rng.normal(size=m) * scale; d1 = b1 + rng.random(m) * scale
        b2 = rng.normal(size=n) * scale; d2 = b2 + rng.random(n) * scale
    check(list(zip(b1.tolist(), d1.tolist())), list(zip(b2.tolist(), d2.tolist())), "random %d" % t)

if failures:
    for label, A, B, got, want in failures[:5]:
        print("  %s: dgm1=%s dgm2=%s bottleneck=%r brute force=%r" % (label, A, B, got, want))
    print("FAIL (%d of 303 cases disagree with the brute-force min-max matching cost)" % len(failures))
    sys.exit(1)
print("PASS (303 cases agree with the brute-force min-max matching cost)")
sys.exit(0)
