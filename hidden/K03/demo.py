"""Demo for property C03: the exact landscape equals the k-th-largest-tent
definition everywhere.

Run from inside the worktree:
    cd /tmp/wt_K03 && PYTHONPATH=/tmp/wt_K03 /venv/bin/python /tmp/ref_K03/demo.py

Prints PASS / exits 0 when every diagram below agrees with the definition,
prints FAIL / exits 1 otherwise.
"""
import sys

import numpy as np

from persim import PersLandscapeExact


def tent_kth_largest(bars, t, k):
    """k-th largest (k >= 1) of max(0, min(t - b, d - t)) over the bars."""
    vals = sorted((max(0.0, min(t - b, d - t)) for b, d in bars), reverse=True)
    return vals[k - 1] if k <= len(vals) else 0.0


def interpolate(pairs, t):
    """Piecewise-linear function through the critical pairs, zero outside."""
    xs = [float(p[0]) for p in pairs]
    ys = [float(p[1]) for p in pairs]
    if not xs or t <= xs[0] or t >= xs[-1]:
        return 0.0
    return float(np.interp(t, xs, ys))


def check(bars):
    bars = [(float(b), float(d)) for b, d in bars]
    pl = PersLandscapeExact(dgms=[np.array(bars)], hom_deg=0)
    crit = pl.critical_pairs
    problems = []
    # abscissae must be non-decreasing
    for k, pairs in enumerate(crit, start=1):
        xs = [p[0] for p in pairs]
        if any(x1 < x0 for x0, x1 in zip(xs, xs[1:])):
            problems.append(f"depth {k}: abscissae not ordered: {xs}")
    # sample points: every bar end-point, every mid-point between them, and a grid
    ends = sorted({x for bar in bars for x in bar})
    ts = set(ends)
    ts.update((u + v) / 2 for u in ends for v in ends)
    lo, hi = ends[0] - 1.0, ends[-1] + 1.0
    ts.update(np.linspace(lo, hi, 241))
    for k in range(1, len(bars) + 2):
        pairs = crit[k - 1] if k <= len(crit) else []
        for t in sorted(ts):
            want = tent_kth_largest(bars, t, k)
            got = interpolate(pairs, t)
            if abs(want - got) > 1e-9:
                problems.append(
                    f"depth {k}, t={t:g}: landscape gives {got:g}, definition gives {want:g}"
                )
                break
    return crit, problems


DIAGRAMS = [
    # the textbook example of the test-suite
    [(1, 5), (2, 8), (3, 4), (5, 9), (6, 7)],
    # nested / overlapping / touching, all positive
    [(0, 6), (1, 3), (2, 5), (3, 4), (6, 8)],
    # equal births and equal deaths
    [(0, 4), (0, 2), (1, 4), (3, 5)],
    # a sub-level-set style diagram: negative births, one class dying at level 0
    [(-4, -1), (-3, 0)],
    [(-5, -2), (-4.5, -3), (-4, -1), (-3, 0), (-2.5, -0.5)],
    # the previous one shifted by 0.25 (control: nothing dies exactly at 0)
    [(-4.75, -1.75), (-4.25, -2.75), (-3.75, -0.75), (-2.75, 0.25), (-2.25, -0.25)],
    # all negative
    [(-9, -5), (-8, -2), (-7, -6), (-5, -1), (-4, -3)],
]


def main():
    failed = False
    for bars in DIAGRAMS:
        crit, problems = check(bars)
        if problems:
            failed = True
            print("diagram", bars)
            print("  critical pairs:", [[[float(a), float(b)] for a, b in lv] for lv in crit])
            for line in problems:
                print("  MISMATCH", line)
    if failed:
        print("FAIL")
        return 1
    print("PASS")
    return 0


if __name__ == "__main__":
    sys.exit(main())
