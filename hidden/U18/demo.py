"""C18 demo: a failed fit must not change what later fits / transforms of the same imager produce.

Run from inside the worktree:
    cd /tmp/wt_U18 && PYTHONPATH=/tmp/wt_U18 /venv/bin/python /tmp/ref_U18/demo.py
"""
import sys
import warnings

import matplotlib

matplotlib.use("Agg")
import numpy as np

warnings.simplefilter("ignore")

from persim import PersistenceImager  # noqa: E402

good = [
    np.array([[0.5, 0.8], [0.7, 2.2], [2.5, 4.0]]),
    np.array([[0.1, 0.2], [3.1, 3.3], [1.6, 2.9]]),
    np.array([[0.2, 1.5], [0.4, 0.6], [0.2, 2.6]]),
]
# a fold with an empty diagram: fit cannot take the min/max of it and raises ValueError
bad_fold = [good[0], np.zeros((0, 2))]


def state(im):
    return (im.birth_range, im.pers_range, im.resolution, im._bpnts.tolist(), im._ppnts.tolist())


problems = []

# reference: an imager that never saw the bad fold
ref = PersistenceImager(pixel_size=0.5)
ref_imgs = ref.fit_transform(good)
ref_state = state(ref)

# the imager under test: the same history plus one failed fit in the middle (a cross-validation loop
# that skips the fold that raised)
im = PersistenceImager(pixel_size=0.5)
before = im.fit_transform(good)
try:
    im.fit(bad_fold)
    problems.append("fit of a collection with an empty diagram did not raise")
except ValueError:
    pass

# 1. refit on the good data: must learn exactly what the fresh imager learned
im.fit(good)
if state(im) != ref_state:
    problems.append(
        "refit after a failed fit learned birth_range=%s pers_range=%s resolution=%s, expected %s %s %s"
        % (im.birth_range, im.pers_range, im.resolution, ref.birth_range, ref.pers_range, ref.resolution)
    )

# 2. fit + transform == fit_transform, and fit_transform is repeatable
after = im.fit_transform(good)
two_step = PersistenceImager(pixel_size=0.5)
two_step.fit(good)
two_step_imgs = two_step.transform(good)
for name, imgs in (("fit_transform after the failed fit", after), ("fit then transform", two_step_imgs)):
    if len(imgs) != len(ref_imgs) or any(
        a.shape != b.shape or not np.array_equal(a, b) for a, b in zip(imgs, ref_imgs)
    ):
        problems.append("%s differs from fit_transform on a fresh imager (shapes %s vs %s)"
                        % (name, [a.shape for a in imgs], [b.shape for b in ref_imgs]))
if any(not np.array_equal(a, b) for a, b in zip(before, ref_imgs)):
    problems.append("first fit_transform differs from the reference")

# 3. a single diagram is still accepted by transform, and equals the matching element of the collection
try:
    single = im.transform(good[1])
    if not np.array_equal(single, ref_imgs[1]):
        problems.append("transform(single diagram) differs from the element of transform(collection)")
except Exception as e:  # noqa: BLE001
    problems.append("transform(single diagram) raised %s after the failed fit" % type(e).__name__)

if problems:
    print("FAIL")
    for p in problems:
        print(" -", p)
    sys.exit(1)
print("PASS")
sys.exit(0)
