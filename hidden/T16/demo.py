"""C16 demo: a bar of non-positive length must raise instead of yielding a number.

Run from inside the worktree:
    cd /tmp/wt_T16 && PYTHONPATH=/tmp/wt_T16 /venv/bin/python /tmp/ref_T16/demo.py
Prints PASS / exits 0 when the property holds, prints FAIL / exits 1 otherwise.
"""
import sys
import warnings

import numpy as np

from persim.persistent_entropy import persistent_entropy

warnings.simplefilter("ignore")
problems = []


def outcome(dgms, **kw):
    try:
        return persistent_entropy(dgms, **kw)
    except Exception as exc:  # the module raises a bare Exception
        return exc


# sanity: three equal bars -> log 3, normalised -> 1, order / shift / scale invariant
good = np.array([[0.0, 2.0], [1.0, 3.0], [5.0, 7.0]])
if not np.allclose(outcome(good), np.log(3)):
    problems.append("equal bars do not give log n: %r" % (outcome(good),))
if not np.allclose(outcome(good, normalize=True), 1.0):
    problems.append("normalised entropy of equal bars is not 1")
mixed = np.array([[0.0, 1.0], [0.0, 3.0], [2.0, 4.0]])
ref = outcome(mixed)
if not np.allclose(outcome(7.5 * mixed[::-1] - 11.0), ref):
    problems.append("not invariant under reordering / translating / rescaling")

# the point: every bar of these barcodes is born after dying (columns swapped)
swapped = mixed[:, ::-1].copy()                      # [[1,0],[3,0],[4,2]]
cases = [
    ("swapped columns", swapped, {}),
    ("swapped columns, integer", swapped.astype(int), {}),
    ("swapped columns, normalised", swapped, {"normalize": True}),
    ("one reversed bar", np.array([[2.0, -1.0]]), {}),
    ("reversed diagram inside a list", [mixed, swapped, good], {}),
    ("reversed bars next to a dropped infinite bar",
     np.vstack([swapped, [[0.0, np.inf]]]), {}),
    ("reversed bars, infinite birth replaced",
     np.array([[np.inf, 1.0], [12.0, 3.0]]), {"keep_inf": True, "val_inf": 10.0}),
    # these already raise in every version (mixed signs / zero length): controls
    ("one reversed bar among good ones", np.array([[0.0, 1.0], [3.0, 2.0]]), {}),
    ("zero-length bar", np.array([[0.0, 1.0], [2.0, 2.0]]), {}),
]
for name, dgms, kw in cases:
    got = outcome(dgms, **kw)
    if not isinstance(got, Exception):
        problems.append("%s: returned %r instead of raising" % (name, got))

if problems:
    print("FAIL")
    for p in problems:
        print("  -", p)
    sys.exit(1)
print("PASS")
sys.exit(0)
