"""Demo for property C01: persim.bottleneck is the true min-max matching cost.

Compares persim.bottleneck with an independent brute-force reference (all
perfect matchings of the augmented problem) on small diagrams of UNEQUAL
sizes that are close to each other: the smaller diagram is a noisy copy of
the larger one with a few points removed.
Prints PASS / exits 0 if every value agrees, FAIL / exits 1 otherwise.
Run from inside the worktree:  cd <wt> && PYTHONPATH=<wt> python demo.py
"""
import itertools
import sys
import warnings

import numpy as np
import persim

warnings.simplefilter("ignore")


def brute_bottleneck(A, B):
    """min over pairings (point-point or point-diagonal) of the largest cost."""
    A = [tuple(p) for p in A]
    B = [tuple(p) for p in B]
    m, n = len(A), len(B)
    dA = [(d - b) / 2.0 for b, d in A]
    dB = [(d - b) / 2.0 for b, d in B]
    best = np.inf
    # choose for each point of A a distinct partner in B or the diagonal (None)
    for k in range(0, min(m, n) + 1):
        for ia in itertools.combinations(range(m), k):
            for jb in itertools.permutations(range(n), k):
                c = 0.0
                for i, j in zip(ia, jb):
                    c = max(c, max(abs(A[i][0] - B[j][0]), abs(A[i][1] - B[j][1])))
                for i in set(range(m)) - set(ia):
                    c = max(c, dA[i])
                for j in set(range(n)) - set(jb):
                    c = max(c, dB[j])
                best = min(best, c)
    return best


cases = [
    # one extra low-persistence point on one side
    (np.array([[0.0, 1.0], [0.0, 10.0]]), np.array([[0.0, 10.0]])),
    (np.array([[0.0, 10.0]]), np.array([[0.0, 10.0], [2.0, 3.0]])),
    (np.array([[0, 8], [1, 2], [3, 5]]), np.array([[0, 8]])),
    # second diagram larger: 2 vs 3 and 3 vs 4 points, one extra short bar
    (np.array([[0.0, 10.0], [0.0, 8.0]]), np.array([[0.0, 10.0], [0.0, 8.0], [2.0, 3.0]])),
    (np.array([[0, 10], [0, 8], [1, 7]]), np.array([[0, 10], [0, 8], [1, 7], [2, 3]])),
    # equal sizes and an empty diagram, for good measure
    (np.array([[0.0, 1.0], [0.0, 10.0]]), np.array([[0.0, 10.5], [0.2, 1.0]])),
    (np.array([[0.0, 1.0], [0.0, 10.0]]), np.zeros((0, 2))),
]
rng = np.random.default_rng(2024)
for _ in range(60):
    m = int(rng.integers(2, 6))
    b = rng.random(m) * 4
    A = np.column_stack([b, b + rng.random(m) * 4 + 0.05])
    keep = rng.random(m) < 0.6
    if keep.all() or not keep.any():
        keep[0] = not keep[0]
    B = A[keep] + rng.normal(scale=0.01, size=(int(keep.sum()), 1))
    cases.append((A, B) if rng.random() < 0.5 else (B, A))

bad = 0
for A, B in cases:
    got = persim.bottleneck(A, B)
    want = brute_bottleneck(A, B)
    if not np.isclose(got, want, rtol=1e-9, atol=1e-12):
        bad += 1
        if bad <= 3:
            print("bottleneck(%s, %s) = %r, true min-max cost = %r" % (A.tolist(), B.tolist(), float(got), want))

if bad:
    print("FAIL (%d of %d cases disagree with the brute-force min-max cost)" % (bad, len(cases)))
    sys.exit(1)
print("PASS (%d cases)" % len(cases))
sys.exit(0)
