"""C06 demo: a requested matching certifies the reported bottleneck / Wasserstein distance.

Run from inside the worktree so that its copy of persim is imported:
  cd /tmp/wt_U06 && PYTHONPATH=/tmp/wt_U06 /venv/bin/python /tmp/ref_U06/demo.py
Prints PASS (exit 0) when the property holds on all probes, FAIL (exit 1) otherwise.
"""
import sys
import warnings

import numpy as np

import persim
from persim import bottleneck, wasserstein

TOL = 1e-9


def as_points(dgm):
    """The diagram as the functions see it: an empty diagram is the one-point
    diagram made of the diagonal point (0, 0), index 0."""
    P = np.array(dgm, dtype=float)
    if P.size == 0:
        P = np.array([[0.0, 0.0]])
    return P


def cross_cost(p, q, kind):
    if kind == "bottleneck":
        return max(abs(p[0] - q[0]), abs(p[1] - q[1]))
    return float(np.hypot(p[0] - q[0], p[1] - q[1]))


def diag_cost(p, kind):
    if kind == "bottleneck":
        return 0.5 * (p[1] - p[0])
    return (p[1] - p[0]) / np.sqrt(2.0)


def check(fn, kind, dgm1, dgm2):
    """Return a list of violations of the property for this pair."""
    errs = []
    d_plain = fn(dgm1, dgm2)
    out = fn(dgm1, dgm2, matching=True)
    if not (isinstance(out, tuple) and len(out) == 2):
        return ["matching=True did not return (distance, matching)"]
    d, m = out
    m = np.asarray(m, dtype=float)
    if abs(d - d_plain) > TOL:
        errs.append("distance with matching %r != without %r" % (d, d_plain))
    if m.ndim != 2 or m.shape[1] != 3:
        return errs + ["matching has shape %r" % (m.shape,)]
    S, T = as_points(dgm1), as_points(dgm2)
    # every point of each diagram appears in exactly one row
    for col, P, name in ((0, S, "dgm1"), (1, T, "dgm2")):
        idx = m[:, col]
        used = sorted(int(i) for i in idx[idx >= 0])
        if used != list(range(P.shape[0])):
            errs.append(
                "%s: indices in the matching %r, expected each of %r exactly once"
                % (name, used, list(range(P.shape[0])))
            )
    if errs:
        return errs
    # each row's cost follows the cost rule of the distance
    for i, j, c in m:
        i, j = int(i), int(j)
        if i >= 0 and j >= 0:
            want = cross_cost(S[i], T[j], kind)
        elif i >= 0:
            want = diag_cost(S[i], kind)
        elif j >= 0:
            want = diag_cost(T[j], kind)
        else:
            errs.append("diagonal-diagonal row present")
            continue
        if abs(c - want) > TOL:
            errs.append("row (%d, %d): cost %r, rule gives %r" % (i, j, c, want))
    total = m[:, 2].max() if kind == "bottleneck" else m[:, 2].sum()
    if abs(total - d) > TOL:
        errs.append("rows give %r, reported distance %r" % (total, d))
    return errs


def main():
    print("persim imported from", persim.__file__)
    rng = np.random.default_rng(6)
    A = np.array([[1.0, 2.0]])
    B = np.array([[0.0, 1.0], [0.0, 1.0], [0.5, 3.0]])
    C = np.array([[2.0, 2.0], [1.0, 4.0]])
    empty = np.array([])
    empty2 = np.array([[]])
    pairs = [
        (A, B), (B, A), (B, C), (C, C), (A, A),
        # an empty diagram on either side, or on both
        (A, empty), (empty, A), (B, empty), (empty, C), (empty, empty),
    ]
    for _ in range(25):
        m, n = rng.integers(1, 5, size=2)
        X = rng.integers(0, 4, size=(m, 1)) * 0.5
        Y = rng.integers(0, 4, size=(n, 1)) * 0.5
        pairs.append(
            (np.hstack([X, X + rng.integers(0, 4, size=(m, 1)) * 0.5]),
             np.hstack([Y, Y + rng.integers(0, 4, size=(n, 1)) * 0.5]))
        )
    failures = []
    for dgm1, dgm2 in pairs:
        variants = [(dgm1, dgm2)]
        if dgm2.size == 0:
            variants.append((dgm1, empty2))  # bottleneck's test uses [[]] for "empty"
        for a, b in variants:
            for fn, kind in ((bottleneck, "bottleneck"), (wasserstein, "wasserstein")):
                with warnings.catch_warnings():
                    warnings.simplefilter("ignore")
                    try:
                        errs = check(fn, kind, a, b)
                    except Exception as e:  # noqa
                        errs = ["raised %s: %s" % (type(e).__name__, e)]
                for e in errs:
                    failures.append((kind, a.tolist(), b.tolist(), e))
    for kind, a, b, e in failures[:12]:
        print("  %s(%r, %r): %s" % (kind, a, b, e))
    if failures:
        print("FAIL (%d violations on %d pairs)" % (len(failures), len(pairs)))
        return 1
    print("PASS (%d pairs, both distances)" % len(pairs))
    return 0


if __name__ == "__main__":
    sys.exit(main())
