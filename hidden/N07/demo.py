"""Demo for property C07 (bottleneck is a metric: symmetric, triangle inequality).

Run from inside the worktree so that the worktree copy of persim is imported:
    cd /tmp/wt_N07 && PYTHONPATH=/tmp/wt_N07 /venv/bin/python /tmp/ref_N07/demo.py
Prints PASS / exits 0 when the laws hold, prints FAIL / exits 1 otherwise.
"""
import sys
import warnings

import numpy as np

warnings.simplefilter("ignore")
from persim import bottleneck

problems = []

# 1. a hand-checkable pair: the points are 3 apart in birth, 0.5 apart in death,
#    so matching them costs 3; sending both to the diagonal costs max(2, 0.75) = 2.
X = np.array([[0.0, 4.0]])
Y = np.array([[3.0, 4.5]])
dxy, dyx = bottleneck(X, Y), bottleneck(Y, X)
print(f"bottleneck(X, Y) = {dxy}   bottleneck(Y, X) = {dyx}   (expected 2.0 both ways)")
if not (dxy == 2.0 and dyx == 2.0):
    problems.append("hand-checked pair is not 2.0 in both orders")

# 2. symmetry and the triangle inequality on random diagrams with varied births
rng = np.random.default_rng(7)


def random_diagram(n):
    birth = rng.uniform(-2.0, 2.0, size=n)
    return np.column_stack([birth, birth + rng.exponential(0.7, size=n)])


asym = tri = 0
for _ in range(40):
    A, B, C = (random_diagram(int(rng.integers(1, 40))) for _ in range(3))
    ab, ba = bottleneck(A, B), bottleneck(B, A)
    bc, ac = bottleneck(B, C), bottleneck(A, C)
    asym += not np.isclose(ab, ba, rtol=1e-12, atol=0)
    tri += ac > ab + bc + 1e-12
print(f"random triples: {asym} asymmetric pairs, {tri} triangle violations (out of 40)")
if asym:
    problems.append(f"{asym} pairs with d(A,B) != d(B,A)")
if tri:
    problems.append(f"{tri} triples violating the triangle inequality")

if problems:
    print("FAIL: " + "; ".join(problems))
    sys.exit(1)
print("PASS")
sys.exit(0)
