"""C08 demo: grid landscapes stay within half a step of the true landscape.

Run from inside the worktree so that the worktree's persim is imported:
    cd /tmp/wt_K08 && PYTHONPATH=/tmp/wt_K08 /venv/bin/python /tmp/ref_K08/demo.py
Prints PASS and exits 0 when the bound holds, prints FAIL and exits 1 otherwise.
"""
import sys

import numpy as np

from persim import PersLandscapeApprox, PersistenceLandscaper


def true_landscape(dgm, grid, depth):
    """depth x len(grid) array: k-th largest tent value at every grid point."""
    b = dgm[:, 0][:, None]
    d = dgm[:, 1][:, None]
    tents = np.clip(np.minimum(grid[None, :] - b, d - grid[None, :]), 0, None)
    tents = -np.sort(-tents, axis=0)
    out = np.zeros((max(depth, tents.shape[0]), len(grid)))
    out[: tents.shape[0]] = tents
    return out


def _numeric(values, num_steps):
    """The library stores ["empty"] when no bar reaches any node: depth 0."""
    values = np.asarray(values)
    if values.dtype.kind in "US":
        return np.zeros((0, num_steps))
    return values.astype(float)


def worst_error(dgm, start, stop, num_steps):
    P = PersLandscapeApprox(
        dgms=[dgm], start=start, stop=stop, num_steps=num_steps, hom_deg=0
    )
    grid = np.linspace(start, stop, num_steps)
    vals = _numeric(P.values, num_steps)
    truth = true_landscape(dgm, grid, vals.shape[0])
    padded = np.zeros_like(truth)
    padded[: vals.shape[0]] = vals
    # the transformer must return exactly the same samples
    T = PersistenceLandscaper(
        hom_deg=0, start=start, stop=stop, num_steps=num_steps
    ).fit_transform([dgm])
    assert np.array_equal(_numeric(T, num_steps), vals)
    return np.abs(padded - truth).max()


cases = []
# 1. end-points exactly on the grid: the sampled values must be exact
cases.append((np.array([[2.0, 6.0], [4.0, 10.0], [3.0, 5.0]]), 0.0, 10.0, 11, 0.0))
# 2. end-points off the grid, grid step 1: bound is half a step
cases.append((np.array([[0.1, 2.3], [1.2, 3.9]]), 0.0, 4.0, 5, 0.5))
# 3. end-points just below a grid node (nearest node is the one above)
cases.append((np.array([[0.9, 4.8], [1.7, 3.9], [2.8, 5.9]]), 0.0, 6.0, 7, 0.5))
# 4. a seeded batch of random off-grid diagrams on a coarse grid
rng = np.random.default_rng(8)
for _ in range(20):
    n = int(rng.integers(1, 6))
    births = rng.uniform(0.0, 6.0, n)
    deaths = births + rng.uniform(3.0, 4.0, n)
    num_steps = int(rng.integers(10, 21))
    stop = float(np.ceil(deaths.max()))
    cases.append(
        (np.column_stack([births, deaths]), 0.0, stop, num_steps,
         0.5 * stop / (num_steps - 1))
    )

ok = True
for i, (dgm, start, stop, num_steps, bound) in enumerate(cases):
    err = worst_error(dgm, start, stop, num_steps)
    if err > bound + 1e-9:
        ok = False
        print(
            f"case {i}: grid [{start}, {stop}] with {num_steps} nodes, "
            f"worst error {err:.4f} exceeds half a step {bound:.4f}"
        )

if ok:
    print("PASS")
    sys.exit(0)
print("FAIL")
sys.exit(1)
