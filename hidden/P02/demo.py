"""
C02 demo: persim.wasserstein must return the true min-sum matching cost.

Compares persim.wasserstein with an independent brute force over all partial
matchings (pairing costs: Euclidean distance; a point (b, d) sent to the
diagonal costs (d - b) / sqrt(2)) on a few small diagrams of different dtypes.
Prints PASS and exits 0 if every value agrees, prints FAIL and exits 1 otherwise.
Run from inside the worktree:  cd <wt> && PYTHONPATH=<wt> python demo.py
"""
import itertools
import sys
import warnings

import numpy as np

from persim import wasserstein


def brute(A, B):
    A = [tuple(map(float, p)) for p in np.asarray(A).reshape(-1, 2)]
    B = [tuple(map(float, p)) for p in np.asarray(B).reshape(-1, 2)]
    diag = lambda p: (p[1] - p[0]) / np.sqrt(2)
    best = np.inf
    for k in range(min(len(A), len(B)) + 1):
        for ia in itertools.combinations(range(len(A)), k):
            rest_a = sum(diag(A[i]) for i in range(len(A)) if i not in ia)
            for ib in itertools.permutations(range(len(B)), k):
                rest_b = sum(diag(B[j]) for j in range(len(B)) if j not in ib)
                cross = sum(np.hypot(A[i][0] - B[j][0], A[i][1] - B[j][1])
                            for i, j in zip(ia, ib))
                best = min(best, rest_a + rest_b + cross)
    return best


ints = np.array([[0, 4], [2, 6], [1, 2]])                    # integer-typed diagram
flts = np.array([[0.4, 4.6], [2.5, 5.5], [3.2, 3.9]])        # ordinary float diagram
cases = [
    ("float vs float", flts, flts[::-1] * 1.1),
    ("float vs int", flts, ints),
    ("int vs int", ints, ints[:2] + 1),
    ("int vs float", ints, flts),
    ("int32 vs float", ints.astype(np.int32), flts[:2]),
    ("int vs float32", ints, flts.astype(np.float32)),
    ("empty vs float", np.array([]), flts),
    ("int vs empty", ints, np.zeros((0, 2))),
]

ok = True
for label, a, b in cases:
    a0, b0 = a.copy(), b.copy()
    with warnings.catch_warnings():
        warnings.simplefilter("ignore")
        got = wasserstein(a, b)
        got_sym = wasserstein(b, a)
    want = brute(a0, b0)
    good = np.isclose(got, want, rtol=1e-6, atol=1e-9) and np.isclose(got_sym, want, rtol=1e-6, atol=1e-9)
    print("%-16s wasserstein=%.6f  reversed=%.6f  brute force=%.6f  %s"
          % (label, got, got_sym, want, "ok" if good else "WRONG"))
    ok &= bool(good)

print("PASS" if ok else "FAIL")
sys.exit(0 if ok else 1)
