"""C07 demo: metric laws of persim.bottleneck on a sequence of calls that share
their diagrams, the way a pairwise distance matrix is built for clustering.

Run from inside the worktree:
    cd /tmp/wt_T07 && PYTHONPATH=/tmp/wt_T07 /venv/bin/python /tmp/ref_T07/demo.py
Prints PASS / exits 0 when the laws hold, prints FAIL / exits 1 otherwise.
"""
import sys
import warnings

import numpy as np

warnings.simplefilter("ignore")
import persim  # noqa: E402
from persim import bottleneck, wasserstein  # noqa: E402

print("persim from", persim.__file__)

rng = np.random.default_rng(7)


def diagram(n):
    b = rng.uniform(0.0, 5.0, n)
    return np.stack([b, b + rng.uniform(0.1, 3.0, n)], axis=1)  # float64, finite


X, Y, Z = diagram(40), diagram(55), diagram(30)
X0, Y0, Z0 = X.copy(), Y.copy(), Z.copy()
empty = np.zeros((0, 2))

problems = []

# oracle values that do not depend on persim: distance to the empty diagram
half_max_pers = 0.5 * np.max(X0[:, 1] - X0[:, 0])

d_xy = bottleneck(X, Y)
d_yx = bottleneck(Y, X)
d_xy_again = bottleneck(X, Y)
d_xy_fresh = bottleneck(X0.copy(), Y0.copy())
if not (d_xy == d_yx):
    problems.append("symmetry: d(X,Y)=%r but d(Y,X)=%r" % (d_xy, d_yx))
if not (d_xy == d_xy_again == d_xy_fresh):
    problems.append(
        "d(X,Y) is not a function of the diagrams: %r, then %r, on fresh copies %r"
        % (d_xy, d_xy_again, d_xy_fresh)
    )

d_x_empty = bottleneck(X, empty)
if not np.isclose(d_x_empty, half_max_pers):
    problems.append(
        "d(X, empty)=%r, expected max persistence / 2 = %r" % (d_x_empty, half_max_pers)
    )

# triangle inequality and bottleneck <= wasserstein on the shared diagrams
d_xz, d_zy = bottleneck(X, Z), bottleneck(Z, Y)
if bottleneck(X0.copy(), Y0.copy()) > d_xz + d_zy + 1e-12:
    problems.append("triangle: d(X,Y) > d(X,Z) + d(Z,Y) = %r + %r" % (d_xz, d_zy))
w_xy = wasserstein(X, Y)
w_fresh = wasserstein(X0.copy(), Y0.copy())
if not np.isclose(w_xy, w_fresh):
    problems.append("wasserstein(X,Y)=%r after the bottleneck calls, %r on fresh copies" % (w_xy, w_fresh))
if d_xy_fresh > w_fresh + 1e-12:
    problems.append("bottleneck %r exceeds wasserstein %r" % (d_xy_fresh, w_fresh))

for name, a, a0 in (("X", X, X0), ("Y", Y, Y0), ("Z", Z, Z0)):
    if not np.array_equal(a, a0):
        problems.append("the caller's diagram %s was modified by the distance calls" % name)

if problems:
    for p in problems:
        print("  -", p)
    print("FAIL")
    sys.exit(1)
print("PASS")
sys.exit(0)
