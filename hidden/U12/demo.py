"""Property C12: PersistenceImager geometry stays self-consistent under any configuration history.

After every step of a history (constructor, range assignments, pixel-size assignments, fits) check
  * pixels are squares of exactly the configured size (mesh spacing == pixel_size on both axes),
  * resolution * pixel_size == width / height == length of the covered ranges,
  * an image has exactly the reported resolution,
  * the covered ranges contain what the step asked for (the assigned range, every fitted point, or,
    for a pixel-size change, the ranges covered BEFORE the change) and exceed it by at most one pixel.

Run from inside the worktree:  cd <tree> && PYTHONPATH=<tree> python demo.py
Prints PASS / exits 0 when every check holds, prints FAIL / exits 1 otherwise.
"""
import sys

import matplotlib

matplotlib.use("Agg")

import numpy as np

from persim import PersistenceImager

TOL = 1e-9
failures = []


def check(label, im, want_birth, want_pers):
    """want_* : (lo, hi) the covered range has to contain after the step."""
    ps = im.pixel_size
    (b0, b1), (p0, p1) = im.birth_range, im.pers_range
    nb, npx = im.resolution
    problems = []

    # square pixels of the configured size, resolution * pixel size == width / height == covered length
    if abs(nb * ps - im.width) > TOL or abs(npx * ps - im.height) > TOL:
        problems.append("resolution*pixel_size != width/height")
    if abs((b1 - b0) - im.width) > TOL or abs((p1 - p0) - im.height) > TOL:
        problems.append("covered range length != width/height")
    for pts, n, lo in ((im._bpnts, nb, b0), (im._ppnts, npx, p0)):
        if len(pts) != n + 1 or np.abs(np.diff(pts) - ps).max() > TOL or abs(pts[0] - lo) > TOL:
            problems.append("mesh is not resolution+1 boundaries spaced by pixel_size")

    # images have the reported resolution
    img = im.transform(np.array([[b0 + ps / 2, b0 + ps / 2 + p0 + ps / 2]]), skew=True)
    if img.shape != (nb, npx):
        problems.append("image shape %s != resolution %s" % (img.shape, (nb, npx)))

    # containment of what the step asked for, by no more than one pixel
    for name, (lo, hi), (wlo, whi) in (
        ("birth", (b0, b1), want_birth),
        ("pers", (p0, p1), want_pers),
    ):
        if lo > wlo + TOL or hi < whi - TOL:
            problems.append(
                "%s range (%.4f, %.4f) does not contain (%.4f, %.4f)" % (name, lo, hi, wlo, whi)
            )
        if (hi - lo) - (whi - wlo) > ps + TOL:
            problems.append("%s range exceeds the request by more than one pixel" % name)

    for p in problems:
        failures.append("%s: %s" % (label, p))


def set_pixel_size(label, im, val):
    before_b, before_p = im.birth_range, im.pers_range
    im.pixel_size = val
    check("%s -> pixel_size=%s" % (label, val), im, before_b, before_p)


def set_birth(label, im, val):
    before_p = im.pers_range
    im.birth_range = val
    check("%s -> birth_range=%s" % (label, val), im, val, before_p)


def set_pers(label, im, val):
    before_b = im.birth_range
    im.pers_range = val
    check("%s -> pers_range=%s" % (label, val), im, before_b, val)


def do_fit(label, im, dgm):
    im.fit(dgm, skew=True)
    bp = np.column_stack([dgm[:, 0], dgm[:, 1] - dgm[:, 0]])
    check(
        "%s -> fit" % label,
        im,
        (bp[:, 0].min(), bp[:, 0].max()),
        (bp[:, 1].min(), bp[:, 1].max()),
    )


# history 1: ranges that are exact multiples of every pixel size used (what the test-suite tries)
im = PersistenceImager(birth_range=(0, 1), pers_range=(0, 2), pixel_size=1)
check("h1 ctor", im, (0, 1), (0, 2))
set_pixel_size("h1", im, 0.5)
set_birth("h1", im, (0.0, 4.5))
set_pixel_size("h1", im, 0.25)

# history 2: constructor ranges that are not multiples of the pixel size, then a coarser / finer pixel
im = PersistenceImager(birth_range=(0.0, 1.0), pers_range=(0.0, 1.0), pixel_size=0.3)
check("h2 ctor", im, (0.0, 1.0), (0.0, 1.0))
set_pixel_size("h2", im, 0.5)
set_pixel_size("h2", im, 0.2)

# history 3: assigned ranges, then pixel-size changes, then ranges again
im = PersistenceImager(pixel_size=0.1)
check("h3 ctor", im, (0.0, 1.0), (0.0, 1.0))
set_birth("h3", im, (0.0, 0.75))
set_pers("h3", im, (-0.2, 0.83))
set_pixel_size("h3", im, 0.4)
set_birth("h3", im, (0.1, 0.8))
set_pixel_size("h3", im, 1 / 3)

# history 4: fit, then change the pixel size, then fit again
rng = np.random.default_rng(12)
b = rng.uniform(-1.0, 2.0, size=25)
dgm = np.column_stack([b, b + rng.uniform(0.05, 1.7, size=25)])
im = PersistenceImager(pixel_size=0.7)
do_fit("h4", im, dgm)
set_pixel_size("h4", im, 1.1)
set_pixel_size("h4", im, 0.3)
do_fit("h4", im, dgm * 1.5)
set_pixel_size("h4", im, 0.45)

if failures:
    for f in failures:
        print(f)
    print("FAIL")
    sys.exit(1)
print("PASS")
sys.exit(0)
