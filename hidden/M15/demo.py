"""Demo for property C15 (sliced Wasserstein = averaged 1-D transport cost, pseudo-metric).

Run from inside the worktree so that the worktree's persim is imported:
    cd /tmp/wt_M15 && PYTHONPATH=/tmp/wt_M15 /venv/bin/python /tmp/ref_M15/demo.py
Prints PASS and exits 0 when the property holds on the inputs below,
prints FAIL and exits 1 otherwise.
"""
import sys

import numpy as np

from persim import sliced_wasserstein


def reference(PD1, PD2, M=50):
    """Average over the M directions of the half circle of the 1-D optimal
    transport cost between each diagram augmented with the diagonal
    projections of the other (written independently of persim)."""
    PD1 = np.asarray(PD1, dtype=float).reshape(-1, 2)
    PD2 = np.asarray(PD2, dtype=float).reshape(-1, 2)
    mid1 = np.repeat(PD1.mean(axis=1, keepdims=True), 2, axis=1)
    mid2 = np.repeat(PD2.mean(axis=1, keepdims=True), 2, axis=1)
    A = np.vstack([PD1, mid2])
    B = np.vstack([PD2, mid1])
    thetas = np.pi * (0.5 + np.arange(M) / M)
    dirs = np.stack([np.cos(thetas), np.sin(thetas)])  # (2, M)
    pa = np.sort(A @ dirs, axis=0)
    pb = np.sort(B @ dirs, axis=0)
    return float(np.abs(pa - pb).sum(axis=0).mean()) if len(A) else 0.0


failures = []


def check(name, ok, detail=""):
    if not ok:
        failures.append(name)
        print("  violated:", name, detail)


# the smaller diagram comes FIRST in some of these pairs
small = np.array([[0.0, 1.0]])
big = np.array([[0.2, 1.5], [1.0, 3.0], [2.0, 2.5]])
neg_small = np.array([[-4.0, -1.0], [-3.5, -3.0]])
neg_big = np.array([[-5.0, -2.0], [-4.0, 0.5], [-1.0, 2.0], [-0.5, 0.0], [0.0, 3.0]])

pairs = [
    ("1 vs 3 points", small, big),
    ("3 vs 1 points", big, small),
    ("2 vs 5 points, negative births", neg_small, neg_big),
    ("5 vs 2 points, negative births", neg_big, neg_small),
    ("empty vs 3 points", np.zeros((0, 2)), big),
    ("3 points vs empty", big, np.zeros((0, 2))),
    ("2 vs 2 points", neg_small, big[:2]),
]

for M in (50, 7, 1):
    for name, A, B in pairs:
        got = sliced_wasserstein(A, B, M=M)
        want = reference(A, B, M=M)
        back = sliced_wasserstein(B, A, M=M)
        # the library uses single-precision direction vectors: 1e-6 relative is ample
        tol = 1e-6 * max(1.0, abs(want))
        check(
            "value = averaged 1-D transport cost [%s, M=%d]" % (name, M),
            abs(got - want) <= tol,
            "got %.9g, expected %.9g" % (got, want),
        )
        check(
            "symmetry [%s, M=%d]" % (name, M),
            abs(got - back) <= tol,
            "d(A,B)=%.9g, d(B,A)=%.9g" % (got, back),
        )

# translation along the diagonal (into negative coordinates) changes nothing
for t in (-10.0, 3.0):
    d0 = sliced_wasserstein(small, big)
    d1 = sliced_wasserstein(small + t, big + t)
    check("translation by %g along the diagonal" % t, abs(d0 - d1) <= 1e-5 * max(1.0, d0),
          "before %.9g, after %.9g" % (d0, d1))

# diagonal points are ignored
with_diag = np.vstack([small, [[0.7, 0.7]]])
d0 = sliced_wasserstein(small, big)
d1 = sliced_wasserstein(with_diag, big)
check("diagonal points are ignored", abs(d0 - d1) <= 1e-6 * max(1.0, d0),
      "without %.9g, with %.9g" % (d0, d1))

# triangle inequality through a larger middle diagram
x, y, z = small, neg_big, neg_small
dxz = sliced_wasserstein(x, z)
dxy = sliced_wasserstein(x, y)
dyz = sliced_wasserstein(y, z)
check("triangle inequality", dxz <= dxy + dyz + 1e-9, "%.6g > %.6g + %.6g" % (dxz, dxy, dyz))

if failures:
    print("FAIL (%d checks violated)" % len(failures))
    sys.exit(1)
print("PASS")
sys.exit(0)
