"""C18 demo: fit + transform must give what fit_transform gives, whatever the transform options.

Run from inside the worktree so that the worktree's persim is imported:
    cd /tmp/wt_N18 && PYTHONPATH=/tmp/wt_N18 /venv/bin/python /tmp/ref_N18/demo.py
Prints PASS and exits 0 if the property holds, prints FAIL and exits 1 otherwise.
"""
import sys
import warnings

import matplotlib

matplotlib.use("Agg")
warnings.simplefilter("ignore")

import numpy as np  # noqa: E402

from persim import PersistenceImager  # noqa: E402

problems = []


def same_image(a, b):
    return (
        isinstance(a, np.ndarray)
        and isinstance(b, np.ndarray)
        and a.shape == b.shape
        and a.dtype == b.dtype
        and np.array_equal(a, b)
    )


one = np.array([[0.5, 0.8], [0.7, 2.2], [2.5, 4.0]])
many = [
    one,
    np.array([[0.1, 0.2], [3.1, 3.3], [1.6, 2.9]]),
    np.array([[0.2, 1.5], [0.4, 0.6], [0.2, 2.6]]),
]

# 1. one diagram: fit, then transform on a worker pool of one == fit_transform
combined = PersistenceImager(pixel_size=0.5).fit_transform(one)
stepwise = PersistenceImager(pixel_size=0.5)
stepwise.fit(one)
serial = stepwise.transform(one)
pooled = stepwise.transform(one, n_jobs=1)
if not same_image(serial, combined):
    problems.append("fit + transform(one diagram) differs from fit_transform")
if not same_image(pooled, combined):
    problems.append(
        "fit + transform(one diagram, n_jobs=1) differs from fit_transform: got %s of length/shape %s, wanted an array of shape %s"
        % (type(pooled).__name__, np.shape(pooled), combined.shape)
    )

# 2. transforming is repeatable: the n_jobs option must not change what comes back
again = stepwise.transform(one, n_jobs=1)
if type(again) is not type(serial) or np.shape(again) != np.shape(serial):
    problems.append("transform(one diagram) is not repeatable once n_jobs is given")

# 3. a collection is mapped element by element, in order, with and without n_jobs
imgr = PersistenceImager(pixel_size=0.5)
combined_many = imgr.fit_transform(many)
pooled_many = imgr.transform(many, n_jobs=1)
if not (
    isinstance(pooled_many, list)
    and len(pooled_many) == len(many)
    and all(same_image(p, c) for p, c in zip(pooled_many, combined_many))
):
    problems.append("transform(collection, n_jobs=1) differs from fit_transform(collection)")
for i, dgm in enumerate(many):
    if not same_image(imgr.transform(dgm, n_jobs=1), combined_many[i]):
        problems.append("transform(collection)[%d] is not transform(collection[%d]) under n_jobs=1" % (i, i))
        break

# 4. a collection of one stays a collection of one
lone = imgr.transform([one], n_jobs=1)
if not (isinstance(lone, list) and len(lone) == 1 and same_image(lone[0], combined_many[0])):
    problems.append("transform([diagram], n_jobs=1) is not a list of one image")

if problems:
    print("FAIL")
    for p in problems:
        print("  -", p)
    sys.exit(1)
print("PASS")
sys.exit(0)
