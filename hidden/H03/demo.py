"""Demo for property C03: the exact landscape equals the k-th-largest-tent
definition at every t and every depth k.

Run from inside the worktree:
    cd /tmp/wt_H03 && PYTHONPATH=/tmp/wt_H03 /venv/bin/python /tmp/ref_H03/demo.py
Prints PASS / exits 0 when the property holds on all probes, FAIL / exits 1 otherwise.
"""
import random
import sys

import numpy as np

from persim import PersLandscapeExact


def kth_largest_tents(bars, ts):
    """(n_bars, len(ts)) array; row k-1 is the k-th largest tent value at each t."""
    bars = np.asarray(bars, dtype=float)
    tents = np.maximum(0.0, np.minimum(ts[None, :] - bars[:, :1], bars[:, 1:] - ts[None, :]))
    return -np.sort(-tents, axis=0)


def evaluate(critical_pairs, ts):
    pts = np.asarray(critical_pairs, dtype=float)
    return np.interp(ts, pts[:, 0], pts[:, 1], left=0.0, right=0.0)


def check(bars):
    """Return None if the landscape of `bars` is right, else a message."""
    bars = [list(bar) for bar in bars]
    lo = min(b for b, _ in bars) - 1.0
    hi = max(d for _, d in bars) + 1.0
    breakpoints = sorted({x for bar in bars for x in bar}
                         | {(p + q) / 2 for bar in bars for p in bar for bar2 in bars for q in bar2})
    ts = np.unique(np.concatenate([np.linspace(lo, hi, 401), np.array(breakpoints)]))
    want = kth_largest_tents(bars, ts)
    got = PersLandscapeExact(dgms=[np.array(bars)], hom_deg=0).critical_pairs
    for level in got:
        xs = [p[0] for p in level]
        if xs != sorted(xs):
            return f"critical points of {bars} not ordered by abscissa: {level}"
    for k in range(len(bars)):
        have = evaluate(got[k], ts) if k < len(got) else np.zeros_like(ts)
        bad = np.flatnonzero(~np.isclose(have, want[k], rtol=1e-9, atol=1e-12))
        if bad.size:
            i = bad[0]
            return (f"bars={bars}: depth {k + 1} at t={ts[i]:g} is {have[i]:g}, "
                    f"k-th largest tent is {want[k][i]:g}")
    return None


def main():
    probes = [
        # a short bar nested in the first one, and a later bar overlapping the first
        [[0, 6], [1, 3], [4, 8]],
        [[0.0, 6.0], [4.0, 8.0], [1.0, 3.0]],
        [[0, 10], [1, 2], [3, 4], [7, 12]],
        # the example of Bubenik & Dlotko used in the test-suite
        [[1.0, 5.0], [2.0, 8.0], [3.0, 4.0], [5.0, 9.0], [6.0, 7.0]],
    ]
    rng = random.Random(20240)
    while len(probes) < 300:
        n = rng.randint(2, 6)
        # distinct births only: a bar that is (or becomes, as a residual) a repeat of
        # another bar goes through the repeated-bar shortcut, a separate known issue;
        # equal deaths and touching bars are still allowed
        births = rng.sample(range(0, 14), n)
        bars = [[float(b), float(b + rng.randint(1, 8))] for b in births]
        rng.shuffle(bars)
        probes.append(bars)

    failures = [msg for msg in map(check, probes) if msg]
    if failures:
        print(f"FAIL: {len(failures)} of {len(probes)} diagrams disagree with the definition")
        for msg in failures[:5]:
            print("  ", msg)
        return 1
    print(f"PASS: {len(probes)} diagrams agree with the k-th-largest-tent definition")
    return 0


if __name__ == "__main__":
    sys.exit(main())
