"""
Demo for C07 (metric / invariance laws of bottleneck and wasserstein).

Run from inside the worktree so that the worktree's persim is imported:
    cd /tmp/wt_K07 && PYTHONPATH=/tmp/wt_K07 /venv/bin/python /tmp/ref_K07/demo.py

Diagrams that contain an essential class (death = inf) are legal inputs: the
point is ignored with a warning.  The laws must therefore hold no matter WHERE
in the array the essential class is listed (ripser lists it last, gudhi lists
it first).  The demo checks, for such diagrams:
  * d(X, X') == 0 for a reordering X' of X, and d(X, Y) == d(X', Y)
  * symmetry
  * d(X, empty) == max finite persistence / 2
  * triangle inequality through the reordering
  * bottleneck <= wasserstein
Exits 0 / prints PASS when all hold, exits 1 / prints FAIL otherwise.
"""
import sys
import warnings

import numpy as np

import persim
from persim import bottleneck, wasserstein

warnings.simplefilter("ignore")
print("persim imported from", persim.__file__)

failures = []


def check(cond, msg):
    if not cond:
        failures.append(msg)


def close(a, b):
    return np.isfinite(a) and np.isfinite(b) and abs(a - b) <= 1e-12 * max(1.0, abs(a), abs(b))


# --- a fixed, hand-checkable case -----------------------------------------
X = np.array([[0.0, np.inf], [0.0, 1.0], [0.0, 3.0]])  # essential class first
Xr = np.array([[0.0, 1.0], [0.0, 3.0], [0.0, np.inf]])  # same diagram, listed last
E = np.array([])
Y = np.array([[0.0, 1.2], [5.0, 5.5]])

check(bottleneck(X, Xr) == 0, "d(X, reordered X) = %r, expected 0" % bottleneck(X, Xr))
check(
    close(bottleneck(X, E), 1.5),
    "d(X, empty) = %r, expected max persistence / 2 = 1.5" % bottleneck(X, E),
)
check(
    close(bottleneck(X, E), bottleneck(Xr, E)),
    "d(X, empty) = %r but d(reordered X, empty) = %r" % (bottleneck(X, E), bottleneck(Xr, E)),
)
check(
    close(bottleneck(X, Y), bottleneck(Xr, Y)),
    "d(X, Y) = %r but d(reordered X, Y) = %r" % (bottleneck(X, Y), bottleneck(Xr, Y)),
)
check(
    bottleneck(X, E) <= bottleneck(X, Xr) + bottleneck(Xr, E) + 1e-12,
    "triangle inequality: d(X,E)=%r > d(X,X')+d(X',E)=%r"
    % (bottleneck(X, E), bottleneck(X, Xr) + bottleneck(Xr, E)),
)
check(
    bottleneck(X, E) <= wasserstein(X, E) + 1e-12,
    "bottleneck(X, E) = %r exceeds wasserstein(X, E) = %r" % (bottleneck(X, E), wasserstein(X, E)),
)

# --- randomised: the essential class at an arbitrary position ----------------
rng = np.random.default_rng(7)
for trial in range(60):
    n = int(rng.integers(2, 9))
    m = int(rng.integers(0, 9))
    b = rng.random(n) * 4 - 2
    A = np.stack([b, b + rng.random(n) * 2], axis=1)
    k = int(rng.integers(0, n))  # where the essential class sits
    A[k, 1] = np.inf
    finite_part = np.delete(A, k, axis=0)
    A_last = np.vstack([finite_part, A[k : k + 1]])  # essential class moved to the end
    c = rng.random(m) * 4 - 2
    B = np.stack([c, c + rng.random(m) * 2], axis=1) if m else np.array([])

    dAB, dBA = bottleneck(A, B), bottleneck(B, A)
    ref = bottleneck(finite_part, B) if finite_part.size else bottleneck(np.array([]), B)
    tag = "trial %d (n=%d, m=%d, inf at row %d)" % (trial, n, m, k)
    check(bottleneck(A, A_last) == 0, tag + ": d(A, reordered A) != 0")
    check(close(dAB, dBA), tag + ": not symmetric: %r vs %r" % (dAB, dBA))
    check(close(dAB, bottleneck(A_last, B)), tag + ": d(A,B)=%r but d(reordered A,B)=%r" % (dAB, bottleneck(A_last, B)))
    check(close(dAB, ref), tag + ": d(A,B)=%r but with the ignored point removed by hand %r" % (dAB, ref))
    pers = finite_part[:, 1] - finite_part[:, 0]
    check(
        close(bottleneck(A, np.array([])), pers.max() / 2 if pers.size else 0.0),
        tag + ": d(A, empty)=%r, expected %r" % (bottleneck(A, np.array([])), pers.max() / 2 if pers.size else 0.0),
    )
    check(dAB <= wasserstein(A, B) + 1e-9, tag + ": bottleneck %r > wasserstein %r" % (dAB, wasserstein(A, B)))

if failures:
    for f in failures[:12]:
        print("  violated:", f)
    print("%d violations" % len(failures))
    print("FAIL")
    sys.exit(1)
print("PASS")
sys.exit(0)
