"""Demo for property C16 (persistent entropy = Shannon entropy of normalised bar lengths).

Prints PASS / exits 0 when the property holds on the probes below,
prints FAIL / exits 1 otherwise.
"""
import sys
import warnings

import numpy as np

from persim.persistent_entropy import persistent_entropy

warnings.simplefilter("ignore")

failures = []


def check(name, ok, detail=""):
    if not ok:
        failures.append("%s %s" % (name, detail))


def shannon(lengths):
    p = np.asarray(lengths, dtype=float)
    p = p / p.sum()
    return -np.sum(p * np.log(p))


# --- sanity: value, bounds, invariances (hold before and after) -----------------
dgm = np.array([[0.0, 1.0], [0.5, 3.0], [2.0, 4.5], [1.0, 1.25]])
E = persistent_entropy(dgm)
check("value", np.allclose(E, [shannon([1.0, 2.5, 2.5, 0.25])]), str(E))
check("bounds", 0 <= E[0] <= np.log(4))
check("equal bars", np.allclose(persistent_entropy(np.array([[0.0, 2.0], [1.0, 3.0], [5.0, 7.0]])), np.log(3)))
check("reorder", np.allclose(persistent_entropy(dgm[::-1]), E))
check("translate", np.allclose(persistent_entropy(dgm - 7.5), E))
check("rescale", np.allclose(persistent_entropy(dgm * 1e-6), E))
check("normalised", np.allclose(persistent_entropy(dgm, normalize=True), E / np.log(4)))
with_inf = np.vstack([dgm, [[0.25, np.inf]]])
check("drop inf", np.allclose(persistent_entropy(with_inf), E))
check(
    "cap inf",
    np.allclose(
        persistent_entropy(with_inf, keep_inf=True, val_inf=10.25),
        [shannon([1.0, 2.5, 2.5, 0.25, 10.0])],
    ),
)


# --- a bar of non-positive length must raise, never yield a number ---------------
def must_raise(name, *args, **kwargs):
    try:
        out = persistent_entropy(*args, **kwargs)
    except Exception:
        return
    failures.append("%s: expected an exception, got %r" % (name, out))


# born after dying (negative length)
must_raise("negative bar", np.array([[0.0, 1.0], [3.0, 2.0]]))
# zero-length bar (birth == death) among proper bars
must_raise("zero bar", np.array([[0.0, 1.0], [2.0, 2.0], [1.0, 3.0]]))
# ... also inside a list of diagrams and with normalisation
must_raise(
    "zero bar in list",
    [np.array([[0.0, 1.0], [0.0, 3.0]]), np.array([[1.0, 4.0], [2.5, 2.5]])],
    normalize=True,
)
# ... and when the zero length only appears after infinity is replaced by val_inf
must_raise(
    "zero bar after capping",
    np.array([[0.0, 1.0], [0.0, 3.0], [5.0, np.inf]]),
    keep_inf=True,
    val_inf=5.0,
)

if failures:
    print("FAIL")
    for f in failures:
        print("  -", f)
    sys.exit(1)
print("PASS")
sys.exit(0)
