"""C18 demo: a refit of a PersistenceImager must forget the data of earlier fits.

Run from inside the worktree so that the worktree copy of persim is imported:
    cd /tmp/wt_Q18 && PYTHONPATH=/tmp/wt_Q18 /venv/bin/python /tmp/ref_Q18/demo.py
Prints PASS and exits 0 when the property holds, prints FAIL and exits 1 otherwise.
"""
import sys

import matplotlib

matplotlib.use("Agg")

import numpy as np

from persim import PersistenceImager

# a cross-validation style history: the same estimator is fitted on one fold, then on another
fold_1 = [np.array([[0.0, 6.0], [5.0, 9.0]]), np.array([[-2.0, 1.0], [1.0, 1.5]])]
fold_2 = [np.array([[1.0, 2.0], [2.0, 2.5]]), np.array([[1.5, 3.0]])]

problems = []


def state(imgr):
    return (tuple(map(float, imgr.birth_range)), tuple(map(float, imgr.pers_range)), imgr.resolution)


# estimator with a history
used = PersistenceImager(pixel_size=0.5)
used.fit(fold_1)
used.transform(fold_1)
used.fit(fold_2)
imgs_used = used.transform(fold_2)

# estimator that only ever saw the second fold
fresh = PersistenceImager(pixel_size=0.5)
fresh.fit(fold_2)
imgs_fresh = fresh.transform(fold_2)

if state(used) != state(fresh):
    problems.append("refit remembers the earlier fit: %s != %s" % (state(used), state(fresh)))
elif not all(np.array_equal(a, b) for a, b in zip(imgs_used, imgs_fresh)):
    problems.append("images of a refitted imager differ from those of a fresh imager")

# fit + transform == fit_transform, also on an estimator that has been fitted before
both = PersistenceImager(pixel_size=0.5)
both.fit_transform(fold_1)
imgs_both = both.fit_transform(fold_2)
if state(both) != state(fresh) or not all(
    a.shape == b.shape and np.array_equal(a, b) for a, b in zip(imgs_both, imgs_fresh)
):
    problems.append("fit_transform on a previously fitted imager differs from fit + transform on a fresh one")

# transform is repeatable and leaves the fitted state alone
before = state(fresh)
again = fresh.transform(fold_2)
if state(fresh) != before or not all(np.array_equal(a, b) for a, b in zip(again, imgs_fresh)):
    problems.append("transform is not repeatable")

if problems:
    print("FAIL")
    for p in problems:
        print("  -", p)
    sys.exit(1)
print("PASS")
sys.exit(0)
