"""C19 demo: arithmetic on approximate persistence landscapes must be pure.

Adding / subtracting two PersLandscapeApprox objects must not change either
operand (nor the `values` array the caller handed to the constructor), repeating
the same sum must give the same answer, and the answer must not depend on whether
the sampled values are stored as an integer or a floating-point array.

Run from inside the worktree:
    cd /tmp/wt_N19 && PYTHONPATH=/tmp/wt_N19 /venv/bin/python /tmp/ref_N19/demo.py
Prints PASS and exits 0 if the property holds, prints FAIL and exits 1 otherwise.
"""
import sys

import numpy as np

from persim.landscapes import PersLandscapeApprox

problems = []
grid = dict(start=0, stop=5, num_steps=6)

# 1. landscapes computed from diagrams; P is at least as deep as Q
P = PersLandscapeApprox(dgms=[np.array([[0.0, 5.0], [1.0, 3.0]])], **grid)
Q = PersLandscapeApprox(dgms=[np.array([[1.0, 4.0]])], **grid)
p_before, q_before = P.values.copy(), Q.values.copy()
first = (P + Q).values.copy()
second = (P + Q).values.copy()
expected = np.array([[0.0, 1, 3, 3, 1, 0], [0, 0, 1, 0, 0, 0]])
if not np.array_equal(first, expected):
    problems.append("P + Q has the wrong values:\n%s" % first)
if not np.array_equal(first, second):
    problems.append("P + Q evaluated twice gives two different answers:\n%s\n%s" % (first, second))
if not np.array_equal(P.values, p_before):
    problems.append("P + Q changed P.values:\n%s\n->\n%s" % (p_before, P.values))
if not np.array_equal(Q.values, q_before):
    problems.append("P + Q changed Q.values")

# 2. the caller's own array, passed as `values`, must survive a subtraction
mine = np.array([[0.0, 1.0, 2.0, 2.0, 1.0, 0.0], [0.0, 0.0, 1.0, 0.0, 0.0, 0.0]])
kept = mine.copy()
R = PersLandscapeApprox(values=mine, **grid)
S = PersLandscapeApprox(values=np.array([[0.0, 1.0, 1.0, 1.0, 1.0, 0.0]]), **grid)
diff = (R - S).values.copy()
if not np.array_equal(mine, kept):
    problems.append("R - S wrote into the array passed as values=:\n%s\n->\n%s" % (kept, mine))
if not np.array_equal(R.sup_norm(), 2.0):
    problems.append("sup norm of R after computing R - S is %r, expected 2.0" % R.sup_norm())

# 3. integer-valued and float-valued samples of the same landscape behave alike
R_int = PersLandscapeApprox(values=kept.astype(np.int64), **grid)
half = PersLandscapeApprox(values=np.array([[0.0, 0.5, 0.5, 0.5, 0.5, 0.0]]), **grid)
want = (PersLandscapeApprox(values=kept.copy(), **grid) + half).values
try:
    got = (R_int + half).values
    if not np.array_equal(got, want):
        problems.append("integer-valued + float-valued landscape differs from float + float")
except Exception as exc:  # noqa: BLE001
    problems.append("integer-valued + float-valued landscape raised %s: %s" % (type(exc).__name__, exc))

if problems:
    print("FAIL")
    for p in problems:
        print(" -", p)
    sys.exit(1)
print("PASS")
sys.exit(0)
