"""
C19 demo: the one randomised routine of persim (the mGH upper bound) must be
reproducible under a fixed NumPy seed.

Run from inside the tree under test, e.g.
    cd /tmp/wt_M19 && PYTHONPATH=/tmp/wt_M19 /venv/bin/python /tmp/ref_M19/demo.py
Prints PASS and exits 0 if every repeated, identically seeded call returns
identical results; prints FAIL and exits 1 otherwise.
"""
import sys
import warnings

import numpy as np

warnings.simplefilter("ignore")

import persim
from persim import gromov_hausdorff, bottleneck

gh = sys.modules["persim.gromov_hausdorff"]


def path_plus(n, extra, seed):
    """Path on n vertices with a few random chords (connected by construction)."""
    r = np.random.RandomState(seed)
    A = np.zeros((n, n), int)
    for i in range(n - 1):
        A[i, i + 1] = 1
    for _ in range(extra):
        i, j = r.randint(n, size=2)
        if i != j:
            A[min(i, j), max(i, j)] = 1
    return A + A.T


graphs = [path_plus(22 + 3 * k, 3 + k, 100 + k) for k in range(5)]
failures = []


def seeded(seed, f, *a, **k):
    np.random.seed(seed)
    return f(*a, **k)


# 1. public entry point on a collection, one sampled mapping per direction
#    (mapping_sample_size_order=[0, 0]) and the default sample size
for order in (np.array([0.0, 0.0]), None):
    kw = {} if order is None else {"mapping_sample_size_order": order}
    for seed in range(4):
        lbs1, ubs1 = seeded(seed, gromov_hausdorff, graphs, **kw)
        # an unrelated, deterministic call in between must not matter
        bottleneck(np.array([[0.0, 1.0], [0.5, 2.0]]), np.array([[0.0, 1.5]]))
        lbs2, ubs2 = seeded(seed, gromov_hausdorff, graphs, **kw)
        if not (np.array_equal(lbs1, lbs2) and np.array_equal(ubs1, ubs2)):
            failures.append(
                "gromov_hausdorff(collection, %s) differs under np.random.seed(%d):\n%s\nvs\n%s"
                % ("default order" if order is None else "order=[0, 0]", seed, ubs1, ubs2)
            )

# 2. a pair of graphs, default options
for seed in range(4):
    r1 = seeded(seed, gromov_hausdorff, graphs[1], graphs[4])
    r2 = seeded(seed, gromov_hausdorff, graphs[1], graphs[4])
    if r1 != r2:
        failures.append("gromov_hausdorff(G, H) differs under seed %d: %s vs %s" % (seed, r1, r2))

# 3. the building blocks of the upper bound
DX = gh.make_distance_matrix_from_adjacency_matrix(graphs[0])
DY = gh.make_distance_matrix_from_adjacency_matrix(graphs[3])
for seed in range(6):
    pi = np.random.RandomState(seed).permutation(len(DX))
    im1, d1 = seeded(seed, gh.construct_mapping, DX, DY, pi)
    im2, d2 = seeded(seed, gh.construct_mapping, DX, DY, pi)
    if list(im1) != list(im2) or d1 != d2:
        failures.append("construct_mapping differs under seed %d: distortion %s vs %s" % (seed, d1, d2))
    u1 = seeded(seed, gh.find_ub_of_min_distortion, DX, DY, np.array([0.0, 0.0]))
    u2 = seeded(seed, gh.find_ub_of_min_distortion, DX, DY, np.array([0.0, 0.0]))
    if u1 != u2:
        failures.append("find_ub_of_min_distortion differs under seed %d: %s vs %s" % (seed, u1, u2))

print("persim imported from", persim.__file__)
if failures:
    print("%d irreproducible results, first one:" % len(failures))
    print(failures[0])
    for f in failures[1:]:
        print(" -", f.splitlines()[0])
    print("FAIL")
    sys.exit(1)
print("PASS")
sys.exit(0)
