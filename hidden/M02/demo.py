"""C02 demo: wasserstein() must equal the brute-force min-sum partial matching
cost on every call, whatever calls were made before it.

Run from inside the worktree:
    cd /tmp/wt_M02 && PYTHONPATH=/tmp/wt_M02 /venv/bin/python /tmp/ref_M02/demo.py
"""
import itertools
import sys
import warnings

import numpy as np
import persim
from persim import wasserstein

warnings.simplefilter("ignore")
SQ2 = np.sqrt(2.0)


def brute(A, B):
    """Min over all partial matchings of sum(|a-b|) + sum(unmatched (d-b)/sqrt2)."""
    A = [tuple(p) for p in np.asarray(A, dtype=float).reshape(-1, 2)]
    B = [tuple(p) for p in np.asarray(B, dtype=float).reshape(-1, 2)]
    diag = lambda p: (p[1] - p[0]) / SQ2
    best = np.inf
    for k in range(min(len(A), len(B)) + 1):
        for ia in itertools.combinations(range(len(A)), k):
            rest_a = sum(diag(A[i]) for i in range(len(A)) if i not in ia)
            for ib in itertools.permutations(range(len(B)), k):
                rest_b = sum(diag(B[j]) for j in range(len(B)) if j not in ib)
                cross = sum(np.hypot(A[i][0] - B[j][0], A[i][1] - B[j][1]) for i, j in zip(ia, ib))
                best = min(best, cross + rest_a + rest_b)
    return best


# A short session: diagrams of different sizes compared one after the other.
P1 = np.array([[0.0, 4.0]])
P2 = np.array([[0.0, 1.0], [2.0, 3.5]])
P3 = np.array([[0.0, 4.1], [1.0, 1.5], [3.0, 6.0]])
P4 = np.array([[0.2, 0.9], [2.0, 3.0], [2.1, 3.6], [5.0, 5.5]])
EMPTY = np.zeros((0, 2))
session = [(P3, P1), (P2, P2[::-1]), (P1, P3), (P4, P2), (P3, P3 + 0.05), (P2, P4),
           (P4, EMPTY), (P1, P4), (EMPTY, P4), (P3, P2), (P2, P3)]

bad = 0
for k, (A, B) in enumerate(session):
    got = wasserstein(A, B)
    want = brute(A, B)
    ok = np.isfinite(got) and abs(got - want) <= 1e-6 * max(1.0, abs(want))
    print("call %2d  sizes (%d,%d)  wasserstein=%.9f  min-sum=%.9f  %s"
          % (k, len(A), len(B), got, want, "ok" if ok else "WRONG"))
    bad += not ok

print("persim imported from", persim.__file__)
if bad:
    print("FAIL: %d of %d calls do not return the min-sum matching cost" % (bad, len(session)))
    sys.exit(1)
print("PASS")
sys.exit(0)
