"""C13 demo: the Gaussian kernel must be a valid, accurate bivariate normal CDF on a whole grid of pixel corners.

Run from inside the tree under test so that its copy of persim is imported:
    cd /tmp/wt_T13 && PYTHONPATH=/tmp/wt_T13 /venv/bin/python /tmp/ref_T13/demo.py
Prints PASS and exits 0 if the property holds, prints FAIL and exits 1 otherwise.

The kernel is evaluated the way PersistenceImager does it: all (resolution+1)^2 pixel corners in ONE call, here a
101 x 101 grid (10201 points) with strongly correlated covariance matrices (|r| >= 0.925, the Genz expansion branch).
"""
import sys
import warnings

import numpy as np
from scipy import integrate
from scipy.special import ndtr

warnings.simplefilter("ignore")
import matplotlib
matplotlib.use("Agg")

from persim import images_kernels, PersistenceImager

TOL = 1e-7
problems = []


def reference(h, k, r):
    """P(X <= h, Y <= k) for a standard bivariate normal with correlation r, by adaptive 1-d quadrature."""
    s = np.sqrt(1.0 - r * r)
    f = lambda u: np.exp(-0.5 * u * u) / np.sqrt(2 * np.pi) * ndtr((k - r * u) / s)
    lo = max(-40.0, min(h, -12.0) - 1.0)
    if h <= lo:
        return 0.0
    brk = [p for p in (k / r - 6 * s / abs(r), k / r, k / r + 6 * s / abs(r), 0.0) if lo < p < h]
    val, _ = integrate.quad(f, lo, h, points=brk or None, epsabs=1e-13, epsrel=1e-12, limit=400)
    return val


def check_grid(mu, cov, half_width, npts=101):
    cov = np.array(cov, dtype=np.float64)
    sx, sy = np.sqrt(cov[0, 0]), np.sqrt(cov[1, 1])
    r = cov[0, 1] / (sx * sy)
    gb = mu[0] + sx * np.linspace(-half_width, half_width, npts)
    gp = mu[1] + sy * np.linspace(-half_width, half_width, npts)
    bb, pp = np.meshgrid(gb, gp, indexing="ij")
    bb = bb.flatten(order="C")
    pp = pp.flatten(order="C")
    tag = "mu=%s cov=%s (r=%.3f)" % (tuple(mu), cov.tolist(), r)

    vals = np.asarray(images_kernels.gaussian(bb, pp, mu=np.array(mu, dtype=np.float64), sigma=cov))
    if vals.shape != bb.shape:
        problems.append("%s: result shape %s" % (tag, vals.shape))
        return
    img = vals.reshape(npts, npts)

    # a CDF: values in [0, 1], non-decreasing in each argument, non-negative mass on every rectangle
    if vals.min() < -TOL or vals.max() > 1 + TOL:
        problems.append("%s: values outside [0,1]: min %.3g max %.10g" % (tag, vals.min(), vals.max()))
    d0, d1 = np.diff(img, axis=0).min(), np.diff(img, axis=1).min()
    if d0 < -TOL or d1 < -TOL:
        problems.append("%s: not monotone: most negative step %.3g (birth) %.3g (persistence)" % (tag, d0, d1))
    mass = img[1:, 1:] - img[:-1, 1:] - img[1:, :-1] + img[:-1, :-1]
    if mass.min() < -TOL:
        problems.append("%s: rectangle with negative mass %.3g" % (tag, mass.min()))
    if abs(img[-1, -1] - 1.0) > 1e-6 or abs(img[0, 0]) > 1e-6:
        problems.append("%s: tails %.3g / %.10g" % (tag, img[0, 0], img[-1, -1]))

    # the value at a point does not depend on how many other points are evaluated in the same call
    piecewise = np.concatenate([np.asarray(images_kernels.gaussian(bb[i:i + 500], pp[i:i + 500],
                                                                  mu=np.array(mu, dtype=np.float64), sigma=cov))
                                for i in range(0, len(bb), 500)])
    dev = np.abs(piecewise - vals).max()
    if not dev <= 1e-12:
        problems.append("%s: one call on the grid differs from 500-point calls by %.3g" % (tag, dev))

    # agreement with an independent reference on a sample of the corners
    worst = 0.0
    for i in range(0, len(bb), 41):
        ref = reference((bb[i] - mu[0]) / sx, (pp[i] - mu[1]) / sy, r)
        worst = max(worst, abs(ref - vals[i]))
    if worst > TOL:
        problems.append("%s: differs from the reference bivariate normal CDF by %.3g" % (tag, worst))
    print("  checked %-70s max |kernel - reference| = %.2e" % (tag, worst))


check_grid((0.3, -0.2), [[1.0, 0.95], [0.95, 1.0]], 6.0)
check_grid((0.3, -0.2), [[1.0, -0.95], [-0.95, 1.0]], 6.0)
check_grid((1.0, 2.0), [[4.0, 0.93 * 0.2], [0.93 * 0.2, 0.01]], 5.0)
check_grid((0.0, 0.0), [[1.0, 0.5], [0.5, 1.0]], 6.0)         # moderate correlation, quadrature branch
check_grid((0.0, 0.0), [[1.0, 0.0], [0.0, 2.0]], 6.0)         # product form

# the same thing seen through the transformer: a 100 x 100 image of a one-point diagram is a discretised density
pim = PersistenceImager(birth_range=(0.0, 1.0), pers_range=(0.0, 1.0), pixel_size=0.01,
                        weight=lambda b, p: np.ones_like(b), weight_params={},
                        kernel_params={"sigma": np.array([[0.010, 0.0095], [0.0095, 0.010]])})
img = pim.transform(np.array([[0.5, 1.0]]), skew=True)
print("  image %s: min pixel %.3g, total mass %.6f" % (img.shape, img.min(), img.sum()))
if img.min() < -TOL:
    problems.append("persistence image has a pixel of negative mass %.3g" % img.min())
if not (0.99 < img.sum() <= 1 + 1e-6):
    problems.append("persistence image of one unit-weight point has total mass %.6f" % img.sum())

if problems:
    for p in problems:
        print("  violation:", p)
    print("FAIL")
    sys.exit(1)
print("PASS")
sys.exit(0)
