"""C19 demo: sliced_wasserstein must not depend on the dtype of equal-valued diagrams.

Equal-valued diagrams given as integer arrays and as floating-point arrays must give
the same distance (and the inputs must be left untouched, and a repeated call must
return the same value).

Run from inside the worktree:
    cd /tmp/wt_K19 && PYTHONPATH=/tmp/wt_K19 /venv/bin/python /tmp/ref_K19/demo.py
"""
import sys

import numpy as np

from persim import sliced_wasserstein

failures = []


def check(name, ok, detail=""):
    if not ok:
        failures.append("%s %s" % (name, detail))


# integer-valued diagrams whose diagonal projections ((b+d)/2) are not all integers
dgm_a = [[0, 3], [1, 4], [2, 9]]
dgm_b = [[0, 5], [3, 4]]

for M in (50, 10):
    results = {}
    for label, dtype in (("int64", np.int64), ("int32", np.int32), ("float64", np.float64)):
        A = np.array(dgm_a, dtype=dtype)
        B = np.array(dgm_b, dtype=dtype)
        A0, B0 = A.tobytes(), B.tobytes()
        r1 = sliced_wasserstein(A, B, M=M)
        r2 = sliced_wasserstein(A, B, M=M)
        check("repeatable[%s,M=%d]" % (label, M), r1 == r2, "%r != %r" % (r1, r2))
        check("inputs untouched[%s,M=%d]" % (label, M), A.tobytes() == A0 and B.tobytes() == B0)
        results[label] = float(r1)

    # mixed representations of the same pair of diagrams
    results["int/float"] = float(
        sliced_wasserstein(np.array(dgm_a, dtype=np.int64), np.array(dgm_b, dtype=np.float64), M=M)
    )
    results["float/int"] = float(
        sliced_wasserstein(np.array(dgm_a, dtype=np.float64), np.array(dgm_b, dtype=np.int64), M=M)
    )

    ref = results["float64"]
    print("M=%d:" % M, results)
    for label, value in results.items():
        check(
            "representation-independent[%s vs float64,M=%d]" % (label, M),
            abs(value - ref) <= 1e-9 * max(1.0, abs(ref)),
            "%r != %r" % (value, ref),
        )

if failures:
    for f in failures:
        print("  violated:", f)
    print("FAIL")
    sys.exit(1)

print("PASS")
sys.exit(0)
