"""C16 demo: in a list of barcodes every entry of the result is the (normalised)
Shannon entropy of ITS OWN barcode, whatever the other barcodes in the list are.

Run from inside the worktree:
    cd /tmp/wt_Q16 && PYTHONPATH=/tmp/wt_Q16 /venv/bin/python /tmp/ref_Q16/demo.py
Prints PASS / exits 0 when the property holds, prints FAIL / exits 1 otherwise.
"""
import sys
import warnings

import numpy as np

from persim.persistent_entropy import persistent_entropy

warnings.simplefilter("ignore")  # the unchanged code warns on 0/0 for one-bar barcodes


def shannon(dgm, normalize):
    lengths = dgm[:, 1] - dgm[:, 0]
    p = lengths / lengths.sum()
    e = -np.sum(p * np.log(p))
    return e / np.log(len(lengths)) if normalize else e


# H0 of a connected point cloud: one finite bar + the infinite bar -> ONE bar once inf is dropped
h0 = np.array([[0.0, 0.7], [0.0, np.inf]])
# H1: three loops of equal persistence -> entropy log 3, normalised entropy exactly 1
h1 = np.array([[0.2, 1.2], [1.0, 2.0], [3.5, 4.5]])
# H2: two voids of different size
h2 = np.array([[0.5, 0.75], [1.0, 4.0]])
only_inf = np.array([[0.0, np.inf]])  # nothing left once inf is dropped

failures = []


def check(label, dgms, **kw):
    got = persistent_entropy(dgms, **kw)
    if got.shape != (len(dgms),):
        failures.append("%s: shape %s" % (label, got.shape))
        return
    for k, dgm in enumerate(dgms):
        finite = dgm[dgm[:, 1] != np.inf]
        if len(finite) < 2:
            continue  # the property speaks about n >= 2 for the normalised variant
        want = shannon(finite, kw.get("normalize", False))
        alone = persistent_entropy(dgm, **kw)[0]
        ok = np.isclose(got[k], want, rtol=1e-12, atol=0) and got[k] == alone
        if kw.get("normalize", False):
            ok = ok and 0.0 <= got[k] <= 1.0 + 1e-12
        if not ok:
            failures.append(
                "%s: entry %d is %r, expected %r (alone: %r)" % (label, k, got[k], want, alone)
            )


for normalize in (False, True):
    check("[h1, h2] normalize=%s" % normalize, [h1, h2], normalize=normalize)
    check("[h1, h0, h2] normalize=%s" % normalize, [h1, h0, h2], normalize=normalize)
    check("[h0, h1, h2] normalize=%s" % normalize, [h0, h1, h2], normalize=normalize)
    check("[only_inf, h2, h1] normalize=%s" % normalize, [only_inf, h2, h1], normalize=normalize)
    check("[h2[:1], h1] normalize=%s" % normalize, [h2[:1], h1], normalize=normalize)

if failures:
    for f in failures:
        print(f)
    print("FAIL")
    sys.exit(1)
print("PASS")
sys.exit(0)
