"""
Demo for property C14 (heat-kernel distance is the kernel-induced pseudo-metric,
stable w.r.t. 1-Wasserstein).

Run from inside the worktree so that the local copy of persim is imported:
    cd /tmp/wt_L14 && PYTHONPATH=/tmp/wt_L14 /venv/bin/python /tmp/ref_L14/demo.py

Prints PASS and exits 0 when persim.heat agrees with the closed-form definition
sqrt(k(F,F) + k(G,G) - 2 k(F,G)) and respects the stability bound
heat <= W1 / (4 sigma sqrt(pi)); prints FAIL and exits 1 otherwise.
"""
import math
import sys

import numpy as np

import persim
from persim import heat


def k_ref(F, G, sigma):
    """Multi-scale kernel of Reininghaus et al., straight from the paper."""
    total = 0.0
    for (b1, d1) in F:
        for (b2, d2) in G:
            total += math.exp(-((b1 - b2) ** 2 + (d1 - d2) ** 2) / (8 * sigma))
            total -= math.exp(-((b1 - d2) ** 2 + (d1 - b2) ** 2) / (8 * sigma))
    return total / (8 * math.pi * sigma)


def heat_ref(F, G, sigma):
    sq = k_ref(F, F, sigma) + k_ref(G, G, sigma) - 2 * k_ref(F, G, sigma)
    return math.sqrt(max(sq, 0.0))


failures = []


def check(name, F, G, sigma, w1=None):
    F = np.asarray(F, dtype=float)
    G = np.asarray(G, dtype=float)
    got = float(heat(F.copy(), G.copy(), sigma))
    got_sym = float(heat(G.copy(), F.copy(), sigma))
    want = heat_ref(F, G, sigma)
    ok = (
        math.isfinite(got)
        and got >= 0
        and abs(got - want) <= 1e-6
        and abs(got - got_sym) <= 1e-6
    )
    line = "%-44s sigma=%-4g heat=%.9f reference=%.9f" % (name, sigma, got, want)
    if w1 is not None:
        bound = w1 / (4 * sigma * math.sqrt(math.pi))
        line += " W1-bound=%.9f" % bound
        ok = ok and got <= bound + 1e-9
    print(("ok   " if ok else "BAD  ") + line)
    if not ok:
        failures.append(name)


print("persim imported from", persim.__file__)

p = [1.0, 3.0]
q = [1.0, 3.05]
r = [0.5, 2.0]

for sigma in (0.4, 1.0):
    # plain diagrams, no repeated points
    check("distinct points", [p, r], [q], sigma)
    check("reordered copy", [p, r, q], [q, p, r], sigma)
    check("diagonal points ignored", [p, [2.0, 2.0]], [p, [0.7, 0.7]], sigma)
    # diagrams with a repeated point (multiplicity 2), as produced e.g. by
    # integer-valued filtrations
    check("{p,p} vs {p}", [p, p], [p], sigma)
    check("{p,p,r} vs {r}", [p, p, r], [r], sigma)
    # {p,p} vs {p,q} with q close to p: W1 = ||p-q||_inf = 0.05 (match p-p, p-q)
    check("{p,p} vs {p,q}, q near p", [p, p], [p, q], sigma, w1=0.05)
    # reordering of a diagram with a repeated point is still at distance zero
    check("{p,r,p} vs {p,p,r}", [p, r, p], [p, p, r], sigma)

# triangle inequality through a diagram with a repeated point
A, B, C = np.array([p, p]), np.array([p, q]), np.array([q, q])
dAB, dBC, dAC = heat(A, B), heat(B, C), heat(A, C)
tri_ok = dAC <= dAB + dBC + 1e-9 and abs(dAC - heat_ref(A, C, 0.4)) <= 1e-6
print(("ok   " if tri_ok else "BAD  ") + "triangle {p,p},{p,q},{q,q}: %.9f <= %.9f + %.9f" % (dAC, dAB, dBC))
if not tri_ok:
    failures.append("triangle")

if failures:
    print("FAIL:", ", ".join(failures))
    sys.exit(1)
print("PASS")
sys.exit(0)
