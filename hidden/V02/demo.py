"""
C02 demo: persim.wasserstein(dgm1, dgm2) must equal the true min-sum
matching cost (points paired at Euclidean distance, or sent to the diagonal
at (d-b)/sqrt(2)), for every pair of diagrams, whatever was computed before.

Run from inside the worktree:
    cd /tmp/wt_V02 && PYTHONPATH=/tmp/wt_V02 /venv/bin/python /tmp/ref_V02/demo.py
"""
import itertools
import sys

import numpy as np

from persim import wasserstein


def brute_force(A, B):
    """min over all partial matchings, by enumeration"""
    A = np.asarray(A, dtype=float).reshape(-1, 2)
    B = np.asarray(B, dtype=float).reshape(-1, 2)
    diag = lambda p: (p[1] - p[0]) / np.sqrt(2)
    best = np.inf
    for k in range(min(len(A), len(B)) + 1):
        for rows in itertools.combinations(range(len(A)), k):
            for cols in itertools.permutations(range(len(B)), k):
                cost = sum(np.hypot(*(A[i] - B[j])) for i, j in zip(rows, cols))
                cost += sum(diag(A[i]) for i in range(len(A)) if i not in rows)
                cost += sum(diag(B[j]) for j in range(len(B)) if j not in cols)
                best = min(best, cost)
    return best


# a collection of small diagrams of different sizes, all pairs in order
rng = np.random.default_rng(7)
dgms = []
for n in (2, 1, 3, 0, 2, 4, 1, 3):
    b = rng.random(n) * 4
    dgms.append(np.stack([b, b + rng.random(n) * 3], axis=1))
dgms.append(np.array([[0.0, 10.0], [0.0, 10.0]]))      # repeated point
dgms.append(np.array([[5.0, 5.0]]))                     # diagonal point

bad = []
for i, A in enumerate(dgms):
    for j, B in enumerate(dgms):
        got = wasserstein(A, B)
        want = brute_force(A, B)
        if not np.isclose(got, want, rtol=1e-6, atol=1e-6):
            bad.append((i, j, len(A), len(B), got, want))

if bad:
    for i, j, m, n, got, want in bad[:8]:
        print("dgm %d (%d pts) vs dgm %d (%d pts): wasserstein = %.12g, "
              "min-sum matching cost = %.12g" % (i, m, j, n, got, want))
    print("FAIL (%d of %d pairs wrong)" % (len(bad), len(dgms) ** 2))
    sys.exit(1)
print("PASS")
sys.exit(0)
