"""
C07 demo: metric / invariance laws of persim.wasserstein on diagrams that
carry essential classes (death = inf), which the function documents as
"ignored with a warning".

Run from the root of the tree under test:
    cd <tree> && PYTHONPATH=<tree> /venv/bin/python /tmp/ref_U07/demo.py
Prints PASS and exits 0 when every law holds, prints FAIL and exits 1 otherwise.
"""
import sys
import warnings

import numpy as np

import persim

warnings.simplefilter("ignore")

failures = []


def _guarded(fn):
    # an exception on a valid diagram counts as a violation, not as a crash of the demo
    def call(a, b):
        try:
            return fn(a, b)
        except Exception as e:
            failures.append("%s raised %s: %s" % (fn.__name__, type(e).__name__, e))
            return float("nan")
    return call


bottleneck = _guarded(persim.bottleneck)
wasserstein = _guarded(persim.wasserstein)


def check(name, got, want, tol=1e-9):
    ok = bool(np.isfinite(got)) and abs(got - want) <= tol * max(1.0, abs(want))
    if not ok:
        failures.append("%s: got %r, expected %r" % (name, got, want))


empty = np.zeros((0, 2))

# 1. against the empty diagram: total persistence / sqrt(2) of the finite points
X = np.array([[0.0, np.inf], [0.0, 1.0], [2.0, 5.0]])
total = (1.0 + 3.0) / np.sqrt(2)
check("W(X, empty)", wasserstein(X, empty), total)
check("W(empty, X)", wasserstein(empty, X), total)
check("B(X, empty)", bottleneck(X, empty), 1.5)

# 2. the value does not depend on where the essential class sits in the array
Xr = X[[1, 2, 0]]
Y = np.array([[0.5, 1.0], [2.0, 4.0], [7.0, 7.5]])
check("W(X, Y) vs W(reordered X, Y)", wasserstein(X, Y), wasserstein(Xr, Y))
check("W(X, reordered X)", wasserstein(X, Xr), 0.0)

# 3. same laws on random diagrams of a few dozen points
rng = np.random.default_rng(7)
for trial in range(20):
    n = int(rng.integers(5, 40))
    b = rng.normal(size=n) * 2
    A = np.column_stack([b, b + rng.exponential(size=n)])
    finite = A.copy()
    k = int(rng.integers(1, 4))
    ess = np.column_stack([rng.normal(size=k), np.full(k, np.inf)])
    pos = rng.permutation(n + k)
    mixed = np.vstack([ess, A])[pos]  # essential classes anywhere in the array
    m = int(rng.integers(5, 40))
    b2 = rng.normal(size=m) * 2
    B = np.column_stack([b2, b2 + rng.exponential(size=m)])

    want = wasserstein(finite, B)
    check("trial %d: W(mixed, B) = W(finite part, B)" % trial, wasserstein(mixed, B), want)
    check("trial %d: symmetry" % trial, wasserstein(B, mixed), want)
    check(
        "trial %d: W(mixed, empty)" % trial,
        wasserstein(mixed, empty),
        np.sum(finite[:, 1] - finite[:, 0]) / np.sqrt(2),
    )
    if bottleneck(mixed, B) > wasserstein(mixed, B) + 1e-9:
        failures.append("trial %d: bottleneck exceeds wasserstein" % trial)

print("persim imported from", persim.__file__)
if failures:
    for f in failures[:8]:
        print("  violated:", f)
    print("FAIL (%d violations)" % len(failures))
    sys.exit(1)
print("PASS")
sys.exit(0)
