"""
Demo for property C02: persim.wasserstein returns the true min-sum matching cost.

Every case is compared with a brute-force optimum that is computed here,
independently of persim: enumerate every partial matching between the finite
points of the two diagrams; matched pairs cost their Euclidean distance,
unmatched points cost (d - b) / sqrt(2).

Run from inside the worktree:
    cd /tmp/wt_H02 && PYTHONPATH=/tmp/wt_H02 /venv/bin/python /tmp/ref_H02/demo.py
Exit code 0 + "PASS" if every case agrees, exit code 1 + "FAIL" otherwise.
"""
import itertools
import math
import sys
import warnings

import numpy as np

import persim
from persim import wasserstein


def brute_force(dgm1, dgm2):
    A = [(float(b), float(d)) for b, d in np.asarray(dgm1, dtype=float).reshape(-1, 2) if np.isfinite(d)]
    B = [(float(b), float(d)) for b, d in np.asarray(dgm2, dtype=float).reshape(-1, 2) if np.isfinite(d)]
    to_diag = lambda p: (p[1] - p[0]) / math.sqrt(2)
    best = math.inf
    for k in range(0, min(len(A), len(B)) + 1):
        for ia in itertools.combinations(range(len(A)), k):
            rest_a = sum(to_diag(A[i]) for i in range(len(A)) if i not in ia)
            for ib in itertools.permutations(range(len(B)), k):
                cost = rest_a + sum(to_diag(B[j]) for j in range(len(B)) if j not in ib)
                cost += sum(math.dist(A[i], B[j]) for i, j in zip(ia, ib))
                best = min(best, cost)
    return best


inf = np.inf
CASES = [
    # plain finite diagrams, unequal sizes, repeated and diagonal points
    ("finite 2 vs 2", [[0.6, 1.1], [0.5, 1.0]], [[0.5, 1.1], [0.6, 1.3]]),
    ("finite 3 vs 1", [[0.0, 1.0], [3.0, 3.2], [3.0, 3.2]], [[0.0, 1.1]]),
    ("diagonal point", [[2.0, 2.0], [0.0, 4.0]], [[0.1, 4.2], [5.0, 5.5]]),
    ("one empty", [[1.0, 2.0], [-3.0, -1.0]], []),
    # essential class listed LAST (the order ripser produces for H0)
    ("inf last", [[0.0, 1.0], [3.0, 3.2], [0.0, inf]], [[0.0, 1.1], [10.0, 12.0]]),
    # essential class listed FIRST / in the middle
    ("inf first, dgm1", [[0.0, inf], [0.0, 1.0], [3.0, 3.2]], [[0.0, 1.1], [10.0, 12.0]]),
    ("inf first, dgm2", [[0.0, 1.1], [10.0, 12.0]], [[0.0, inf], [0.0, 1.0], [3.0, 3.2]]),
    ("inf in the middle", [[0.0, 2.0], [0.0, inf], [5.0, 5.5], [1.0, 4.0]], [[0.1, 2.0], [1.0, 4.5], [7.0, 7.1]]),
    ("two inf, both diagrams", [[0.0, inf], [1.0, inf], [2.0, 2.5], [-4.0, -1.0]],
     [[0.5, inf], [-4.0, -1.5], [2.0, 2.25]]),
]


def main():
    print("persim imported from", persim.__file__)
    ok = True
    for name, d1, d2 in CASES:
        expected = brute_force(d1, d2)
        with warnings.catch_warnings():
            warnings.simplefilter("ignore")
            try:
                got = float(wasserstein(np.array(d1), np.array(d2)))
            except Exception as e:  # e.g. infeasible cost matrix
                got = "%s: %s" % (type(e).__name__, e)
        good = isinstance(got, float) and math.isclose(got, expected, rel_tol=1e-9, abs_tol=1e-12)
        ok &= good
        print("%-24s expected %-20.12g got %-22s %s" % (name, expected, got, "ok" if good else "MISMATCH"))
    print("PASS" if ok else "FAIL")
    return 0 if ok else 1


if __name__ == "__main__":
    sys.exit(main())
