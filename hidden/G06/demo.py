"""
Demo for property C06 (returned matchings certify the reported distance),
bottleneck side.

Run from inside the worktree so that its copy of persim is imported:
    cd /tmp/wt_G06 && PYTHONPATH=/tmp/wt_G06 /venv/bin/python /tmp/ref_G06/demo.py

Prints PASS / exits 0 when every returned matching is a certificate,
prints FAIL / exits 1 otherwise.
"""
import sys
import warnings

import numpy as np

import persim
from persim import bottleneck

warnings.simplefilter("ignore")


def linf_cost(dgm1, dgm2, i, j):
    """Cost of one pairing under the bottleneck cost rule."""
    if i >= 0 and j >= 0:
        return max(abs(dgm1[i][0] - dgm2[j][0]), abs(dgm1[i][1] - dgm2[j][1]))
    if i >= 0:
        return 0.5 * (dgm1[i][1] - dgm1[i][0])
    return 0.5 * (dgm2[j][1] - dgm2[j][0])


def certificate_problems(dgm1, dgm2):
    dgm1 = np.asarray(dgm1, dtype=float)
    dgm2 = np.asarray(dgm2, dtype=float)
    problems = []
    d_plain = bottleneck(dgm1, dgm2)
    d, m = bottleneck(dgm1, dgm2, matching=True)
    if d != d_plain:
        problems.append("distance with matching %r != without %r" % (d, d_plain))
    m = np.asarray(m)
    # every point of each diagram appears in exactly one row
    for col, dgm, name in ((0, dgm1, "dgm1"), (1, dgm2, "dgm2")):
        idx = m[:, col]
        for k in range(len(dgm)):
            times = int(np.sum(idx == k))
            if times != 1:
                problems.append("%s point %d appears in %d rows" % (name, k, times))
        stray = [v for v in idx if v != -1 and not (0 <= v < len(dgm) and v == int(v))]
        if stray:
            problems.append("%s: invalid indices %r" % (name, stray))
    if np.any((m[:, 0] == -1) & (m[:, 1] == -1)):
        problems.append("diagonal-to-diagonal row present")
    # each row's third entry is the cost of the pairing
    for i, j, c in m:
        i, j = int(i), int(j)
        if (i >= 0 or j >= 0) and i < len(dgm1) and j < len(dgm2):
            expect = linf_cost(dgm1, dgm2, i, j)
            if not np.isclose(c, expect, rtol=0, atol=1e-12):
                problems.append("row (%d, %d): cost %r, expected %r" % (i, j, c, expect))
    # the maximum of the row costs is the reported distance
    if not np.isclose(np.max(m[:, 2]), d, rtol=0, atol=1e-12):
        problems.append("max row cost %r != distance %r" % (np.max(m[:, 2]), d))
    return problems


CASES = [
    # equal sizes
    ("2 vs 2", [[0.1, 0.2], [0.2, 0.4]], [[0.1, 0.2], [0.3, 0.45]]),
    # the sizes used by the test-suite
    ("2 vs 4", [[0.5, 1], [0.6, 1.1]], [[0.5, 1.1], [0.6, 1.1], [0.8, 1.1], [1.0, 1.1]]),
    # dgm2 larger, and its FIRST point is the one that goes to the diagonal
    ("1 vs 2", [[0, 1]], [[0, 4], [0, 1]]),
    ("2 vs 4, early points of dgm2 on the diagonal",
     [[10, 20], [30, 45]], [[0, 1], [2, 2.5], [10, 21], [30, 44]]),
    # dgm1 larger, and a LATE point of dgm1 is paired with a point of dgm2
    ("3 vs 1", [[0, 0.1], [0, 0.2], [5, 9]], [[5, 9.5]]),
    ("4 vs 2", [[0, 0.5], [1, 1.2], [10, 20], [30, 45]], [[10, 21], [30, 44]]),
]


def main():
    print("persim imported from", persim.__file__)
    failed = False
    for name, a, b in CASES:
        problems = certificate_problems(a, b)
        if problems:
            failed = True
            print("  [bad ] %s" % name)
            for p in problems:
                print("         - " + p)
        else:
            print("  [ ok ] %s" % name)
    if failed:
        print("FAIL")
        return 1
    print("PASS")
    return 0


if __name__ == "__main__":
    sys.exit(main())
