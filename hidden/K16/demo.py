"""C16 demo: persistent entropy == Shannon entropy of the normalised bar lengths,
with infinite bars dropped (keep_inf=False) or replaced (keep_inf=True) AS REQUESTED,
for every flag combination (keep_inf, val_inf, normalize).

Run from inside the worktree:
    cd /tmp/wt_K16 && PYTHONPATH=/tmp/wt_K16 /venv/bin/python /tmp/ref_K16/demo.py
"""
import itertools
import math
import sys

import numpy as np

from persim.persistent_entropy import persistent_entropy


def reference(dgm, keep_inf, val_inf, normalize):
    """Independent pure-python reference following the documented contract."""
    bars = []
    for b, d in dgm.tolist():
        if keep_inf:
            b = val_inf if b == math.inf else b
            d = val_inf if d == math.inf else d
        elif d == math.inf:
            continue
        bars.append(d - b)
    assert all(x > 0 for x in bars)
    total = sum(bars)
    e = -sum((x / total) * math.log(x / total) for x in bars)
    if normalize:
        e = e / math.log(len(bars))
    return e


# An H0-like barcode: finite bars plus one essential (infinite) class, and a
# second diagram so that the list form is exercised as well.
dgms = [
    np.array([[0.0, 1.0], [0.0, 3.0], [2.0, 4.0], [0.0, np.inf]]),
    np.array([[2.0, 5.0], [3.0, 8.0], [1.0, np.inf], [0.5, 0.75]]),
]

failures = []
for keep_inf, val_inf, normalize in itertools.product(
    [False, True], [None, 10.0, 100.0], [False, True]
):
    if keep_inf and val_inf is None:
        continue  # documented error case, not a numeric one
    got = persistent_entropy(
        dgms, keep_inf=keep_inf, val_inf=val_inf, normalize=normalize
    )
    want = np.array([reference(d, keep_inf, val_inf, normalize) for d in dgms])
    ok = got.shape == want.shape and np.allclose(got, want, rtol=1e-12, atol=1e-12)
    print(
        "keep_inf=%-5s val_inf=%-5s normalize=%-5s got=%s want=%s %s"
        % (keep_inf, val_inf, normalize, got, want, "ok" if ok else "MISMATCH")
    )
    if not ok:
        failures.append((keep_inf, val_inf, normalize))

# With keep_inf=False the result must not depend on val_inf at all: the
# infinite bars are dropped, there is nothing to substitute.
base = persistent_entropy(dgms)
for v in (10.0, 100.0, 1e6):
    if not np.allclose(persistent_entropy(dgms, keep_inf=False, val_inf=v), base):
        failures.append(("keep_inf=False depends on val_inf", v))

if failures:
    print("FAIL", failures)
    sys.exit(1)
print("PASS")
sys.exit(0)
