"""C20 demo: a diagram plot must keep every point it was given inside the axes.

Run from inside the worktree so that the worktree's persim is imported:
    cd /tmp/wt_K20 && PYTHONPATH=/tmp/wt_K20 /venv/bin/python /tmp/ref_K20/demo.py

For every case it checks, on an Agg canvas, that
  * there is one scatter collection per diagram whose x offsets are the births,
  * the finite deaths are drawn as given and the infinite ones sit on the
    dashed infinity line,
  * the infinity line and ALL scatter offsets lie inside the axis limits
    (no explicit xy_range is requested), in particular the limits contain
    every finite coordinate of the diagrams -- also the finite birth of a
    point whose death is infinite.
Prints PASS and exits 0 when all of this holds, FAIL and exits 1 otherwise.
"""
import sys

import numpy as np
import matplotlib

matplotlib.use("Agg")
import matplotlib.pyplot as plt

from persim import plot_diagrams

INF = np.inf

CASES = {
    # the essential class is born before everything else (H0-like), and it is
    # the only point with that birth value
    "inf point has the smallest birth": [
        np.array([[0.0, INF]]),
        np.array([[1.0, 2.0], [1.5, 3.0]]),
    ],
    # same on the other side: the essential class is born last
    "inf point has the largest birth": [
        np.array([[1.0, 2.0], [1.5, 3.0], [6.0, INF]]),
    ],
    # controls: the extreme values are attained by finite points as well
    "inf point shares its birth with a finite point": [
        np.array([[0.0, INF], [0.0, 1.0], [0.0, 2.5]]),
        np.array([[1.0, 2.0], [1.5, 3.0]]),
    ],
    "no infinite point": [
        np.array([[0.0, 1.0], [0.5, 2.5]]),
        np.array([[1.0, 2.0], [1.5, 3.0]]),
    ],
}


def check(name, diagrams):
    problems = []
    fig, ax = plt.subplots()
    try:
        plot_diagrams(diagrams, ax=ax, show=False)
        x_lo, x_hi = ax.get_xlim()
        y_lo, y_hi = ax.get_ylim()

        inf_lines = [l for l in ax.lines if l.get_label() == r"$\infty$"]
        any_inf = any(np.isinf(d).any() for d in diagrams)
        b_inf = None
        if any_inf:
            if len(inf_lines) != 1:
                problems.append("expected exactly one infinity line")
            else:
                ys = inf_lines[0].get_ydata()
                b_inf = float(ys[0])
                if not (ys[0] == ys[1] and y_lo <= b_inf <= y_hi):
                    problems.append("infinity line not horizontal inside the axes")

        cols = [c for c in ax.collections]
        if len(cols) != len(diagrams):
            problems.append("%d scatter collections for %d diagrams" % (len(cols), len(diagrams)))
        for k, (col, dgm) in enumerate(zip(cols, diagrams)):
            off = np.asarray(col.get_offsets(), dtype=float)
            want = dgm.astype(np.float32).astype(float)
            if b_inf is not None:
                want[np.isinf(want)] = np.float32(b_inf)
            if off.shape != want.shape or not np.allclose(off, want, rtol=1e-6, atol=0):
                problems.append("diagram %d: offsets %s differ from data %s" % (k, off.tolist(), want.tolist()))
                continue
            outside = (off[:, 0] < x_lo) | (off[:, 0] > x_hi) | (off[:, 1] < y_lo) | (off[:, 1] > y_hi)
            for row in off[outside]:
                problems.append(
                    "diagram %d: point (%g, %g) is drawn outside the axes x=[%g, %g] y=[%g, %g]"
                    % (k, row[0], row[1], x_lo, x_hi, y_lo, y_hi)
                )

        finite = np.concatenate([d[np.isfinite(d)] for d in diagrams])
        if finite.min() < min(x_lo, y_lo) - 1e-6 or finite.max() > max(x_hi, y_hi) + 1e-6:
            problems.append("axis limits do not contain the finite values [%g, %g]" % (finite.min(), finite.max()))
        if finite.min() < x_lo - 1e-6:
            problems.append("x limits [%g, %g] start after the smallest birth %g" % (x_lo, x_hi, finite.min()))
    except Exception as exc:  # a crash is a failure of the property, too
        problems.append("raised %s: %s" % (type(exc).__name__, exc))
    finally:
        plt.close(fig)
    status = "ok  " if not problems else "BAD "
    print("%s %s" % (status, name))
    for p in problems:
        print("       - " + p)
    return not problems


def main():
    ok = True
    for name, diagrams in CASES.items():
        ok = check(name, diagrams) and ok
    if ok:
        print("PASS")
        return 0
    print("FAIL")
    return 1


if __name__ == "__main__":
    sys.exit(main())
