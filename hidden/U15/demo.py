"""C15 demo: sliced Wasserstein is a symmetric pseudo-metric on ALL finite diagrams,
empty ones included.

Run from inside the worktree:
    cd /tmp/wt_U15 && PYTHONPATH=/tmp/wt_U15 /venv/bin/python /tmp/ref_U15/demo.py
Prints PASS / exits 0 when the property holds, prints FAIL / exits 1 otherwise.
"""
import sys

import numpy as np

from persim import sliced_wasserstein


def reference(PD1, PD2, M=50):
    """Average over M directions of the half circle of the 1-D transport cost between
    each diagram augmented with the diagonal projections of the other (float64)."""
    PD1 = np.asarray(PD1, dtype=float).reshape(-1, 2)
    PD2 = np.asarray(PD2, dtype=float).reshape(-1, 2)
    img1 = np.repeat(PD1.mean(axis=1, keepdims=True), 2, axis=1)
    img2 = np.repeat(PD2.mean(axis=1, keepdims=True), 2, axis=1)
    A = np.vstack([PD1, img2])
    B = np.vstack([PD2, img1])
    total = 0.0
    for k in range(M):
        t = (0.5 + k / M) * np.pi
        u = np.array([np.cos(t), np.sin(t)])
        total += np.abs(np.sort(A @ u) - np.sort(B @ u)).sum()
    return total / M


def close(a, b):
    return abs(a - b) <= 1e-6 * max(1.0, abs(a), abs(b))


def main():
    rng = np.random.default_rng(15)
    empty = np.empty((0, 2))
    problems = []

    diagrams = []
    for n in (1, 2, 5):
        b = rng.normal(size=n) * 3 - 2          # births of either sign
        diagrams.append(np.column_stack([b, b + rng.exponential(size=n) + 0.1]))

    def check(label, A, B, M):
        try:
            got = sliced_wasserstein(A, B, M)
        except Exception as e:  # the distance is defined for every pair of diagrams
            problems.append("%s: raised %s: %s" % (label, type(e).__name__, e))
            return None
        want = reference(A, B, M)
        if not close(got, want):
            problems.append("%s: got %r, expected %r" % (label, got, want))
        return got

    for M in (50, 7):
        for i, D in enumerate(diagrams):
            # distance to the empty diagram, both ways round: equal and non-zero
            d1 = check("sw(D%d, empty, M=%d)" % (i, M), D, empty, M)
            d2 = check("sw(empty, D%d, M=%d)" % (i, M), empty, D, M)
            if d1 is not None and d2 is not None and not close(d1, d2):
                problems.append("asymmetric against the empty diagram: %r vs %r" % (d1, d2))
            # translation along the diagonal leaves it unchanged
            d3 = check("sw(D%d - 10, empty, M=%d)" % (i, M), D - 10.0, empty, M)
            if d1 is not None and d3 is not None and not close(d1, d3):
                problems.append("translation changed the distance to empty: %r vs %r" % (d1, d3))
            for j, E in enumerate(diagrams):
                a = check("sw(D%d, D%d, M=%d)" % (i, j, M), D, E, M)
                b = check("sw(D%d, D%d, M=%d)" % (j, i, M), E, D, M)
                if a is not None and b is not None and not close(a, b):
                    problems.append("asymmetric: %r vs %r" % (a, b))
        check("sw(empty, empty, M=%d)" % M, empty, empty, M)
        # a diagram with only diagonal points is as good as empty
        check("sw(D0, diagonal-only, M=%d)" % M, diagrams[0], np.array([[1.0, 1.0], [-2.0, -2.0]]), M)

    # triangle inequality through the empty diagram
    A, B = diagrams[1], diagrams[2]
    try:
        if sliced_wasserstein(A, B) > sliced_wasserstein(A, empty) + sliced_wasserstein(empty, B) + 1e-9:
            problems.append("triangle inequality through the empty diagram violated")
    except Exception as e:
        problems.append("triangle through empty: raised %s: %s" % (type(e).__name__, e))

    if problems:
        for p in problems[:12]:
            print("  -", p)
        print("FAIL (%d problems)" % len(problems))
        return 1
    print("PASS")
    return 0


if __name__ == "__main__":
    sys.exit(main())
