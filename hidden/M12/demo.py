"""Property C12 demo: imager geometry stays self-consistent under any configuration history.

Run from inside the tree under test, e.g.
  cd /tmp/wt_M12 && PYTHONPATH=/tmp/wt_M12 /venv/bin/python /tmp/ref_M12/demo.py
Prints PASS and exits 0 if every check holds, prints FAIL (with the violated checks) and exits 1 otherwise.
"""
import sys

import matplotlib

matplotlib.use("Agg")

import numpy as np

from persim import PersistenceImager

TOL = 1e-9
failures = []


def check(cond, msg):
    if not cond:
        failures.append(msg)


def check_geometry(im, label, asked_birth=None, asked_pers=None, points=None):
    """Invariants which must hold after every operation."""
    px = im.pixel_size
    (b0, b1), (p0, p1) = im.birth_range, im.pers_range
    rb, rp = im.resolution

    # resolution x pixel size = covered width / height = extent of the ranges
    check(abs(rb * px - im.width) <= TOL, "%s: resolution[0]*pixel != width" % label)
    check(abs(rp * px - im.height) <= TOL, "%s: resolution[1]*pixel != height" % label)
    check(abs((b1 - b0) - im.width) <= TOL, "%s: birth_range extent != width" % label)
    check(abs((p1 - p0) - im.height) <= TOL, "%s: pers_range extent != height" % label)

    # pixels are squares of exactly the configured size and the mesh spans the ranges
    for pts, lo, hi, n, name in (
        (im._bpnts, b0, b1, rb, "birth"),
        (im._ppnts, p0, p1, rp, "pers"),
    ):
        check(len(pts) == n + 1, "%s: %s mesh has %d edges for %d pixels" % (label, name, len(pts), n))
        check(np.allclose(np.diff(pts), px, rtol=0, atol=TOL), "%s: %s pixels are not of size %r" % (label, name, px))
        check(abs(pts[0] - lo) <= TOL and abs(pts[-1] - hi) <= TOL, "%s: %s mesh does not span the range" % (label, name))

    # the ranges contain what was asked for and exceed it by no more than one pixel
    for asked, (lo, hi), name in (
        (asked_birth, (b0, b1), "birth"),
        (asked_pers, (p0, p1), "pers"),
    ):
        if asked is None:
            continue
        check(lo <= asked[0] + TOL and asked[1] <= hi + TOL, "%s: %s range %r does not contain the requested %r" % (label, name, (lo, hi), tuple(asked)))
        check((hi - lo) - (asked[1] - asked[0]) <= px + TOL, "%s: %s range %r exceeds the requested %r by more than a pixel" % (label, name, (lo, hi), tuple(asked)))

    # every fitted point is covered
    if points is not None:
        inside = (
            (points[:, 0] >= b0 - TOL)
            & (points[:, 0] <= b1 + TOL)
            & (points[:, 1] >= p0 - TOL)
            & (points[:, 1] <= p1 + TOL)
        )
        check(bool(inside.all()), "%s: %d fitted point(s) outside birth_range=%r pers_range=%r" % (label, int((~inside).sum()), (b0, b1), (p0, p1)))

    # every image has exactly the reported resolution
    img = im.transform(np.array([[0.1, 0.3]]), skew=True)
    check(img.shape == im.resolution, "%s: image shape %r != resolution %r" % (label, img.shape, im.resolution))
    check(im.transform(np.zeros((0, 2))).shape == im.resolution, "%s: empty image shape != resolution" % label)


def bp_points(dgms, skew):
    """The pairs of a collection of diagrams in birth-persistence coordinates."""
    pts = np.concatenate([np.asarray(d, dtype=float) for d in dgms])
    if skew:
        pts = np.column_stack([pts[:, 0], pts[:, 1] - pts[:, 0]])
    return pts


def extent(pts):
    return (pts[:, 0].min(), pts[:, 0].max()), (pts[:, 1].min(), pts[:, 1].max())


# --- construction, including ranges which are not whole multiples of the pixel size
for kw in (
    {},
    dict(birth_range=(0.0, 0.3), pers_range=(0.0, 0.7), pixel_size=0.1),
    dict(birth_range=(-1.0, 1.25), pers_range=(0.5, 1.5), pixel_size=1 / 3),
    dict(birth_range=(0, 5), pers_range=(-2, 3), pixel_size=2),
):
    im = PersistenceImager(**kw)
    check_geometry(
        im,
        "PersistenceImager(%r)" % (kw,),
        asked_birth=kw.get("birth_range", (0.0, 1.0)),
        asked_pers=kw.get("pers_range", (0.0, 1.0)),
    )

# --- a configuration history: range and pixel-size assignments and fits, interleaved
im = PersistenceImager(birth_range=(0.0, 1.0), pers_range=(0.0, 0.7), pixel_size=0.1)

im.birth_range = (0.1, 0.4)
check_geometry(im, "birth_range=(0.1, 0.4)", asked_birth=(0.1, 0.4))

im.pers_range = (-0.35, 1.0)
check_geometry(im, "pers_range=(-0.35, 1.0)", asked_pers=(-0.35, 1.0))

before = (im.birth_range, im.pers_range)
im.pixel_size = 0.3
check_geometry(im, "pixel_size=0.3", asked_birth=before[0], asked_pers=before[1])

dgm_bd = np.array([[0.5, 0.8], [0.7, 2.2], [2.5, 4.0]])  # birth-death
dgms_bd = [dgm_bd, np.array([[0.1, 0.2], [3.1, 3.3], [1.6, 2.9]]), [[0, 2], [1, 4]]]
dgm_bp = np.array([[1.0, 2.0], [4.0, 8.0], [-1.0, 5.25]])  # birth-persistence
dgms_bp = [dgm_bp, np.array([[-2.5, 0.5], [0.25, 9.0]])]

for dgms, skew, label in (
    ([dgm_bd], True, "fit(dgm)"),
    (dgms_bd, True, "fit(dgms)"),
    ([dgm_bp], False, "fit(dgm, skew=False)"),
    (dgms_bp, False, "fit(dgms, skew=False)"),
):
    arg = dgms[0] if len(dgms) == 1 else dgms
    im.fit(arg, skew=skew)
    pts = bp_points(dgms, skew)
    eb, ep = extent(pts)
    check_geometry(im, label, asked_birth=eb, asked_pers=ep, points=pts)

    before = (im.birth_range, im.pers_range)
    im.pixel_size = 0.7
    check_geometry(im, label + "; pixel_size=0.7", asked_birth=before[0], asked_pers=before[1], points=pts)
    im.pixel_size = 0.25

# fit_transform is a fit followed by a transform
im = PersistenceImager(pixel_size=0.5)
imgs = im.fit_transform(dgms_bp, skew=False)
pts = bp_points(dgms_bp, False)
eb, ep = extent(pts)
check_geometry(im, "fit_transform(dgms, skew=False)", asked_birth=eb, asked_pers=ep, points=pts)
check(all(i.shape == im.resolution for i in imgs), "fit_transform(dgms, skew=False): image shape != resolution")

if failures:
    print("FAIL")
    for f in failures:
        print("  -", f)
    sys.exit(1)
print("PASS")
sys.exit(0)
