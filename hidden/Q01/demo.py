"""Demo for property C01 (bottleneck distance is the true min-max matching cost).

Run from inside the worktree so that the worktree copy of persim is imported:
  cd /tmp/wt_Q01 && PYTHONPATH=/tmp/wt_Q01 /venv/bin/python /tmp/ref_Q01/demo.py

Compares persim.bottleneck with a brute-force minimum over all partial
matchings on pairs of diagrams that have the same births and the same deaths
but pair them differently (plus a few ordinary pairs as a control).
Prints PASS / exits 0 if every value agrees, prints FAIL / exits 1 otherwise.
"""
import itertools
import sys
import warnings

import numpy as np

from persim import bottleneck


def brute_force(A, B):
    """min over all pairings (points to points or to the diagonal) of the max cost"""
    A = [tuple(map(float, p)) for p in A]
    B = [tuple(map(float, p)) for p in B]
    diag = lambda p: (p[1] - p[0]) / 2.0
    linf = lambda p, q: max(abs(p[0] - q[0]), abs(p[1] - q[1]))
    best = np.inf
    m, n = len(A), len(B)
    # each point of A goes to a distinct point of B or to the diagonal (None)
    for k in range(0, min(m, n) + 1):
        for rows in itertools.combinations(range(m), k):
            for cols in itertools.permutations(range(n), k):
                cost = 0.0
                for i, j in zip(rows, cols):
                    cost = max(cost, linf(A[i], B[j]))
                for i in set(range(m)) - set(rows):
                    cost = max(cost, diag(A[i]))
                for j in set(range(n)) - set(cols):
                    cost = max(cost, diag(B[j]))
                best = min(best, cost)
    return best


def cases():
    # same births {0,1}, same deaths {2,3}, different pairing -> distance 1
    yield np.array([[0.0, 2.0], [1.0, 3.0]]), np.array([[0.0, 3.0], [1.0, 2.0]])
    # integer typed, three points
    yield (
        np.array([[0, 4], [1, 6], [2, 9]]),
        np.array([[0, 9], [1, 4], [2, 6]]),
    )
    # with a repeated point
    yield (
        np.array([[0.0, 1.0], [0.0, 1.0], [0.5, 4.0]]),
        np.array([[0.0, 4.0], [0.0, 1.0], [0.5, 1.0]]),
    )
    rng = np.random.default_rng(11)
    for _ in range(40):
        n = int(rng.integers(2, 5))
        b = rng.integers(0, 6, size=n).astype(float)
        d = b.max() + rng.integers(1, 8, size=n)
        A = np.stack([b, d], axis=1)
        B = np.stack([b[rng.permutation(n)], d[rng.permutation(n)]], axis=1)
        yield A, B
    # controls: unrelated diagrams, identical diagrams, reordered copies
    for _ in range(20):
        A = rng.random((int(rng.integers(0, 5)), 2))
        A[:, 1] += A[:, 0]
        B = rng.random((int(rng.integers(0, 5)), 2))
        B[:, 1] += B[:, 0]
        yield A, B
        yield A, A
        yield A, A[rng.permutation(len(A))]


def main():
    bad = 0
    total = 0
    for A, B in cases():
        with warnings.catch_warnings():
            warnings.simplefilter("ignore")
            got = float(bottleneck(A, B))
        want = brute_force(A, B)
        total += 1
        if not np.isclose(got, want, rtol=1e-12, atol=1e-12):
            bad += 1
            if bad <= 5:
                print("mismatch: dgm1=%s dgm2=%s bottleneck=%r brute force=%r"
                      % (A.tolist(), B.tolist(), got, want))
    print("%d cases, %d mismatches" % (total, bad))
    if bad:
        print("FAIL")
        return 1
    print("PASS")
    return 0


if __name__ == "__main__":
    sys.exit(main())
