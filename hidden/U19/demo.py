"""C19 demo: repeating a call, with calls to other methods in between, must
return identical results (and must leave the inputs untouched).

Run from inside the worktree so that its copy of persim is imported:
    cd /tmp/wt_U19 && PYTHONPATH=/tmp/wt_U19 /venv/bin/python /tmp/ref_U19/demo.py
"""
import sys

import numpy as np

from persim.landscapes import PersLandscapeExact


def main():
    failures = []

    for name, dgm in [
        ("float", np.array([[1.0, 5.0], [2.0, 8.0], [3.0, 4.0], [5.0, 9.0], [6.0, 7.0]])),
        ("int", np.array([[1, 5], [2, 8], [3, 4], [5, 9], [6, 7]])),
        ("nested list", [[1.0, 5.0], [2.0, 8.0], [3.0, 4.0], [5.0, 9.0], [6.0, 7.0]]),
    ]:
        before = repr(dgm)

        # reference: the landscape computed at construction
        eager = PersLandscapeExact(dgms=[dgm], hom_deg=0)
        expected = eager.sup_norm()

        # the same landscape, computed lazily (compute=False is a public option)
        lazy = PersLandscapeExact(dgms=[dgm], hom_deg=0, compute=False)
        first = lazy.sup_norm()          # the call ...
        lazy.p_norm(p=2)                 # ... some other public call in between ...
        second = lazy.sup_norm()         # ... and the same call repeated

        print(f"{name:12s} eager sup_norm = {expected!r}; lazy: first = {first!r}, "
              f"after p_norm() = {second!r}")
        if first != second:
            failures.append(f"{name}: sup_norm() changed from {first} to {second} "
                            "after an interleaved p_norm() call")
        if first != expected:
            failures.append(f"{name}: sup_norm() of the lazily computed landscape is "
                            f"{first}, of the eagerly computed one {expected}")
        if repr(dgm) != before:
            failures.append(f"{name}: the input diagram was modified")

    if failures:
        print("FAIL")
        for f in failures:
            print("  -", f)
        return 1
    print("PASS")
    return 0


if __name__ == "__main__":
    sys.exit(main())
