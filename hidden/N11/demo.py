"""Property C11 demo: persistence images are additive, order-free and non-negative.

Run from inside the tree under test so that its persim is imported, e.g.
  cd /tmp/wt_N11 && PYTHONPATH=/tmp/wt_N11 /venv/bin/python /tmp/ref_N11/demo.py

A typical H1 configuration: unit square, 20 x 20 pixels, a narrow Gaussian
(variance 5e-4, i.e. std ~0.022, about half a pixel).
"""
import sys

import matplotlib

matplotlib.use("Agg")
import numpy as np

import persim
from persim import PersistenceImager

print("persim imported from", persim.__file__)

pimgr = PersistenceImager(
    birth_range=(0.0, 1.0),
    pers_range=(0.0, 1.0),
    pixel_size=0.05,
    kernel_params={"sigma": 0.0005},
)

# birth-death pairs, listed by increasing birth
dgm = np.array(
    [
        [0.10, 0.35],
        [0.30, 0.95],
        [0.55, 0.80],
        [0.80, 0.92],
    ]
)

problems = []


def check(name, ok, detail=""):
    print("%-58s %s %s" % (name, "ok" if ok else "VIOLATED", detail))
    if not ok:
        problems.append(name)


whole = pimgr.transform(dgm)
parts = [pimgr.transform(dgm[i : i + 1]) for i in range(len(dgm))]
total_weight = float(np.sum(dgm[:, 1] - dgm[:, 0]))  # persistence weight, n = 1

# 1. additivity: image of the union = sum of the images
err = np.max(np.abs(whole - sum(parts)))
check("image of a union is the sum of the images", err < 1e-12, "(max abs diff %.3g)" % err)

# 2. order of the points is irrelevant
err = np.max(np.abs(whole - pimgr.transform(dgm[::-1])))
check("reversing the order of the points changes nothing", err < 1e-12, "(max abs diff %.3g)" % err)

rng = np.random.default_rng(0)
perm = rng.permutation(len(dgm))
err = np.max(np.abs(whole - pimgr.transform(dgm[perm])))
check("permuting the points changes nothing", err < 1e-12, "(max abs diff %.3g)" % err)

# 3. non-negative weights: no negative pixel, total mass bounded by total weight
check("no pixel is negative", whole.min() >= -1e-15, "(min pixel %.3g)" % whole.min())
check(
    "pixel total does not exceed the total weight",
    whole.sum() <= total_weight + 1e-12,
    "(total %.6g, weight %.6g)" % (whole.sum(), total_weight),
)

# 4. alone or inside a collection, serial or through joblib
coll = pimgr.transform([dgm[:2], dgm, dgm[2:]])
err = np.max(np.abs(coll[1] - whole))
check("same image alone and inside a collection", err < 1e-12, "(max abs diff %.3g)" % err)
err = np.max(np.abs(coll[0] + coll[2] - whole))
check("two halves in a collection add up to the whole", err < 1e-12, "(max abs diff %.3g)" % err)

# 5. birth-death input vs pre-converted birth-persistence input
bp = dgm.copy()
bp[:, 1] -= bp[:, 0]
err = np.max(np.abs(pimgr.transform(bp, skew=False) - whole))
check("skew=True equals pre-converted input with skew=False", err < 1e-12, "(max abs diff %.3g)" % err)

if problems:
    print("FAIL")
    sys.exit(1)
print("PASS")
sys.exit(0)
