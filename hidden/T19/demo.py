"""C19 demo: a call with its own sampling order must not change what later default calls return.

Exits 0 / prints PASS when every call is pure and repeatable, exits 1 / prints FAIL otherwise.
Uses only spellings that exist before and after the rename (third positional argument and the
old keyword `mapping_sample_size_order`).
"""
import sys
import warnings

import numpy as np

warnings.simplefilter("ignore")

import persim
from persim import gromov_hausdorff

gh_module = sys.modules["persim.gromov_hausdorff"]


def connected_graph(n, p, rng):
    """Upper-triangular adjacency matrix: a path 0-1-...-(n-1) plus random chords."""
    A = np.triu((rng.rand(n, n) < p).astype(int), 1)
    A[np.arange(n - 1), np.arange(1, n)] = 1
    return A


def default_results(pairs, seeds):
    out = []
    for A, B in pairs:
        for seed in seeds:
            np.random.seed(seed)
            out.append(gromov_hausdorff(A, B))
    return out


rng = np.random.RandomState(2024)
pairs = [(connected_graph(rng.randint(9, 14), 0.15, rng), connected_graph(rng.randint(9, 14), 0.15, rng))
         for _ in range(8)]
seeds = range(4)
problems = []

# 1. reference: default calls, repeated
first = default_results(pairs, seeds)
again = default_results(pairs, seeds)
if first != again:
    problems.append("default calls are not repeatable under a fixed seed")

# 2. interleave calls that bring their own order (one mapping per direction)
inputs_before = [(A.tobytes(), B.tobytes()) for A, B in pairs]
default_before = gh_module.DEFAULT_MAPPING_SAMPLE_SIZE_ORDER.tobytes()
own_order = np.array([0.0, 0.0])
own_order_bytes = own_order.tobytes()
np.random.seed(0)
gromov_hausdorff(pairs[0][0], pairs[0][1], own_order)
gromov_hausdorff(pairs[1][0], pairs[1][1], mapping_sample_size_order=own_order)
if own_order.tobytes() != own_order_bytes:
    problems.append("the order array passed by the caller was modified")
if [(A.tobytes(), B.tobytes()) for A, B in pairs] != inputs_before:
    problems.append("an adjacency matrix passed by the caller was modified")
if gh_module.DEFAULT_MAPPING_SAMPLE_SIZE_ORDER.tobytes() != default_before:
    problems.append("the module-level default order changed: %r"
                    % (gh_module.DEFAULT_MAPPING_SAMPLE_SIZE_ORDER,))

# 3. the same default calls once more: must equal the reference
later = default_results(pairs, seeds)
n_diff = sum(a != b for a, b in zip(first, later))
if n_diff:
    k = [a != b for a, b in zip(first, later)].index(True)
    problems.append("%d of %d default calls return something else after a call with its own order "
                    "(e.g. %s before, %s after)" % (n_diff, len(first), first[k], later[k]))

if problems:
    print("FAIL")
    for p in problems:
        print(" -", p)
    sys.exit(1)
print("PASS (%d default calls identical before and after, persim at %s)" % (len(first), persim.__file__))
sys.exit(0)
