"""C16 demo: infinite bars must be replaced by the supplied value, whatever that value is.

Sub-level barcode of a function with negative values: one essential bar born at -3
and one finite bar [-2, -1].  Keeping the essential bar and capping it at the
level 0 gives the bars [-3, 0] and [-2, -1], i.e. lengths (3, 1), whose persistent
entropy is -(3/4 log 3/4 + 1/4 log 1/4).  Translating the whole picture by +5 and
capping at 5 must give the same number.
"""
import sys
import numpy as np
from persim.persistent_entropy import persistent_entropy


def shannon(lengths):
    p = np.asarray(lengths, dtype=float) / np.sum(lengths)
    return -np.sum(p * np.log(p))


def main():
    ok = True
    dgm = np.array([[-3.0, np.inf], [-2.0, -1.0]])
    expected = shannon([3.0, 1.0])

    cases = [
        ("cap at 0 (int)", dgm, 0, False, expected),
        ("cap at 0.0 (float)", dgm, 0.0, False, expected),
        ("cap at 0, normalised", dgm, 0, True, expected / np.log(2)),
        ("translated by +5, cap at 5", dgm + 5.0, 5, False, expected),
        ("list of two diagrams, cap at 0", [dgm, dgm[1:]], 0, False, None),
    ]
    for name, arg, cap, norm, want in cases:
        try:
            got = persistent_entropy(arg, keep_inf=True, val_inf=cap, normalize=norm)
        except Exception as exc:  # noqa: BLE001
            print("  %-34s raised %s: %s" % (name, type(exc).__name__, exc))
            ok = False
            continue
        if want is None:
            want_vec = np.array([expected, 0.0])
        else:
            want_vec = np.array([want])
        good = got.shape == want_vec.shape and np.allclose(got, want_vec, rtol=1e-12, atol=0)
        print("  %-34s got %s, expected %s" % (name, got, want_vec))
        ok = ok and good

    # the mandatory-value rule itself must still hold
    try:
        persistent_entropy(dgm, keep_inf=True)
        print("  missing val_inf was accepted")
        ok = False
    except Exception:
        pass

    print("PASS" if ok else "FAIL")
    return 0 if ok else 1


if __name__ == "__main__":
    sys.exit(main())
